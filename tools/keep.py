#!/usr/bin/env python3
"""tools/keep.py <PROP> <agent-out-dir> <m> <detected_by|MISSED> "<needs>" "<what I ran>"  -> /verif/seeded/<PROP>-<tag>/"""
import json, os, shutil, sys
prop, out, m, detected, needs, ran = sys.argv[1:7]
tag = os.path.basename(out.rstrip("/")) + "-" + m
d = f"/verif/seeded/{tag}"
os.makedirs(d, exist_ok=True)
shutil.copy(f"{out}/{m}.diff", f"{d}/patch.diff")
shutil.copy(f"{out}/demo_{m}.py", f"{d}/demo.py")
readme = open(f"{out}/README.md").read() if os.path.exists(f"{out}/README.md") else ""
json.dump({"property": prop, "breaks": prop, "needs_to_manifest": needs, "detected_by": detected, "what_i_ran": ran,
           "source": "independent sub-agent given only the property text and a scratch worktree"}, open(f"{d}/meta.json", "w"), indent=1)
open(f"{d}/AGENT_README.md", "w").write(readme)
print("kept", d)
