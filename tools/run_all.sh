#!/bin/bash
# tools/run_all.sh [ids...] : run the registered quick checks in /verif against /repo, writing evidence/<id>.json; summary in /tmp/wt/runall.log
cd /verif
IDS="$@"
if [ -z "$IDS" ]; then IDS=$(python3 -c "import json; print(' '.join(c['property_id'] for c in json.load(open('MANIFEST.json'))['checks']))"); fi
for id in $IDS; do
  out=$(VERIF_DEADLINE_S=${VERIF_DEADLINE_S:-3000} MC_NPROC=${MC_NPROC:-8} ./check $id quick 2>&1)
  echo "$(date +%H:%M:%S) $id rc=$? $(echo "$out" | tail -1 | cut -c1-230)" >> /tmp/wt/runall.log
  echo "$out" | grep "^VIOLATION\|HARNESS" | cut -c1-300 >> /tmp/wt/runall.log
done
echo "$(date +%H:%M:%S) DONE" >> /tmp/wt/runall.log
