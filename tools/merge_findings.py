#!/usr/bin/env python3
"""tools/merge_findings.py C48 [C49 ...]: merge mc/props/<ID>.findings.json (written by module authors) into known_findings.json"""
import json, sys
k = json.load(open('/verif/known_findings.json'))
have = {(f['property'], f['key']) for f in k['findings']}
for pid in sys.argv[1:]:
    try:
        fs = json.load(open(f'/verif/mc/props/{pid}.findings.json'))
    except FileNotFoundError:
        print(pid, 'no findings file'); continue
    n = 0
    for f in fs:
        if f.get('status', 'known') != 'known':
            continue
        key = (f.get('property', pid), f['key'])
        if key in have:
            continue
        e = {"property": key[0], "key": f['key'], "status": "known", "what": f.get('what', '')}
        for opt in ('repro', 'fix_idea'):
            if f.get(opt):
                e[opt] = f[opt]
        k['findings'].append(e); have.add(key); n += 1
    print(pid, 'merged', n)
json.dump(k, open('/verif/known_findings.json', 'w'), indent=1)
