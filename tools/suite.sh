#!/bin/bash
# tools/suite.sh <agent-out-dir> <m>  : full pinned suite with the mutation applied, in a scratch worktree; prints summary
OUT=$1; M=$2
W=/tmp/wt/suite-$(basename $OUT)-$M-$$
git -C /repo worktree add -q --detach $W $(git -C /repo rev-parse HEAD) || exit 2
git -C $W apply $OUT/$M.diff || { echo "SUITE $(basename $OUT) $M APPLY-FAILED"; git -C /repo worktree remove --force $W; exit 0; }
R=$(cd $W && PYTHONPATH=$W nice -n 5 /venv/bin/python -m pytest -q -p no:cacheprovider --timeout=900 --continue-on-collection-errors -n 8 2>&1 | tail -1)
git -C /repo worktree remove --force $W
echo "SUITE $(basename $OUT) $M $R" | tee -a /tmp/wt/suite-results.txt
