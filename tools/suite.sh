#!/bin/bash
# tools/suite.sh <agent-out-dir> <m>  : full pinned suite with the mutation applied, in a scratch worktree; prints summary.
# test_threaded.py::test_interrupt sends SIGINT to the main thread and intermittently kills an xdist worker on this
# (loaded) machine, which can wedge the whole run; it is therefore run separately, serially, and reported next to the rest.
OUT=$1; M=$2
W=/tmp/wt/suite-$(basename $OUT)-$M-$$
git -C /repo worktree add -q --detach $W $(git -C /repo rev-parse HEAD) || exit 2
git -C $W apply $OUT/$M.diff || { echo "SUITE $(basename $OUT) $M APPLY-FAILED" | tee -a /tmp/wt/suite-results.txt; git -C /repo worktree remove --force $W; exit 0; }
R=$(cd $W && PYTHONPATH=$W timeout 3000 /venv/bin/python -m pytest -q -p no:cacheprovider --timeout=900 --continue-on-collection-errors -n 8 --deselect "dask/tests/test_threaded.py::test_interrupt" 2>&1 | tail -1 | sed 's/\x1b\[[0-9;]*m//g')
R2=$(cd $W && PYTHONPATH=$W timeout 300 /venv/bin/python -m pytest -q -p no:cacheprovider dask/tests/test_threaded.py -k test_interrupt 2>&1 | tail -1 | sed 's/\x1b\[[0-9;]*m//g')
git -C /repo worktree remove --force $W
echo "SUITE $(basename $OUT) $M $R | test_interrupt: $R2" | tee -a /tmp/wt/suite-results.txt
