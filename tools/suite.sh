#!/bin/bash
# tools/suite.sh <agent-out-dir> <m>  : the pinned suite (/root/.vp/BASELINE.json) with the mutation applied, in a scratch worktree;
# reports how many of the baseline's stable_pass tests still pass.  Use <m>=BASE for the unchanged tree.
# test_threaded.py::test_interrupt sends SIGINT to the main thread and intermittently kills an xdist worker on this
# (loaded) machine, which can wedge the whole run; it is therefore run separately, serially, and merged into the comparison.
OUT=$1; M=$2; N=${SUITE_N:-8}
W=/tmp/wt/suite-$(basename $OUT)-$M-$$
git -C /repo worktree add -q --detach $W $(git -C /repo rev-parse HEAD) || exit 2
if [ "$M" != BASE ]; then
git -C $W apply $OUT/$M.diff || { echo "SUITE $(basename $OUT) $M APPLY-FAILED" | tee -a /tmp/wt/suite-results.txt; git -C /repo worktree remove --force $W; exit 0; }
fi
R=$(cd $W && PYTHONPATH=$W timeout 3000 /venv/bin/python -m pytest -q -p no:cacheprovider --timeout=900 --continue-on-collection-errors -n $N --junitxml=$W/j1.xml --deselect "dask/tests/test_threaded.py::test_interrupt" 2>&1 | tail -1 | sed 's/\x1b\[[0-9;]*m//g')
R2=$(cd $W && PYTHONPATH=$W timeout 300 /venv/bin/python -m pytest -q -p no:cacheprovider --junitxml=$W/j2.xml dask/tests/test_threaded.py -k test_interrupt 2>&1 | tail -1 | sed 's/\x1b\[[0-9;]*m//g')
C=$(python3 /verif/tools/junit_cmp.py $W/j1.xml $W/j2.xml 2>&1 | tail -1)
git -C /repo worktree remove --force $W
echo "SUITE $(basename $OUT) $M $C | $R | test_interrupt: $R2" | tee -a /tmp/wt/suite-results.txt
