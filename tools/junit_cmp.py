#!/usr/bin/env python3
"""tools/junit_cmp.py <junit.xml> [<junit2.xml> ...] -> which tests of /root/.vp/BASELINE.json stable_pass did NOT pass (failed/error/missing)."""
import json, sys
import xml.etree.ElementTree as ET

stable = set(json.load(open("/root/.vp/BASELINE.json"))["stable_pass"])
status = {}
for f in sys.argv[1:]:
    for tc in ET.parse(f).getroot().iter("testcase"):
        tid = f"{tc.get('classname')}::{tc.get('name')}"
        bad = any(ch.tag in ("failure", "error") for ch in tc)
        skipped = any(ch.tag == "skipped" for ch in tc)
        st = "fail" if bad else ("skip" if skipped else "pass")
        if status.get(tid) != "pass":
            status[tid] = st
npass = sum(1 for t in stable if status.get(t) == "pass")
notpass = sorted(t for t in stable if status.get(t) != "pass")
print(f"stable_pass={len(stable)} passing={npass} not_passing={len(notpass)} {[(t, status.get(t, 'missing')) for t in notpass[:6]]}")
