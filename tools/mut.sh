#!/bin/bash
# tools/mut.sh <PROP> <agent-out-dir> <m1|m2> [extra check ids...]
# Validates one sub-agent mutation in its scratch worktree (never in /repo): applies the diff on /repo's HEAD,
# runs the demo (must fail), runs ./check <PROP> quick (+extra) against the worktree, reverts; prints a summary line.
P=$1; OUT=$2; M=$3; shift 3
W=/tmp/wt/val-$P-$M-$$
H=$(git -C /repo rev-parse HEAD)
git -C /repo worktree add -q --detach $W $H || exit 2
if ! git -C $W apply $OUT/$M.diff 2>/tmp/wt/apply-$$.err; then echo "RESULT $P $M APPLY-FAILED $(head -c 200 /tmp/wt/apply-$$.err)"; git -C /repo worktree remove --force $W; exit 0; fi
(cd $W && PYTHONPATH=$W timeout 600 /venv/bin/python $OUT/demo_$M.py >/tmp/wt/demo-$$.log 2>&1); DEMO=$?
RES=""
for C in $P "$@"; do
  (cd /verif; MC_REPO=$W PYTHONPATH=$W MC_EVIDENCE_DIR=/tmp/wt/ev MC_REPLAY_DIR=/tmp/wt/rp-$P-$M ./check $C quick > /tmp/wt/check-$P-$M-$C.log 2>&1); RC=$?
  RES="$RES $C=exit$RC($(grep -c '^VIOLATION' /tmp/wt/check-$P-$M-$C.log)viol)"
done
git -C /repo worktree remove --force $W
echo "RESULT $P $M demo_exit_with_mutation=$DEMO checks:$RES"
