#!/bin/bash
# tools/revert_check.sh <PROP> <fix-commit>   -- "a fixed entry suppresses nothing":
# reverts one fix: commit in a scratch worktree of /repo's HEAD and runs ./check <PROP> quick against it; the check must exit 1.
P=$1; H=$2
W=/tmp/wt/rev-$P-$H
git -C /repo worktree add -q --detach $W HEAD || exit 2
if ! git -C $W revert --no-commit $H >/tmp/wt/rev-$P-$H.err 2>&1; then echo "REVERT $P $H CONFLICT"; git -C /repo worktree remove --force $W; exit 0; fi
(cd /verif; MC_REPO=$W PYTHONPATH=$W MC_EVIDENCE_DIR=/tmp/wt/ev MC_REPLAY_DIR=/tmp/wt/rp-rev-$P-$H ./check $P quick > /tmp/wt/rev-$P-$H.log 2>&1); RC=$?
echo "REVERT $P $H exit=$RC $(grep '^VIOLATION' /tmp/wt/rev-$P-$H.log | sed 's/.*key=//' | cut -c1-90 | head -3 | tr '\n' ';')"
git -C /repo worktree remove --force $W
