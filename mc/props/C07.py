"""C07 -- toposort / getcycle / isdag are correct (DESIGN 5/C07).  E4: all labelled digraphs."""
from __future__ import annotations

import itertools

from mc.run import Hang

ID = "C07"
LEVEL = "exploration"
HANG_IS_VIOLATION = True
WATCHDOG_S = 4.0
NMAX = {"quick": 4, "thorough": 5}
ASSUMPTIONS = [
    "set-iteration order is an input of _toposort: int keys make it a function of the labelling and ALL labelled digraphs are "
    "enumerated, so every traversal order is reached; string keys run under PYTHONHASHSEED=0 (thorough: MC_HASHSEED can be varied)",
    "a returned cycle may be oriented either way (each key depends on the next, or each on the previous) as long as it is consistent",
]


def f(*a):
    return a


def RULE(tier):
    n = NMAX[tier]
    return (
        f"ALL directed graphs (self loops included) on <= {n} labelled nodes"
        + (" (n=5: without self loops, plus exactly one self loop)" if n == 5 else "")
        + " as dask graphs (tasks; list-nodes variant) with int keys (both dict insertion orders) and str keys, x EVERY non-empty start-key "
        "subset (as list) + None + each bare key for getcycle/isdag. Reference: Kahn + reachability written in the harness. "
        "non-trivial = >= 3 nodes and >= 3 edges."
    )


def shards(tier):
    out = []
    for n in range(1, min(NMAX[tier], 4) + 1):
        nm = 1 << (n * n)
        step = max(1, nm // 64)
        for lo in range(0, nm, step):
            out.append((n, lo, min(nm, lo + step), "all"))
    if NMAX[tier] >= 5:
        nm = 1 << 20
        step = nm // 256
        for lo in range(0, nm, step):
            out.append((5, lo, lo + step, "noself"))
    return out


def adj_of(n, mask, mode):
    """adjacency: adj[i] = list of j that i depends on"""
    adj = [[] for _ in range(n)]
    if mode == "all":
        for i in range(n):
            for j in range(n):
                if mask >> (i * n + j) & 1:
                    adj[i].append(j)
    else:
        b = 0
        for i in range(n):
            for j in range(n):
                if i != j:
                    if mask >> b & 1:
                        adj[i].append(j)
                    b += 1
    return adj


def cases_of(shard, tier):
    n, lo, hi, mode = shard
    for mask in range(lo, hi):
        yield (n, mask, mode, "int", False, "t")
        yield (n, mask, mode, "int", True, "t")
        if n <= 4:
            yield (n, mask, mode, "str", False, "t")
            if n <= 3:
                yield (n, mask, mode, "int", False, "l")
        if mode == "noself" and mask % 16 == 0:
            for s in range(n):
                yield (n, mask, ("self", s), "int", False, "t")


def reference(n, adj):
    # acyclic?  Kahn
    indeg = [0] * n
    for i in range(n):
        for j in adj[i]:
            indeg[i] += 1
    done, order_ok = set(), True
    remaining = set(range(n))
    while True:
        ready = [i for i in remaining if all(j in done for j in adj[i])]
        if not ready:
            break
        for i in ready:
            done.add(i)
            remaining.discard(i)
    acyclic = not remaining
    # nodes on a cycle: i reaches i
    reach = [set(a) for a in adj]
    changed = True
    while changed:
        changed = False
        for i in range(n):
            new = set()
            for j in reach[i]:
                new |= reach[j]
            if not new <= reach[i]:
                reach[i] |= new
                changed = True
    oncycle = {i for i in range(n) if i in reach[i]}
    return acyclic, reach, oncycle


def run_case(case, ctx):
    from dask.core import getcycle, isdag, toposort

    n, mask, mode, style, rev, kind = case
    if isinstance(mode, tuple):
        adj = adj_of(n, mask, "noself")
        adj[mode[1]].append(mode[1])
    else:
        adj = adj_of(n, mask, mode)
    K = list(range(n)) if style == "int" else [f"k{i}" for i in range(n)]
    idx = {k: i for i, k in enumerate(K)}
    items = [(K[i], (f, *[K[j] for j in adj[i]]) if kind == "t" else [K[j] for j in adj[i]]) for i in range(n)]
    if kind == "l":
        # a list node whose only element is itself / empty list are still fine as graph values
        pass
    if rev:
        items.reverse()
    dsk = dict(items)
    nedges = sum(map(len, adj))
    acyclic, reach, oncycle = reference(n, adj)
    ctx.case(case, nontrivial=n >= 3 and nedges >= 3, outcome=(n, nedges, acyclic))

    # ---- toposort
    try:
        ts = toposort(dict(dsk))
        exc = None
    except Hang:
        ctx.violation("HANG:toposort", case, "toposort did not return")
        return
    except BaseException as e:  # noqa: BLE001
        ts, exc = None, e
    if acyclic:
        if exc is not None:
            ctx.violation(f"toposort:raises-on-dag:{type(exc).__name__}", case, repr(exc)[:200])
        else:
            pos = {k: p for p, k in enumerate(ts)}
            if sorted(map(repr, ts)) != sorted(map(repr, K)) or len(ts) != n:
                ctx.violation("toposort:not-a-permutation", case, f"{ts!r}")
            elif any(pos[K[j]] > pos[K[i]] for i in range(n) for j in adj[i]):
                ctx.violation("toposort:dependency-after-dependent", case, f"{ts!r}")
    else:
        if exc is None:
            ctx.violation("toposort:cycle-not-detected", case, f"returned {ts!r}")
        elif not isinstance(exc, RuntimeError):
            ctx.violation(f"toposort:wrong-error:{type(exc).__name__}", case, repr(exc)[:200])

    # ---- getcycle / isdag for every start-key set
    starts = [None]
    for r in range(1, n + 1):
        for sub in itertools.combinations(range(n), r):
            starts.append(list(sub))
    starts += [("bare", i) for i in range(n)]
    for st in starts:
        if st is None:
            keys, roots = None, set(range(n))
        elif isinstance(st, tuple):
            keys, roots = K[st[1]], {st[1]}
        else:
            keys, roots = [K[i] for i in st], set(st)
        reachable = set(roots)
        for r_ in roots:
            reachable |= reach[r_]
        has_cycle = bool(reachable & oncycle)
        try:
            c = getcycle(dict(dsk), keys)
        except Hang:
            ctx.violation("HANG:getcycle", (case, repr(st)), "getcycle did not return")
            return
        except BaseException as e:  # noqa: BLE001
            ctx.violation(f"getcycle:raises:{type(e).__name__}", case, f"keys={keys!r}: {e!r}"[:300])
            return
        if not has_cycle:
            if c != []:
                ctx.violation("getcycle:false-cycle", case, f"keys={keys!r} -> {c!r} but no cycle is reachable")
                return
        else:
            if not isinstance(c, list) or len(c) < 2 or c[0] != c[-1]:
                ctx.violation("getcycle:cycle-missed-or-malformed", case, f"keys={keys!r} -> {c!r}")
                return
            try:
                ids = [idx[k] for k in c]
            except (KeyError, TypeError):
                ctx.violation("getcycle:unknown-keys", case, f"keys={keys!r} -> {c!r}")
                return
            fwd = all(ids[p + 1] in adj[ids[p]] for p in range(len(ids) - 1))
            bwd = all(ids[p] in adj[ids[p + 1]] for p in range(len(ids) - 1))
            if not (fwd or bwd):
                ctx.violation("getcycle:not-a-real-cycle", case, f"keys={keys!r} -> {c!r}")
                return
            if not set(ids) <= reachable:
                ctx.violation("getcycle:cycle-not-reachable-from-keys", case, f"keys={keys!r} -> {c!r}")
                return
        try:
            d = isdag(dict(dsk), keys)
        except Hang:
            ctx.violation("HANG:isdag", case, "isdag did not return")
            return
        except BaseException as e:  # noqa: BLE001
            ctx.violation(f"isdag:raises:{type(e).__name__}", case, f"keys={keys!r}: {e!r}"[:300])
            return
        if d is not (not has_cycle):
            ctx.violation("isdag:disagrees", case, f"keys={keys!r}: isdag={d!r} but cycle reachable={has_cycle}")
            return


def run_shard(shard, ctx):
    for case in cases_of(shard, ctx.tier):
        if ctx.out_of_time():
            return
        ctx.guard(case, run_case, case, ctx, hang_key="HANG:uncaught")


def replay(case, ctx):
    if len(case) == 2 and isinstance(case[1], str):
        case = case[0]
    run_case(case, ctx)
