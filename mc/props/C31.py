"""C31 -- tensor products equal NumPy for every chunking; qr / svd of tall-and-skinny or short-and-fat chunked
matrices satisfy their defining equations (DESIGN 5/C31).  E4: exhaustive small scope."""
from __future__ import annotations

import itertools
import warnings

import numpy as np

from mc import arr, enums
from mc.run import Hang

ID = "C31"
LEVEL = "exploration"
WATCHDOG_S = 30.0
ASSUMPTIONS = [
    "sync scheduler; tensor products use distinct integers (also as integer-valued float64 / complex128), so every comparison with NumPy is exact, dtype included",
    "qr/svd use float64 matrices (a permutation of 1..m*n, and a rank-1 matrix); their oracles are the defining equations with atol = 1e-9 * max(1, |A|max) * max(m, n)",
    "qr/svd refusals that dask documents count as rejected: NotImplementedError of qr/svd for arrays chunked along both axes, the ValueError of sfqr "
    "('Input must have the following properties') for a first column chunk narrower than the row count",
    "dask.array has no `inner`; the clause is exercised through NumPy's dispatch np.inner(dask, dask) (__array_function__), which must still equal NumPy",
    "scipy-only routines (lu, solve, cholesky, ...) are outside the statement",
]

EINSUM = {
    "quick": [
        ("ij,jk->ik", ((2, 3), (3, 2))), ("ij,jk", ((2, 3), (3, 2))), ("ij->ji", ((2, 3),)), ("ii->i", ((3, 3),)), ("ii", ((3, 3),)),
        ("ij->", ((2, 3),)), ("ij->i", ((2, 3),)), ("ij->j", ((3, 2),)), ("i,i->", ((4,), (4,))), ("i,i", ((3,), (3,))), ("i,j->ij", ((3,), (2,))),
        ("ij,ij->ij", ((2, 3), (2, 3))), ("ij,ij->", ((2, 3), (2, 3))), ("ijk,kj->i", ((2, 3, 2), (2, 3))), ("ij,j->i", ((2, 3), (3,))),
        ("...j,j->...", ((2, 3), (3,))), ("ij,jk,kl->il", ((2, 2), (2, 3), (3, 2))), ("i->i", ((4,),)), ("ab,bc->ca", ((2, 3), (3, 2))),
        ("i,i,i->i", ((3,), (3,), (3,))), ("ba,b->a", ((3, 2), (3,))), ("ij,kj->ik", ((2, 3), (2, 3))), ("ijk->kji", ((2, 2, 2),)),
        ("i...,i...->...", ((3, 2), (3, 2))), ("ij,ji->", ((2, 3), (3, 2))),
    ],  # fmt: skip
}
EINSUM["thorough"] = EINSUM["quick"] + [
    ("ij,jk->ik", ((3, 4), (4, 3))), ("ijk,jkl->il", ((2, 2, 3), (2, 3, 2))), ("bij,bjk->bik", ((2, 2, 3), (2, 3, 2))), ("ij,ik,il->jkl", ((2, 2), (2, 3), (2, 2))),
    ("iij->j", ((2, 2, 3),)), ("i,j,k->ijk", ((2,), (3,), (2,))),
]  # fmt: skip

# ellipsis family: every operand's '...' independently covers 0, 1 or 2 broadcast axes (NumPy aligns them to the RIGHT); the broadcast
# axes have equal lengths (2,2) or distinct lengths (3,2).  (operand terms, output term or None = implicit output, core letter sizes)
ELL_TEMPLATES = [
    (("...i", "...i"), "...", {"i": 2}),
    (("...ij", "...jk"), "...ik", {"i": 2, "j": 2, "k": 1}),
    (("...ij", "...j"), None, {"i": 1, "j": 2}),
    (("i...", "...i"), "...", {"i": 2}),
    (("...", "..."), "...", {}),
    (("...i", "i..."), None, {"i": 2}),
    (("...i", "...i", "..."), "...", {"i": 2}),
]
ELL_BDIMS = {"eq": (2, 2), "neq": (3, 2)}


def ell_cases(ti):
    terms, out, sizes = ELL_TEMPLATES[ti]
    sub = ",".join(terms) + ("" if out is None else "->" + out)
    for ks in itertools.product((0, 1, 2), repeat=len(terms)):
        for bname in ("eq", "neq") if len(terms) == 2 else ("eq",):
            if bname == "neq" and max(ks) < 2:
                continue  # identical to "eq" when only the last broadcast axis is used
            bd = ELL_BDIMS[bname]
            shps = []
            for term, k in zip(terms, ks):
                before, after = term.split("...")
                shps.append(tuple(sizes[c] for c in before) + tuple(bd[len(bd) - k :]) + tuple(sizes[c] for c in after))
            yield sub, tuple(shps)


TD_PAIRS = {
    "quick": [((3,), (3,)), ((4,), (4,)), ((2, 3), (3,)), ((3,), (3, 2)), ((2, 3), (3, 2)), ((2, 3), (2, 3)), ((2, 4), (4, 3)), ((2, 2, 3), (3, 2)), ((2, 3, 2), (2, 3))],
}
TD_PAIRS["thorough"] = TD_PAIRS["quick"] + [((3, 4), (4, 3)), ((2, 2, 2), (2, 2, 2)), ((5,), (5,)), ((3, 3), (3, 3))]
DOT_PAIRS = [((3,), (3,)), ((4,), (4,)), ((2, 3), (3,)), ((3,), (3, 2)), ((2, 3), (3, 2)), ((2, 2, 3), (3, 2)), ((2, 3), (2, 3, 2)), ((3, 3), (3, 3))]
MM_PAIRS = {
    "quick": [((3,), (3,)), ((4,), (4,)), ((2, 3), (3,)), ((3,), (3, 2)), ((2, 3), (3, 2)), ((2, 2, 3), (3, 2)), ((2, 3), (2, 3, 2)), ((2, 2, 3), (2, 3, 2)), ((1, 2, 3), (2, 3, 2)), ((2, 4), (4, 2))],
}
MM_PAIRS["thorough"] = MM_PAIRS["quick"] + [((3, 4), (4, 3)), ((2, 1, 2, 3), (2, 3, 2)), ((2, 2, 3), (3,)), ((3,), (2, 3, 2))]
OUTER_SHAPES = [(0,), (1,), (3,), (4,), (2, 2)]
_QR = [(n, 2) for n in range(1, 7)] + [(2, n) for n in range(1, 7)] + [(1, 1), (1, 3), (3, 1), (3, 3), (4, 3), (3, 4), (5, 3), (3, 5)]
QR_SHAPES = {"quick": list(dict.fromkeys(_QR))}
QR_SHAPES["thorough"] = QR_SHAPES["quick"] + [(7, 2), (2, 7), (8, 2), (6, 3), (3, 6), (7, 3), (4, 4), (5, 4), (4, 5)]


def RULE(tier):
    return (
        f"tensordot: {len(TD_PAIRS[tier])} shape pairs up to 3-d x EVERY chunking of both operands (incl. mismatched chunks on contracted axes) x every valid axes "
        "spec (ints 0..k, every pair of axis tuples of length <= 2 in every order, int-pair and negative forms) x {int*int, int*float}; dot, matmul "
        "(function and @, broadcast batch axes, 1-d promotions), outer, vdot (complex), np.inner dispatch: all chunkings x operand kinds "
        f"{{dask.dask, dask.numpy, numpy.dask}}; einsum: {len(EINSUM[tier])} subscript patterns (contraction, trace, diagonal, ellipsis, implicit output, "
        "3 operands, transposed output) x all chunkings x optimize {False, greedy} x split_every {None, 2}; ellipsis family: "
        f"{len(ELL_TEMPLATES)} templates ('...i,...i->...', '...ij,...jk->...ik', implicit outputs, leading/trailing '...', 3 operands) x every assignment of 0/1/2 "
        "broadcast axes to each operand's '...' x broadcast lengths {(2,2), (3,2)} x all chunkings. Oracle: value, dtype, lazy shape/chunks == NumPy. "
        f"qr and svd: {len(QR_SHAPES[tier])} matrix shapes (n x 2, 2 x n, n <= 6, and 3..5 wide) x EVERY chunking x {{full-rank, rank-1}}: single column of "
        "chunks -> tsqr, single row -> sfqr, otherwise the documented refusal; Q^T Q = I, R upper-triangular, Q R = A; U diag(s) V = A, s == "
        "numpy.linalg.svd, with and without coerce_signs. non-trivial = some operand has >= 2 chunks."
    )


# ------------------------------------------------------------------------------------------------ enumeration
def axes_specs(sa, sb):
    na, nb = len(sa), len(sb)
    out = []
    for k in range(0, min(na, nb) + 1):
        if k == 0 or tuple(sa[na - k :]) == tuple(sb[:k]):
            out.append(k)
    for L in (1, 2):
        if L > min(na, nb):
            break
        for la in itertools.permutations(range(na), L):
            for ra in itertools.permutations(range(nb), L):
                if all(sa[l] == sb[r] for l, r in zip(la, ra)):
                    out.append((la, ra))
                    if L == 1:
                        out.append((la[0], ra[0]))  # plain ints
                        out.append(((la[0] - na,), (ra[0] - nb,)))  # negative axes
                    else:
                        out.append(("list", la, ra))  # lists instead of tuples
    return out


def shards(tier):
    out = []
    for i, (sa, sb) in enumerate(TD_PAIRS[tier]):
        nch = len(list(enums.chunkings(sa))) * len(list(enums.chunkings(sb)))
        nparts = 8 if nch >= 256 else (2 if nch >= 64 else 1)
        for part in range(nparts):
            out.append(("td", i, part, nparts))
    for i in range(len(DOT_PAIRS)):
        out.append(("dot", i))
    for i in range(len(MM_PAIRS[tier])):
        out.append(("mm", i))
    out.append(("outer",))
    out.append(("vdot",))
    out.append(("inner",))
    for i in range(len(EINSUM[tier])):
        out.append(("einsum", i))
    for ti in range(len(ELL_TEMPLATES)):
        out.append(("einsum-ell", ti))
    for shp in QR_SHAPES[tier]:
        out.append(("qr", shp))
        out.append(("svd", shp))
    return out


KINDS = ("dd", "dn", "nd")


def cases_of(shard, tier):
    kind = shard[0]
    if kind == "td":
        sa, sb = TD_PAIRS[tier][shard[1]]
        part, nparts = shard[2], shard[3]
        specs = axes_specs(sa, sb)
        i = 0
        for ca in enums.chunkings(sa):
            for cb in enums.chunkings(sb):
                i += 1
                if i % nparts != part:
                    continue
                for ax in specs:
                    yield ("td", sa, tuple(ca), sb, tuple(cb), ax, "ii", "dd")
                for ax in specs[:2] + specs[-1:]:  # dtype promotion int x float: the int specs and one tuple spec
                    yield ("td", sa, tuple(ca), sb, tuple(cb), ax, "if", "dd")
                yield ("td", sa, tuple(ca), sb, tuple(cb), specs[-1], "ii", "dn")
                yield ("td", sa, tuple(ca), sb, tuple(cb), specs[-1], "ii", "nd")
    elif kind in ("dot", "mm"):
        sa, sb = (DOT_PAIRS if kind == "dot" else MM_PAIRS[tier])[shard[1]]
        for ca in enums.chunkings(sa):
            for cb in enums.chunkings(sb):
                for k in KINDS:
                    yield (kind, sa, tuple(ca), sb, tuple(cb), "fn", "ii", k)
                    if kind == "mm":
                        yield (kind, sa, tuple(ca), sb, tuple(cb), "op", "ii", k)  # __matmul__ / __rmatmul__
                yield (kind, sa, tuple(ca), sb, tuple(cb), "fn", "if", "dd")  # dtype promotion
    elif kind == "outer":
        for sa in OUTER_SHAPES:
            for sb in OUTER_SHAPES:
                for ca in enums.chunkings(sa):
                    for cb in enums.chunkings(sb):
                        for dt in ("ii", "if"):
                            yield ("outer", sa, tuple(ca), sb, tuple(cb), "fn", dt, "dd")
    elif kind == "vdot":
        for sa, sb in [((3,), (3,)), ((4,), (4,)), ((2, 2), (4,)), ((2, 3), (3, 2))]:
            for ca in enums.chunkings(sa):
                for cb in enums.chunkings(sb):
                    for dt in ("ii", "cc", "if"):
                        yield ("vdot", sa, tuple(ca), sb, tuple(cb), "fn", dt, "dd")
    elif kind == "inner":
        for sa, sb in [((3,), (3,)), ((2, 3), (3,)), ((2, 3), (2, 3)), ((4,), (4,))]:
            for ca in enums.chunkings(sa):
                for cb in enums.chunkings(sb):
                    yield ("inner", sa, tuple(ca), sb, tuple(cb), "np-dispatch", "ii", "dd")
    elif kind == "einsum":
        sub, shps = EINSUM[tier][shard[1]]
        for chs in itertools.product(*[list(enums.chunkings(s)) for s in shps]):
            for opt in (False, "greedy"):
                for se in (None, 2):
                    yield ("einsum", sub, shps, tuple(tuple(c) for c in chs), opt, se)
    elif kind == "einsum-ell":
        for sub, shps in ell_cases(shard[1]):
            for chs in itertools.product(*[list(enums.chunkings(s)) for s in shps]):
                yield ("einsum", sub, shps, tuple(tuple(c) for c in chs), False, None)
    elif kind in ("qr", "svd"):
        shp = shard[1]
        for ch in enums.chunkings(shp):
            for data in ("perm", "rank1"):
                if kind == "qr":
                    yield ("qr", shp, tuple(ch), data)
                else:
                    for cs in (True, False):
                        yield ("svd", shp, tuple(ch), data, cs)


# ------------------------------------------------------------------------------------------------ operands
def operand(shape, j, dt, seed):
    x = arr.data(shape, seed + j, lo=1 + 50 * j)
    if dt == "f":
        return x.astype("f8")
    if dt == "c":
        return x + 1j * arr.data(shape, seed + j + 7, lo=3)
    return x


def known_class(case):
    """narrow input classes of recorded findings; appended to the finding key"""
    if case[0] == "td":
        ax = case[5]
        if isinstance(ax, tuple) and ax[0] != "list":
            left = ax[0] if isinstance(ax[0], tuple) else (ax[0],)
            if any(a < 0 for a in left):
                return ":negative-left-axis"
    if case[0] == "einsum":
        _, sub, shps, chs, opt, se = case
        for term, ch in zip(sub.split("->")[0].split(","), chs):
            letters = [c for c in term if c.isalpha()]
            if "..." in term:
                continue
            for c in set(letters):
                pos = [i for i, x in enumerate(letters) if x == c]
                if len(pos) > 1 and len({ch[i] for i in pos}) > 1:
                    return ":repeated-index-unequal-chunks"
    return ""


def run_tensor(case, ctx):
    import dask.array as da

    op, sa, ca, sb, cb, param, dt, kinds = case
    a = operand(sa, 0, dt[0], ctx.seed)
    b = operand(sb, 1, dt[1], ctx.seed)
    A = da.from_array(a, chunks=ca) if kinds[0] == "d" else a
    B = da.from_array(b, chunks=cb) if kinds[1] == "d" else b
    nontrivial = (kinds[0] == "d" and any(len(c) >= 2 for c in ca)) or (kinds[1] == "d" and any(len(c) >= 2 for c in cb))
    if op == "td":
        ax = param
        if isinstance(ax, tuple) and ax and ax[0] == "list":
            ax = (list(ax[1]), list(ax[2]))
        f_np = lambda: np.tensordot(a, b, axes=ax)
        f_da = lambda: da.tensordot(A, B, axes=ax)
    elif op == "dot":
        f_np = lambda: np.dot(a, b)
        f_da = lambda: da.dot(A, B)
    elif op == "mm":
        f_np = lambda: np.matmul(a, b)
        f_da = (lambda: da.matmul(A, B)) if param == "fn" else (lambda: A @ B)
    elif op == "outer":
        f_np = lambda: np.outer(a, b)
        f_da = lambda: da.outer(A, B)
    elif op == "vdot":
        f_np = lambda: np.vdot(a, b)
        f_da = lambda: da.vdot(A, B)
    elif op == "inner":
        f_np = lambda: np.inner(a, b)
        f_da = lambda: np.inner(A, B)
    else:
        raise ValueError(op)
    compare(op, case, ctx, f_np, f_da, nontrivial, sfx=known_class(case))


def compare(op, case, ctx, f_np, f_da, nontrivial, sfx=""):
    try:
        want = np.asanyarray(f_np())
        np_exc = None
    except Exception as e:  # noqa: BLE001
        want, np_exc = None, e
    try:
        with warnings.catch_warnings():
            warnings.simplefilter("ignore")
            r = f_da()
            got, problem = arr.compute_blocks(r) if hasattr(r, "dask") else (np.asanyarray(r), None)
        d_exc = None
    except Hang:
        raise
    except Exception as e:  # noqa: BLE001
        got, problem, d_exc = None, None, e
    ctx.case(case, nontrivial=nontrivial, outcome=(op, None if want is None else (want.shape, str(want.dtype)), type(np_exc).__name__, type(d_exc).__name__))
    if np_exc is not None:
        ctx.count("inapplicable" if d_exc is None else "both_raise")
        return
    if d_exc is not None:
        if isinstance(d_exc, NotImplementedError):
            ctx.count("rejected")
            return
        ctx.violation(f"{op}:dask-raises:{type(d_exc).__name__}{sfx}", case, f"dask raised {d_exc!r}; NumPy gives {want!r}")
        return
    if problem:
        ctx.violation(f"{op}:lazy-metadata{sfx}", case, problem)
        return
    if hasattr(r, "dask") and r.dtype != got.dtype:
        ctx.violation(f"{op}:lazy-dtype{sfx}", case, f"declared {r.dtype}, computed {got.dtype}")
    why = arr.equal(got, want)
    if why:
        ctx.violation(f"{op}:wrong-value{sfx}" if not why.startswith(("dtype", "shape")) else f"{op}:wrong-{why.split()[0]}{sfx}", case, why)


def run_einsum(case, ctx):
    import dask.array as da

    _, sub, shps, chs, opt, se = case
    xs = [operand(s, j, "i", ctx.seed) for j, s in enumerate(shps)]
    ds = [da.from_array(x, chunks=c) for x, c in zip(xs, chs)]
    nontrivial = any(len(c) >= 2 for ch in chs for c in ch)
    f_np = lambda: np.einsum(sub, *xs)
    f_da = lambda: da.einsum(sub, *ds, optimize=opt, split_every=se)
    compare("einsum", case, ctx, f_np, f_da, nontrivial, sfx=known_class(case))


def matrix(shp, data, seed):
    m, n = shp
    if data == "perm":
        return arr.data(shp, seed).astype("f8")
    u = arr.data((m,), seed).astype("f8")
    v = arr.data((n,), seed + 1).astype("f8")
    return np.outer(u, v)


def documented_refusal(e, ch):
    if isinstance(e, NotImplementedError) and len(ch[0]) > 1 and len(ch[1]) > 1:
        return True
    if isinstance(e, ValueError) and "Input must have the following properties" in str(e) and len(ch[0]) == 1 and len(ch[1]) > 1 and ch[0][0] > ch[1][0]:
        return True  # sfqr: first column chunk narrower than the row count
    return False


def run_qr(case, ctx):
    import dask.array as da

    _, shp, ch, data = case
    a = matrix(shp, data, ctx.seed)
    m, n = shp
    tol = 1e-9 * max(1.0, np.abs(a).max()) * max(m, n)
    nontrivial = any(len(c) >= 2 for c in ch)
    path = "tsqr" if (len(ch[1]) == 1 and len(ch[0]) > 1) else ("sfqr" if len(ch[0]) == 1 else "refused")
    if path == "tsqr" and m < n:
        path = "tsqr-wide"  # a single column of >= 2 row chunks of a matrix with fewer rows than columns (recorded finding)
    try:
        q, r = da.linalg.qr(da.from_array(a, chunks=ch))
        Q, pq = arr.compute_blocks(q)
        R, pr = arr.compute_blocks(r)
    except Hang:
        raise
    except Exception as e:  # noqa: BLE001
        ctx.case(case, nontrivial=nontrivial, outcome=("qr", path, type(e).__name__))
        if documented_refusal(e, ch):
            ctx.count("rejected")
        else:
            ctx.violation(f"qr:dask-raises:{type(e).__name__}:{path}", case, repr(e)[:600])
        return
    ctx.case(case, nontrivial=nontrivial, outcome=("qr", path, Q.shape if Q is not None else None, R.shape if R is not None else None))
    if pq or pr:
        ctx.violation(f"qr:lazy-metadata:{path}", case, f"q: {pq}; r: {pr}")
        return
    if Q.ndim != 2 or R.ndim != 2 or Q.shape[0] != m or R.shape[1] != n or Q.shape[1] != R.shape[0]:
        ctx.violation(f"qr:factor-shapes:{path}", case, f"Q {Q.shape}, R {R.shape} for A {a.shape}")
        return
    k = Q.shape[1]
    if not np.allclose(Q.T @ Q, np.eye(k), rtol=0, atol=1e-9 * max(m, n)):
        ctx.violation(f"qr:q-not-orthonormal:{path}", case, f"Q^T Q = {Q.T @ Q!r}")
    if not np.allclose(R, np.triu(R), rtol=0, atol=tol):
        ctx.violation(f"qr:r-not-upper-triangular:{path}", case, f"R = {R!r}")
    if not np.allclose(Q @ R, a, rtol=0, atol=tol):
        ctx.violation(f"qr:product-differs:{path}", case, f"Q R = {Q @ R!r} vs A = {a!r}")


def run_svd(case, ctx):
    import dask.array as da

    _, shp, ch, data, cs = case
    a = matrix(shp, data, ctx.seed)
    m, n = shp
    tol = 1e-9 * max(1.0, np.abs(a).max()) * max(m, n)
    nontrivial = any(len(c) >= 2 for c in ch)
    path = "single" if (len(ch[0]) == 1 and len(ch[1]) == 1) else ("tall" if len(ch[1]) == 1 else ("fat" if len(ch[0]) == 1 else "refused"))
    try:
        u, s, v = da.linalg.svd(da.from_array(a, chunks=ch), coerce_signs=cs)
        U, pu = arr.compute_blocks(u)
        S, ps = arr.compute_blocks(s)
        V, pv = arr.compute_blocks(v)
    except Hang:
        raise
    except Exception as e:  # noqa: BLE001
        ctx.case(case, nontrivial=nontrivial, outcome=("svd", path, type(e).__name__))
        if isinstance(e, NotImplementedError) and path == "refused":
            ctx.count("rejected")
        else:
            ctx.violation(f"svd:dask-raises:{type(e).__name__}:{path}", case, repr(e)[:600])
        return
    ctx.case(case, nontrivial=nontrivial, outcome=("svd", path, None if U is None else U.shape, None if S is None else S.shape, None if V is None else V.shape))
    if pu or ps or pv:
        ctx.violation(f"svd:lazy-metadata:{path}", case, f"u: {pu}; s: {ps}; v: {pv}")
        return
    want = np.linalg.svd(a, compute_uv=False)
    if S.shape != want.shape or U.ndim != 2 or V.ndim != 2 or U.shape != (m, S.shape[0]) or V.shape != (S.shape[0], n):
        ctx.violation(f"svd:factor-shapes:{path}", case, f"U {U.shape}, s {S.shape}, V {V.shape} for A {a.shape} (NumPy s {want.shape})")
        return
    if not np.allclose(S, want, rtol=1e-9, atol=tol):
        ctx.violation(f"svd:singular-values:{path}", case, f"{S!r} vs NumPy {want!r}")
    if not np.allclose((U * S) @ V, a, rtol=0, atol=tol):
        ctx.violation(f"svd:product-differs:{path}", case, f"U S V = {(U * S) @ V!r} vs A = {a!r}")


def run_case(case, ctx):
    k = case[0]
    if k == "einsum":
        run_einsum(case, ctx)
    elif k == "qr":
        run_qr(case, ctx)
    elif k == "svd":
        run_svd(case, ctx)
    else:
        run_tensor(case, ctx)


def run_shard(shard, ctx):
    for case in cases_of(shard, ctx.tier):
        if ctx.out_of_time():
            return
        ctx.guard(case, run_case, case, ctx)


def replay(case, ctx):
    run_case(case, ctx)
