"""C29 -- da.store writes exactly the sources into the targets; to_npy_stack/from_npy_stack round-trips
(DESIGN 5/C29).  E4: exhaustive small scope; completion orders of the threaded scheduler via E1/E2 (<= 1 deviation)."""
from __future__ import annotations

import itertools
import shutil
import tempfile
import threading

import numpy as np

from mc import arr, enums, sched
from mc.explore import Chooser, explore
from mc.run import Hang

ID = "C29"
LEVEL = "exploration"
WATCHDOG_S = 30.0
HANG_IS_VIOLATION = True  # a store that never returns (e.g. a lock that is not released between chunks) has not written the array
NMAX1 = {"quick": 5, "thorough": 6}
N2MAX = {"quick": 3, "thorough": 4}
S2PARTS = {"quick": 2, "thorough": 6}
FILL = -1
ASSUMPTIONS = [
    "targets are NumPy arrays pre-filled with -1 (sources hold distinct positive integers), so both a missing write and a write outside the region are visible",
    "regions are tuples of slices with non-negative start and positive step (the forms fuse_slice supports); negative starts/steps are enumerated too and must "
    "either be refused with NotImplementedError or be stored correctly",
    "schedulers: sync, the real thread pool (3 workers), the threaded scheduler on a controlled executor in newest-first order; for two sources in one call FIFO and newest-first "
    "order and, with the default lock, every completion order with <= 1 deviation from FIFO (workers touch nothing but their own chunk: DESIGN G3)",
    "to_npy_stack is called with the non-negative axes the docstring describes; files live in a tempfile.mkdtemp() directory that is removed after the case",
]
LOCKS = (True, False, "lock", "serializable")
MODES = ("compute", "later", "ret", "ret_later")
SCHEDS = ("sync", "lifo", "threads")


def RULE(tier):
    return (
        f"store, one source: shapes (n,) n<=" + str(NMAX1[tier]) + ", (), (2,2), (2,3), (3,2)" + (", (3,4), (2,2,2)" if tier == "thorough" else "") + " x EVERY chunking x "
        "regions {None; every offset 0..2 per axis inside a target 2 larger; step-2 regions; negative-start / negative-step regions (refusal expected)} x "
        "lock in {True, False, threading.Lock, SerializableLock} x {compute, compute=False then compute, return_stored, return_stored+compute=False} x "
        "{sync, real threads, newest-first controlled executor}; Delayed targets. store, two sources in one call: all chunkings of lengths 1.." + str(N2MAX[tier]) + " x "
        "{two targets, two targets with regions, one shared target with separated / abutting regions, one region tuple for both; the SAME source object twice into two targets / one shared target} x lock x mode x "
        "{sync + FIFO and newest-first completion + every completion order with <= 1 deviation" + ("" if tier == "thorough" else " (quick: only for lock=True)") + "}. Oracle: target == -1-filled reference with reference[region] = source "
        "(cells outside the region untouched), nothing written before the deferred compute, returned arrays equal the source with the source's chunks. "
        "to_npy_stack/from_npy_stack: every chunking x every axis x mmap_mode x dtype: values, dtype and the chunks along the stacking axis are reproduced; plus every chunking of 11 and 12 elements into >= 11 blocks. "
        "Mutual exclusion: a rendezvous target (a writer inside __setitem__ waits for a second one) x {one source, two sources into one target, two targets} x {True, Lock, SerializableLock}: "
        "no two writes into one target overlap; under an explicit lock object no two writes overlap at all. "
        "non-trivial = some source has >= 2 chunks."
    )


# ------------------------------------------------------------------------------------------------ alphabets
def axis_regions(n, full=True):
    """(target length, slice literal) per axis for a source axis of length n"""
    out = [(n, ("s", None, None, None))]  # whole target axis
    out += [(n + 2, ("s", o, o + n, None)) for o in (0, 1, 2)]
    if full:
        out.append((2 * n + 2, ("s", 1, 1 + 2 * n, 2)))  # strided region (n elements)
        if n >= 1:
            out.append((n + 2, ("s", -n - 1, -1, None)))  # negative bounds: refused by fuse_slice
            out.append((n + 2, ("s", n, 0, -1)))  # negative step (n elements: n..1): refused by fuse_slice
    return out


def regions_for(shp, tier):
    """-> list of region specs: None or tuple of (tlen, slice-literal) per axis"""
    if len(shp) == 0:
        return [None]
    if len(shp) == 1:
        return [None] + [(r,) for r in axis_regions(shp[0])]
    per_axis = [axis_regions(n, full=False)[1:] for n in shp]  # the 3 offsets
    out = [None] + [tuple(t) for t in itertools.product(*per_axis)]
    full = [axis_regions(n) for n in shp]
    out.append(tuple(f[4] for f in full))  # strided on every axis
    out.append((full[0][0],) + tuple(f[2] for f in full[1:]))  # whole axis 0, offset 1 elsewhere
    out.append((full[0][2],) + tuple(f[4] for f in full[1:]))  # offset 1, strided elsewhere
    if all(n >= 1 for n in shp):
        out.append((full[0][2],) + tuple(f[5] for f in full[1:]))  # negative bounds on the later axes
    return out


def shapes1(tier):
    out = [(n,) for n in range(0, NMAX1[tier] + 1)] + [(), (2, 2), (2, 3), (3, 2)]
    if tier == "thorough":
        out += [(3, 4), (2, 2, 2), (0, 2)]
    return out


def shards(tier):
    out = []
    for shp in shapes1(tier):
        nparts = 8 if int(np.prod(shp)) >= 5 else (2 if int(np.prod(shp)) >= 3 else 1)
        for part in range(nparts):
            out.append(("s1", shp, part, nparts))
    for n1 in range(1, N2MAX[tier] + 1):
        for n2 in range(1, N2MAX[tier] + 1):
            for part in range(S2PARTS[tier]):
                out.append(("s2", n1, n2, part))
    for shp in [(n,) for n in range(0, NMAX1[tier] + 2)] + [(2, 2), (2, 3), (3, 2), (2, 2, 2)] + ([(3, 4), (2, 3, 2)] if tier == "thorough" else []):
        out.append(("npy", shp))
    out.append(("npy_many",))
    out.append(("excl",))
    return out


def cases_of(shard, tier):
    kind = shard[0]
    if kind == "s1":
        shp, part, nparts = shard[1], shard[2], shard[3]
        i = 0
        for ch in enums.chunkings(shp):
            for reg in regions_for(shp, tier):
                for lock in LOCKS:
                    for mode in MODES:
                        for sc in SCHEDS:
                            i += 1
                            if i % nparts == part:
                                yield ("s1", shp, tuple(ch), reg, lock, mode, sc, "np")
            # Delayed targets (documented target kind)
            regs = regions_for(shp, tier)
            for reg in regs[:1] + regs[2:3]:
                for lock in (True, False):
                    for mode in MODES:
                        i += 1
                        if i % nparts == part:
                            yield ("s1", shp, tuple(ch), reg, lock, mode, "sync", "delayed")
    elif kind == "s2":
        n1, n2, part = shard[1], shard[2], shard[3]
        layouts = ["two", "two_regions", "same", "same_adjacent"] + (["tuple_region"] if n1 == n2 else [])
        i = 0
        for ch1 in enums.compositions(n1):
            for ch2 in enums.compositions(n2):
                # the SAME source object stored twice in one call (targets of identical initial content are still two sinks)
                twin = ["twin_two", "twin_two_regions", "twin_same"] if (n1 == n2 and ch1 == ch2) else []
                for layout in layouts + twin:
                    for lock in LOCKS:
                        for mode in MODES:
                            i += 1
                            if i % S2PARTS[tier] == part:
                                yield ("s2", n1, ch1, n2, ch2, layout, lock, mode)
    elif kind == "npy_many":
        # >= 11 blocks along the stacking axis: block numbers with different digit counts (file names 0.npy .. 10.npy ..)
        for n in (11, 12):
            for ch in enums.compositions(n):
                if len(ch) < 11:
                    continue
                for mmap in ("r", None):
                    for sc in ("sync", "threads"):
                        yield ("npy", (n,), (tuple(ch),), 0, mmap, "i8", sc)
        for shp, ch, axis in [((12, 2), ((1,) * 12, (2,)), 0), ((2, 11), ((1, 1), (1,) * 11), 1), ((2, 11), ((2,), (1,) * 11), 1)]:
            for dt in ("i8", "f8"):
                yield ("npy", shp, ch, axis, "r", dt, "sync")
    elif kind == "excl":
        # mutual exclusion of the writes: a rendezvous target makes two writers overlap whenever the lock setting lets them
        for layout in ("one", "same", "two"):
            for lock in (True, "lock", "serializable"):
                for ch in ((1, 1), (2, 1)):
                    yield ("excl", layout, lock, ch)
    elif kind == "npy":
        shp = shard[1]
        for ch in enums.chunkings(shp):
            for axis in range(len(shp)):
                for mmap in ("r", None):
                    for dt in ("i8", "f8", "?"):
                        for sc in ("sync", "threads"):
                            yield ("npy", shp, tuple(ch), axis, mmap, dt, sc)


# ------------------------------------------------------------------------------------------------ execution
class Lifo(Chooser):
    def choose(self, n, label=None):
        self.points.append((n, n - 1))
        return n - 1


def make_lock(lock):
    from dask.utils import SerializableLock

    if lock == "lock":
        return threading.Lock()
    if lock == "serializable":
        return SerializableLock()
    return lock


def region_obj(reg):
    return None if reg is None else tuple(arr.sl(r[1]) for r in reg)


def target_shape(shp, reg):
    return tuple(shp) if reg is None else tuple(r[0] for r in reg)


def do_store(sources, xs, tshapes, regions, same_target, lock, mode, tkind, chooser, sc, regions_arg="list"):
    """performs the store under one scheduler / completion order -> list of (failure-class, detail); raises what dask raises"""
    import dask
    import dask.array as da

    if same_target:
        t = np.full(tshapes[0], FILL, dtype="i8")
        targets = [t] * len(sources)
    else:
        targets = [np.full(ts, FILL, dtype="i8") for ts in tshapes]
    refs = [np.full(t.shape, FILL, dtype="i8") for t in targets]
    if same_target:
        refs = [refs[0]] * len(sources)
    for ref, x, r in zip(refs, xs, regions):
        ref[r if r is not None else ...] = x
    given = [dask.delayed(t) for t in targets] if tkind == "delayed" else targets
    single = len(sources) == 1
    if regions_arg == "tuple":
        regs_arg = regions[0]
    else:
        regs_arg = regions[0] if single else list(regions)
    if sc == "sync":
        skw = {"scheduler": "sync"}
        cm = None
    elif sc == "threads":
        skw = {"scheduler": "threads", "num_workers": 3}
        cm = None
    else:
        ex = sched.ControlledExecutor(4)
        skw = {"scheduler": "threads", "pool": ex}
        cm = sched.Harness(ex, chooser)
    problems = []

    def body():
        kw = {"lock": make_lock(lock), "regions": regs_arg}
        if mode in ("compute", "ret"):
            kw.update(skw)
        if mode in ("ret", "ret_later"):
            kw["return_stored"] = True
        if mode in ("later", "ret_later"):
            kw["compute"] = False
        res = da.store(sources[0] if single else list(sources), given[0] if single else given, **kw)
        if mode in ("later", "ret_later"):
            for t in targets:
                if (t != FILL).any():
                    problems.append(("eager-write", f"compute=False but the target already holds {t.tolist()}"))
                    break
        if mode == "compute":
            if res is not None:
                problems.append(("return-value", f"store(compute=True) returned {type(res).__name__}"))
        elif mode == "later":
            outs = [res] if single else list(res)
            dask.compute(*outs, **skw)
        else:
            outs = [res] if single else list(res)
            if len(outs) != len(sources):
                problems.append(("return-value", f"{len(outs)} arrays returned for {len(sources)} sources"))
                return
            if mode == "ret":  # the store has happened; the targets must be complete BEFORE the returned arrays are computed
                for t, ref in zip(targets, refs):
                    if not np.array_equal(t, ref):
                        problems.append(("not-stored-at-return", f"target {t.tolist()} expected {ref.tolist()}"))
                        break
            vals = dask.compute(*outs, **skw)
            for o, v, s, x in zip(outs, vals, sources, xs):
                if o.chunks != s.chunks:
                    problems.append(("returned-chunks", f"{o.chunks} vs source {s.chunks}"))
                why = arr.equal(v, x)
                if why:
                    problems.append(("returned-value", why))

    if cm is None:
        body()
    else:
        with cm:
            body()
    seen = set()
    for t, ref, r in zip(targets, refs, regions):
        if id(t) in seen:
            continue
        seen.add(id(t))
        if not np.array_equal(t, ref):
            inside = np.zeros(t.shape, dtype=bool)
            for tt, rr in zip(targets, regions):
                if tt is t:
                    inside[rr if rr is not None else ...] = True
            if (t[~inside] != FILL).any():
                problems.append(("outside-region-written", f"target {t.tolist()} expected {ref.tolist()}"))
            else:
                problems.append(("wrong-target", f"target {t.tolist()} expected {ref.tolist()}"))
    return problems


def run_store(case, ctx):
    import dask.array as da

    if case[0] == "s1":
        _, shp, ch, reg, lock, mode, sc, tkind = case
        xs = [arr.data(shp, ctx.seed)]
        sources = [da.from_array(xs[0], chunks=ch)]
        regions = [region_obj(reg)]
        tshapes = [target_shape(shp, reg)]
        same_target, regions_arg = False, "list"
        nontrivial = any(len(c) >= 2 for c in ch)
        orders = [sc]
        op = "store1"
    else:
        _, n1, ch1, n2, ch2, layout, lock, mode = case
        x1 = arr.data((n1,), ctx.seed)
        x2 = arr.data((n2,), ctx.seed + 1, lo=100)
        xs = [x1, x2]
        sources = [da.from_array(x1, chunks=(ch1,)), da.from_array(x2, chunks=(ch2,))]
        same_target, regions_arg, tkind = False, "list", "np"
        if layout.startswith("twin_"):
            xs, sources, layout = [x1, x1], [sources[0], sources[0]], layout[5:]
        if layout == "two":
            regions, tshapes = [None, None], [(n1,), (n2,)]
        elif layout == "two_regions":
            regions, tshapes = [(slice(1, 1 + n1),), (slice(2, 2 + n2),)], [(n1 + 2,), (n2 + 3,)]
        elif layout == "same":
            regions, tshapes, same_target = [(slice(1, 1 + n1),), (slice(2 + n1, 2 + n1 + n2),)], [(n1 + n2 + 3,)] * 2, True
        elif layout == "same_adjacent":
            regions, tshapes, same_target = [(slice(0, n1),), (slice(n1, n1 + n2),)], [(n1 + n2,)] * 2, True
        else:  # one region tuple applies to every source
            regions, tshapes, regions_arg = [(slice(1, 1 + n1),)] * 2, [(n1 + 2,), (n2 + 2,)], "tuple"
        nontrivial = len(ch1) >= 2 or len(ch2) >= 2
        # the lock kind cannot interact with the completion order on the (serial) controlled executor: full order exploration for the
        # default lock=True, the two extreme orders for the other lock kinds
        orders = ["sync", "explore"] if (lock is True or ctx.tier == "thorough") else ["sync", "ends"]
        op = "store2"

    outcome = []
    n_exec = 0

    def run(chooser, sc="ctl"):
        return do_store(sources, xs, tshapes, regions, same_target, lock, mode, tkind, chooser, sc, regions_arg)

    def executions():
        for sc in orders:
            if sc == "explore":  # every completion order with <= 1 deviation from FIFO, then newest-first
                for _, problems in explore(run, bound=1, max_execs=200):
                    yield problems
                yield run(Lifo())
            elif sc == "ends":  # FIFO and newest-first
                yield run(Chooser())
                yield run(Lifo())
            else:
                yield run(Lifo(), sc)

    try:
        for problems in executions():
            n_exec += 1
            for cls, detail in problems:
                outcome.append(cls)
                ctx.violation(f"{op}:{cls}", case, detail)
    except Hang:
        raise
    except NotImplementedError as e:
        if case[0] == "s1" and reg is not None and any((r[1][1] or 0) < 0 or (r[1][3] or 1) < 0 for r in reg):
            ctx.count("rejected")  # fuse_slice refuses negative bounds / steps
            outcome.append("rejected")
            nontrivial = False
        else:
            ctx.violation(f"{op}:dask-raises:NotImplementedError", case, repr(e))
    except Exception as e:  # noqa: BLE001
        outcome.append(type(e).__name__)
        ctx.violation(f"{op}:dask-raises:{type(e).__name__}", case, repr(e))
    ctx.count("executions", n_exec)
    ctx.case(case, nontrivial=nontrivial, outcome=(op, tuple(outcome), n_exec))


def run_npy(case, ctx):
    import dask.array as da

    _, shp, ch, axis, mmap, dt, sc = case
    x = arr.data(shp, ctx.seed)
    x = (x % 2 == 0) if dt == "?" else x.astype(dt)
    d = da.from_array(x, chunks=ch)
    nontrivial = len(ch[axis]) >= 2
    dn = tempfile.mkdtemp(prefix="c29-")
    skw = {"scheduler": "sync"} if sc == "sync" else {"scheduler": "threads", "num_workers": 3}
    try:
        try:
            import dask

            with dask.config.set(**skw):
                da.to_npy_stack(dn, d, axis=axis)
                y = da.from_npy_stack(dn, mmap_mode=mmap)
                got, problem = arr.compute_blocks(y)
                got = np.array(got)
        except Hang:
            raise
        except Exception as e:  # noqa: BLE001
            ctx.case(case, nontrivial=nontrivial, outcome=("exc", type(e).__name__))
            ctx.violation(f"npy_stack:dask-raises:{type(e).__name__}", case, repr(e))
            return
    finally:
        shutil.rmtree(dn, ignore_errors=True)
    ctx.case(case, nontrivial=nontrivial, outcome=(shp, len(ch[axis]), dt))
    if problem:
        ctx.violation("npy_stack:lazy-metadata", case, problem)
        return
    if y.chunks[axis] != d.chunks[axis]:
        ctx.violation("npy_stack:chunks-along-axis", case, f"{y.chunks} vs source {d.chunks} (axis {axis})")
    if y.dtype != x.dtype:
        ctx.violation("npy_stack:lazy-dtype", case, f"{y.dtype} vs {x.dtype}")
    why = arr.equal(got, x)
    if why:
        ctx.violation("npy_stack:wrong-value", case, why)


EXCL_WAIT_S = 0.4


class _Book:
    def __init__(self):
        self.mu = threading.Lock()
        self.inside = {}
        self.total = 0
        self.overlap_same = False
        self.overlap_any = False
        self.ev_same = threading.Event()
        self.ev_any = threading.Event()


class _Rendezvous:
    """array-like target: a writer that has entered __setitem__ waits (bounded) for a second writer to enter as well; with a working lock
    the second one cannot, without one it does -- so an overlap that the lock setting allows DOES happen and is recorded"""

    def __init__(self, t, book, wait_any):
        self.t, self.book, self.wait_any = t, book, wait_any
        self.shape, self.dtype, self.ndim = t.shape, t.dtype, t.ndim

    def __setitem__(self, k, v):
        b = self.book
        with b.mu:
            b.inside[id(self)] = b.inside.get(id(self), 0) + 1
            b.total += 1
            if b.inside[id(self)] > 1:
                b.overlap_same = True
                b.ev_same.set()
            if b.total > 1:
                b.overlap_any = True
                b.ev_any.set()
        (b.ev_any if self.wait_any else b.ev_same).wait(EXCL_WAIT_S)
        self.t[k] = v
        with b.mu:
            b.inside[id(self)] -= 1
            b.total -= 1


def run_excl(case, ctx):
    """store docstring: lock=True locks each target, a Lock object is 'shared among all writes'.  Oracle: with lock=True no two writes
    into the SAME target overlap; with an explicit lock object no two writes of the call overlap at all; the data arrive."""
    import dask.array as da

    _, layout, lock, ch = case
    n = sum(ch)
    x1 = arr.data((n,), ctx.seed)
    x2 = arr.data((n,), ctx.seed + 1, lo=100)
    book = _Book()
    explicit = lock is not True
    if layout == "one":
        sources, xs = [da.from_array(x1, chunks=(ch,))], [x1]
        raw = [np.full(n, FILL, dtype="i8")]
        targets, regions = [_Rendezvous(raw[0], book, explicit)], [None]
    elif layout == "same":
        sources, xs = [da.from_array(x1, chunks=(ch,)), da.from_array(x2, chunks=(ch,))], [x1, x2]
        raw = [np.full(2 * n, FILL, dtype="i8")]
        t = _Rendezvous(raw[0], book, explicit)
        targets, regions = [t, t], [(slice(0, n),), (slice(n, 2 * n),)]
    else:
        sources, xs = [da.from_array(x1, chunks=(ch,)), da.from_array(x2, chunks=(ch,))], [x1, x2]
        raw = [np.full(n, FILL, dtype="i8"), np.full(n, FILL, dtype="i8")]
        targets, regions = [_Rendezvous(r, book, explicit) for r in raw], [None, None]
    ctx.case(case, nontrivial=True, outcome=("excl", layout, str(lock)))
    try:
        da.store(sources, targets, lock=make_lock(lock), regions=regions if layout == "same" else None, scheduler="threads", num_workers=4)
    except Hang:
        raise
    except Exception as e:  # noqa: BLE001
        ctx.violation(f"excl:dask-raises:{type(e).__name__}", case, repr(e))
        return
    if book.overlap_same:
        ctx.violation("excl:writes-into-one-target-overlap", case, f"lock={lock!r}: two __setitem__ calls were inside the same target at the same time")
    elif explicit and book.overlap_any:
        ctx.violation("excl:writes-overlap-under-shared-lock", case, f"lock={lock!r} (one lock object for all writes): two writes overlapped")
    want = np.concatenate(xs) if layout == "same" else None
    if layout == "same":
        if not np.array_equal(raw[0], want):
            ctx.violation("excl:wrong-target", case, f"{raw[0].tolist()} expected {want.tolist()}")
    else:
        for r, x in zip(raw, xs):
            if not np.array_equal(r, x):
                ctx.violation("excl:wrong-target", case, f"{r.tolist()} expected {x.tolist()}")


def run_case(case, ctx):
    if case[0] == "excl":
        run_excl(case, ctx)
    elif case[0] == "npy":
        run_npy(case, ctx)
    else:
        run_store(case, ctx)


def run_shard(shard, ctx):
    for case in cases_of(shard, ctx.tier):
        if ctx.out_of_time():
            return
        ctx.guard(case, run_case, case, ctx)


def replay(case, ctx):
    run_case(case, ctx)
