"""C36 -- row-wise / elementwise DataFrame operations equal pandas (DESIGN 5/C36).  E4: bounded-exhaustive programs."""
from __future__ import annotations

from mc.props import _dfprog as P  # first: installs the pyarrow stand-in through mc.dfh

import numpy as np
import pandas as pd

from mc import dfh
from mc.run import Hang

ID = "C36"
LEVEL = "exploration"
WATCHDOG_S = 30.0
FRAMES = ("num", "str", "bool", "dt", "cat", "nullable")
NROWS = 6
ASSUMPTIONS = [
    "sync scheduler; pyarrow stand-in (string columns are pandas 'str'/object backed, dataframe.convert-string=False)",
    "reference = the same literal program interpreted on the whole pandas frame; a step on which pandas itself raises is dropped from the alphabet (inapplicable)",
    "partitions are built with from_delayed (real empty partitions); divisions are declared only when truthful",
    "binary operations with a separately built operand use identical indexes on both sides (that is what 'aligned' means in the statement); "
    "when dask must shuffle to align (unknown divisions, > 1 partition) row order is not promised and rows are compared as a multiset, "
    "and duplicate index values are excluded there (per-partition alignment of duplicated labels is undefined in pandas too)",
    "frame <op> series broadcasting over COLUMN labels (df + df.a) is excluded: it is not a row-aligned operation",
    "map/apply get meta= (a dtype, or the empty pandas result)",
]

# (index kind, partition sizes, divisions mode)
CONFIGS_Q = [
    ("range", (2, 4), "auto"),
    ("sorted_dup", (2, 1, 3), "auto"),
    ("unsorted", (0, 3, 0, 3), "auto"),
]
CONFIGS_T = CONFIGS_Q + [
    ("range", (6,), "auto"),
    ("datetime", (3, 3), "unknown"),
    ("sorted_unique", (1, 1, 1, 3), "auto"),
    ("sorted_dup", (6, 0), "auto"),
    ("range", (0, 0, 6), "auto"),
    ("unsorted", (1, 5), "auto"),
    ("datetime", (1, 2, 3), "auto"),
    ("sorted_unique", (4, 0, 2), "auto"),
    ("sorted_dup", (1, 2, 2, 1), "auto"),
]
CONFIGS_D3 = [("range", (2, 4), "auto"), ("sorted_dup", (2, 1, 3), "auto"), ("unsorted", (0, 3, 0, 3), "auto"), ("datetime", (1, 2, 3), "unknown")]
AL_PARTS_Q = [(6,), (3, 3), (1, 5), (2, 2, 2), (1, 4, 1), (4, 2), (0, 6), (3, 0, 3)]
AL_KINDS = ("range", "sorted_dup", "datetime", "unsorted_unique")
NSH = {"P2": 8, "P3": 12, "D1": 6, "AL": 8}


def RULE(tier):
    common = (
        "6 base frames (int/float+NaN/bool/str/datetime/categorical/nullable Int64 columns, 6 rows; values permuted by VERIF_SEED).  Typed alphabet (_dfprog): ~80 frame "
        "steps (projection incl. reordering, boolean filters incl. reductions in predicates and empty selections, assign incl. shadowing/swapping, frame/series/scalar "
        "arithmetic and comparisons and their method forms, astype, fillna, where/mask, isin, clip, map/apply with meta, rename) and 40-60 steps per series kind incl. 40 "
        ".str members, 31 .dt members, 17 .cat members; the alphabet of step k+1 is derived from the pandas result of step k.  Oracle: computed object identical to pandas "
        "(values, dtypes, index, names, row order).  non-trivial = >= 2 partitions.  "
    )
    if tier == "quick":
        return common + (
            "P2: EVERY program of <= 2 steps core-prefix x full alphabet (~5400) x 3 configurations (known divisions / known divisions with duplicated labels / unknown "
            "divisions with empty partitions).  D1: every 1-step program (~410) x EVERY partitioning of the 6 rows into <= 3 partitions (28, empty ones included), index kind "
            "rotating over the 5 kinds.  AL: 10 (num, nullable) / 5 (str) binary and ternary operations between the frame and a SEPARATELY built, differently partitioned twin "
            "with the identical index x all 64 pairs of 8 partitionings x 4 index kinds."
        )
    return common + (
        "P2 = EVERY program of exactly 2 steps over the full alphabet (~26k) x 12 configurations; P3 = every 3-step program core x core x full (~58k) x 4 configurations; "
        "D1 = every 1-step program x EVERY partitioning into <= 4 partitions (120) x 5 index kinds and every (column, series step) program x the 120 partitionings (index kind "
        "rotating); AL = all 784 pairs of the 28 partitionings into <= 3 partitions."
    )


def shards(tier):
    out = []
    for fam in ("D1", "P2", "AL") + (("P3",) if tier == "thorough" else ()):
        n = NSH[fam] * (2 if tier == "thorough" and fam != "AL" else 1)
        for f in (FRAMES if fam != "AL" else ("num", "nullable", "str")):
            for part in range(n):
                out.append((fam, f, part, n))
    return out


def index_frame(pdf, kind):
    if kind == "unsorted_unique":
        pdf = pdf.copy()
        pdf.index = pd.Index(np.array([5, 2, 9, 4, 7, 1, 8, 3][: len(pdf)]), name="idx")
        return pdf
    return dfh.with_index(pdf, kind)


def al_steps(frame):
    R2 = ("root2",)
    if frame == "str":
        return [
            P.B("+", P.C("s"), P.C("s", R2)), P.acc(P.C("s"), "str", "cat", P.E(P.C("s", R2)), sep="/"), P.B("==", P.C("s"), P.C("s", R2)),
            P.call(P.X, "assign", z=P.E(P.C("s", R2))), ("item", P.X, P.B("==", P.C("s", R2), P.L("x"))),
        ]
    v = "f" if frame == "num" else "n"
    return [
        P.B("+", P.X, R2), P.B("+", P.C("a"), P.C("g", R2)), P.B(">", P.C("a"), P.C(v, R2)), P.B("<=", P.X, R2),
        P.call(P.X, "where", P.E(P.B(">", P.C("a", R2), P.L(3)))), P.call(P.X, "assign", z=P.E(P.C(v, R2))), ("item", P.X, P.B(">", P.C("a", R2), P.L(3))),
        # (other = an int column: with a nullable 'other' the dtype pandas returns depends on whether NA values are actually taken)
        P.call(P.C("a"), "mask", P.E(P.B("==", P.C("g", R2), P.L(0))), P.E(P.C("g", R2))), P.call(P.X, "add", P.E(R2), fill_value=1),
        P.call(P.C(v), "fillna", P.E(P.C("a", R2))),
    ]


def cases_of(shard, tier, seed, counters=None):
    fam, fname, part, n = shard
    pdf0 = dfh.base_frames(seed, NROWS)[fname]
    pick = lambda i: i % n == part  # noqa: E731
    if fam in ("P2", "P3"):
        if fam == "P2":
            levels = ("core", "full") if tier == "quick" else ("full", "full")
            configs = CONFIGS_Q if tier == "quick" else CONFIGS_T
        else:
            levels, configs = ("core", "core", "full"), CONFIGS_D3
        for kind in sorted({c[0] for c in configs}):
            root = index_frame(pdf0, kind)
            for prog, xs in P.enumerate_programs(root, levels, first_filter=pick, counters=counters):
                if fam == "P3" and len(prog) < 3:
                    continue
                if fam == "P2" and tier == "thorough" and len(prog) < 2:
                    continue
                for c in configs:
                    if c[0] == kind:
                        yield (fam, fname, kind, c[1], c[2], prog), xs
    elif fam == "D1":
        allparts = dfh.partitionings(NROWS, 3 if tier == "quick" else 4)
        for ki, kind in enumerate(dfh.INDEX_KINDS):
            root = index_frame(pdf0, kind)
            levels = ("full",) if tier == "quick" else ("full", "full")
            for prog, xs in P.enumerate_programs(root, levels, first_filter=pick, counters=counters):
                if len(prog) == 2 and prog[0][0] != "col":
                    continue  # thorough: also every (column, series step) program, so that every accessor member meets every partitioning
                for pi, parts in enumerate(allparts):
                    if (tier == "quick" or len(prog) == 2) and pi % len(dfh.INDEX_KINDS) != ki:
                        continue  # every partitioning once, the index kind rotating over the partitionings (thorough 1-step programs: all 5 kinds)
                    yield (fam, fname, kind, parts, "auto", prog), xs
    elif fam == "AL":
        plist = AL_PARTS_Q if tier == "quick" else dfh.partitionings(NROWS, 3)
        steps = al_steps(fname)
        k = 0
        for kind in AL_KINDS:
            root = index_frame(pdf0, kind)
            for step in steps:
                xs = None
                for p1 in plist:
                    for p2 in plist:
                        k += 1
                        if not pick(k):
                            continue
                        if xs is None:
                            xs = P.run_pandas((step,), root, root)
                        yield (fam, fname, kind, p1, "auto", (step,), p2), xs


QUIET = ("ok", "rejected", "out_of_scope", "unsupported_api")


def minimize(case, status, detail, seed):
    """delta-debugging on the step sequence: drop steps while the program stays valid for pandas and still fails with the same
    status; the surviving steps name the finding.  -> (program, status, detail, pandas intermediates)"""
    prog = list(case[5])
    root = index_frame(dfh.base_frames(seed, NROWS)[case[1]], case[2])
    pxs = None
    progress = True
    while progress and len(prog) > 1:
        progress = False
        for i in range(len(prog) - 1, -1, -1):
            cand = tuple(prog[:i] + prog[i + 1 :])
            try:
                with np.errstate(all="ignore"):
                    cxs = P.run_pandas(cand, root, None)
            except Exception:  # noqa: BLE001
                continue
            if not P.in_alphabet(cand, cxs, P.steps_for) or (isinstance(cxs[-1], pd.DataFrame) and not cxs[-1].columns.is_unique):
                continue  # stay inside the enumerated space (a-priori exclusions also hold for minimised programs)
            r = evaluate(case[:5] + (cand,) + case[6:], cxs, seed)
            if r[0] == status:
                prog, detail, pxs, progress = list(cand), r[1], cxs, True
                break
    return tuple(prog), status, detail, pxs


def input_class(x):
    """narrow, value-free class of the input of the failing step: kind of the object it is applied to"""
    if isinstance(x, pd.DataFrame):
        return "frame[" + "+".join(sorted({P.kind_of(t) for t in x.dtypes})) + "]"
    if isinstance(x, pd.Series):
        return "series[" + P.kind_of(x.dtype) + "]"
    return type(x).__name__


def align_class(case):
    """AL family: how dask has to align the two separately built operands"""
    root = index_frame(dfh.base_frames(0, NROWS)[case[1]], case[2])
    k1, k2 = dfh.divisions_for(root, case[3]) is not None, dfh.divisions_for(root, case[6]) is not None
    return "other:known-divisions" if k1 and k2 else "other:unknown-divisions"


def evaluate(case, pxs, seed):
    """-> (status, detail, pxs, got).  status: ok | rejected | out_of_scope | unsupported_api | dask-raises:<T> | wrong:<what differs>"""
    fam, fname, kind, parts, divmode, prog = case[:6]
    root = index_frame(dfh.base_frames(seed, NROWS)[fname], kind)
    root2 = root if fam == "AL" else None
    if pxs is None:
        with np.errstate(all="ignore"):
            pxs = P.run_pandas(prog, root, root2)
    want = pxs[-1]
    droot = dfh.build(root, parts, divisions="auto" if divmode == "auto" else None)
    droot2 = dfh.build(root, case[6]) if fam == "AL" else None
    ordered = True
    if fam == "AL" and not (droot.known_divisions and droot2.known_divisions) and max(droot.npartitions, droot2.npartitions) > 1:
        ordered = False  # dask must shuffle both sides to align them: row order is not promised
        if not root.index.is_unique:
            return "out_of_scope", "shuffle-alignment of duplicated index labels", pxs, None
    try:
        with np.errstate(all="ignore"):
            d = P.run_dask(prog, droot, pxs, root, droot2, root2)
            got = d.compute() if hasattr(d, "compute") and hasattr(d, "expr") else d
    except Hang:
        raise
    except P.UnsupportedAPI as e:
        return "unsupported_api", str(e), pxs, None
    except Exception as e:  # noqa: BLE001
        cls = dfh.classify_exc(e)
        if cls != "crash":
            return cls, repr(e)[:200], pxs, None
        return f"dask-raises:{type(e).__name__}", repr(e)[:400], pxs, None
    why = P.same(got, want, ordered=ordered)
    if why:
        return "wrong:" + P.diff_class(got, want, ordered), why, pxs, got
    return "ok", None, pxs, got


def run_case(case, ctx, pxs=None):
    fam, fname, kind, parts, divmode, prog = case[:6]
    status, detail, pxs, got = evaluate(case, pxs, ctx.seed)
    nparts = max(len(parts), len(case[6]) if fam == "AL" else 0)
    ctx.case(case, nontrivial=nparts >= 2, outcome=(P.summary(pxs[-1]), status if status in QUIET else "fail"))
    if status == "ok":
        return
    if status in QUIET:
        ctx.count(status)
        return
    k = len(prog)
    if len(prog) > 1:
        prog, status, detail, mxs = minimize(case, status, detail, ctx.seed)
        pxs, k = (mxs or pxs), len(prog)
    step = prog[k - 1]
    if status.startswith("dask-raises") and len(pxs[k - 1]) == 0 and rejected_on_nonempty(step, pxs[k - 1]):
        ctx.count("inapplicable")  # pandas accepts the step only because the frame is EMPTY; it rejects the schema as soon as there is a row
        return
    if fam == "AL":
        op = P.sig(step)
        op, cls = "binop" if (op.startswith("binop") or op == "add") else op, align_class(case)
        if op == "binop" and cls == "other:unknown-divisions" and status.startswith("wrong:"):
            status = "wrong-result"  # one defect (partitions combined positionally), many shapes of wrongness
        if op == "str.cat":
            cls = "other:not-co-aligned"
        key = f"{op}:{status}:{cls}"
    else:
        cls = known_class(step, status, pxs[k - 1])
        if cls is None and k >= 2:
            # no shorter program fails: an INTERACTION between a producer and its consumers (typically an optimizer rewrite or a
            # partition-dependent dtype of the producer); named by the producer, whatever the consumer
            key = f"{P.chain_sig(prog[k - 2])}>*:{status}:chain"
        else:
            key = f"{P.sig(step)}:{status}:{cls or input_class(pxs[k - 1])}"
    ctx.violation(key, case, f"minimal failing program [{P.program_src(prog)}]: {detail}")


def rejected_on_nonempty(step, x):
    from dask.dataframe.utils import meta_nonempty

    try:
        with np.errstate(all="ignore"):
            P.ev(step, {"x": meta_nonempty(x.iloc[:0]), "root": None, "root2": None, "dask": False})
    except Exception:  # noqa: BLE001
        return True
    return False


def known_class(step, status, x):
    """input classes of recorded findings (C36.findings.json): one key per defect, whatever frame it was seen on"""
    op = P.sig(step)
    if op.startswith("astype[") and "category" in op and status == "wrong:categories-order":
        return "any"
    if op.startswith("astype[") and "str" in op and status == "wrong:values":
        kinds = {P.kind_of(t) for t in (x.dtypes if isinstance(x, pd.DataFrame) else [x.dtype])}
        if "dt" in kinds:
            return "datetime-column"
    if op == "assign" and status == "wrong:columns-order":
        return "any"
    return None


def run_shard(shard, ctx):
    counters = {}
    for case, xs in cases_of(shard, ctx.tier, ctx.seed, counters):
        if ctx.out_of_time():
            break
        ctx.guard(case, run_case, case, ctx, xs)
    for name, n in counters.items():
        ctx.count(name, n)


def replay(case, ctx):
    run_case(case, ctx)
