"""C26 -- overlap computations match the unchunked stencil (DESIGN 5/C26).  E4: exhaustive small scope.

Kinds of cases (all literals):
  ("rt",  shape, chunks, depth, boundary, allow_rechunk)
        o = overlap(x, depth, boundary): (a) every block of o is the base block grown by depth into its neighbours /
        the boundary padding of the WHOLE array (b) trim_internal(o, depth, boundary) == x
  ("mo",  shape, chunks, depth, boundary, allow_rechunk, fn, form)
        map_overlap(stencil) == trim(stencil(np.pad(x, boundary)))   (stencil window fits inside depth)
  ("mo2", shape_x, chunks_x, shape_y, chunks_y, d, boundary)
        two-array map_overlap (chunk alignment + block broadcasting) vs the same reference
  ("mod", shape, chunks, depth, boundary, variant)
        map_overlap whose function changes the rank: variant ('drop', a) = stencil then sum over axis a (drop_axis=a, depth 0 on a),
        ('new', k) = stencil then a new length-1 axis at k (new_axis=k); depth and boundary given as per-axis dicts
  ("swv", shape, chunks, window, axis, automatic_rechunk)
        sliding_window_view == numpy.lib.stride_tricks.sliding_window_view
depth  = tuple per axis of int | (left, right);  boundary = tuple per axis of 'none'|'periodic'|'reflect'|'nearest'|int
"""
from __future__ import annotations

import functools
import itertools

import numpy as np

from mc import arr, enums
from mc.run import Hang

ID = "C26"
LEVEL = "exploration"
WATCHDOG_S = 30.0
ASSUMPTIONS = [
    "sync scheduler; data are distinct positive integers, so every cell of an overlapped block is traceable and all comparisons are exact",
    "boundary names map to NumPy pad modes as dask documents them: periodic=wrap, reflect=symmetric (edge cell repeated), nearest=edge, "
    "a number=constant; 'none' = no padding and no trimming at the outer edges",
    "stencils handle the edge of whatever array they receive by zero fill (wsum, corner) or by ignoring missing neighbours (max); they never "
    "wrap, so a window that fits inside depth makes the blockwise and the whole-array result agree by construction",
    "documented refusals are counted, never silent: ValueError when depth exceeds the axis length or (allow_rechunk=False) the smallest "
    "chunk, NotImplementedError for asymmetric depth with a boundary other than 'none' (those are excluded a priori from the alphabet)",
]

CONST = -7
BKINDS = ("none", "periodic", "reflect", "nearest", CONST)
NP_MODE = {"periodic": "wrap", "reflect": "symmetric", "nearest": "edge"}
ASYM = ((0, 1), (1, 0), (1, 2), (2, 1), (0, 2), (2, 0))
MIXED2 = (
    ("none", "periodic"),
    ("reflect", "none"),
    (CONST, "nearest"),
    ("periodic", "reflect"),
    ("nearest", CONST),
    ("reflect", "periodic"),
)
FNS = ("wsum", "max", "corner")

SHAPES1 = {"quick": (1, 2, 3, 4, 5, 6), "thorough": (1, 2, 3, 4, 5, 6, 7, 8)}
SHAPES2 = {
    "quick": ((2, 3), (3, 2), (3, 3), (3, 4), (4, 3)),
    "thorough": ((1, 3), (2, 2), (2, 3), (3, 2), (3, 3), (2, 4), (4, 2), (3, 4), (4, 3), (2, 5), (2, 6), (4, 4), (3, 5), (4, 5)),
}
SHAPES3 = {"quick": (), "thorough": ((2, 2, 2), (2, 3, 2))}
DMAX = {"quick": 2, "thorough": 3}
MO_SKIP_QUICK = ((4, 3),)


def RULE(tier):
    return (
        f"1-d lengths {SHAPES1[tier]} and 2-d shapes {SHAPES2[tier]} (thorough also 3-d {SHAPES3['thorough']}) x EVERY chunking x depth per "
        f"axis in 0..{DMAX[tier]} (every combination) x boundary in {{none, periodic, reflect, nearest, constant}} (1-d: all; 2-d quick: 5 "
        "uniform + 6 mixed per-axis pairs, thorough: all 25) plus asymmetric (left,right) depths from "
        f"{ASYM} with boundary 'none' x allow_rechunk in {{True, False}} (1-d; 2-d: True, so chunks smaller than depth go through the "
        "rechunk-to-fit path). rt: content of every overlapped block and trim_internal(overlap(x)) == x. mo: 3 stencils (asymmetric-weight box "
        "sum of radius == depth, box max, extreme-corner difference) through map_overlap with depth/boundary given as tuple, dict or scalar "
        f"(quick: not for shapes {MO_SKIP_QUICK}) "
        "vs the stencil applied to the np.pad'ed whole array and trimmed. mod: the box sum followed by a reduction over each axis (drop_axis, "
        f"shapes {MOD_SHAPES[tier]}, depth 0 on the dropped axis, all 25 per-axis boundary pairs) or by a new axis at every position (new_axis, "
        f"shapes {MOD_NEW_SHAPES[tier]}), depth/boundary as per-axis dicts. mo2: two arrays (every pair of chunkings; 2-d with broadcast 1-d). "
        "swv: sliding_window_view for every window shape, axis spec (None, single, reversed pair, repeated axis) and automatic_rechunk vs "
        "NumPy. non-trivial = >= 2 chunks on an axis with depth/window > 0/1."
    )


# --------------------------------------------------------------------------- enumeration
def sym_depths(ndim, dmax):
    return list(itertools.product(range(dmax + 1), repeat=ndim))


def boundaries_for(ndim, tier):
    if ndim == 1:
        return [(b,) for b in BKINDS]
    if ndim == 2:
        if tier == "thorough":
            return list(itertools.product(BKINDS, repeat=2))
        return [(b, b) for b in BKINDS] + list(MIXED2)
    return [(b,) * ndim for b in BKINDS] + [("none", "periodic", "reflect"), (CONST, "nearest", "none")]


def asym_depths(ndim):
    """asymmetric depth tuples (boundary 'none' on every axis)"""
    if ndim == 1:
        return [(a,) for a in ASYM]
    if ndim == 2:
        return [((0, 1), (1, 0)), ((1, 2), 1), (1, (2, 1)), ((0, 2), (2, 0)), ((1, 0), (0, 1)), (0, (1, 2)), ((2, 1), 0), ((2, 0), (0, 2))]
    return [((0, 1), (1, 0), 1), (1, (1, 2), (0, 1))]


def depth_boundary_pairs(ndim, tier):
    out = []
    for d in sym_depths(ndim, DMAX[tier]):
        for b in boundaries_for(ndim, tier):
            out.append((d, b))
    for d in asym_depths(ndim):
        out.append((d, ("none",) * ndim))
    return out


def forms_for(depth, boundary):
    """ways of spelling depth/boundary: t = tuples, d = dicts, s = scalars (only if uniform and symmetric)"""
    f = ["t", "d"]
    if len(set(depth)) == 1 and len(set(boundary)) == 1 and not isinstance(depth[0], tuple):
        f.append("s")
    return f


def shape_list(tier):
    return [(n,) for n in SHAPES1[tier]] + list(SHAPES2[tier]) + list(SHAPES3[tier])


def nparts_for(shape, tier):
    nch = 1
    for n in shape:
        nch *= 1 << max(n - 1, 0)
    return max(1, min(nch, (16 if tier == "thorough" else 8) if nch >= 16 else (4 if nch >= 8 else 1)))


SWV_SHAPES = {
    "quick": [(n,) for n in range(1, 7)] + [(2, 3), (3, 2), (3, 4)],
    "thorough": [(n,) for n in range(1, 9)] + [(2, 3), (3, 2), (3, 3), (3, 4), (4, 3), (4, 4), (2, 2, 2)],
}
MOD_SHAPES = {"quick": ((2, 3), (3, 2), (3, 4)), "thorough": ((2, 3), (3, 2), (3, 3), (3, 4), (4, 3), (4, 4), (2, 2, 2), (2, 3, 2))}
MOD_NEW_SHAPES = {"quick": ((2, 3), (3, 2)), "thorough": ((2, 3), (3, 2), (3, 4), (4, 3), (2, 2, 2))}


def mod_specs(shape, tier):
    """(depth, boundary, variant) for the rank-changing map_overlap cases"""
    nd = len(shape)
    out = []
    dmax = DMAX[tier]
    for a in range(nd):
        # the dropped axis cannot be trimmed again, so it is not overlapped (depth 0); its boundary entry is still enumerated
        for dk in itertools.product(range(0, dmax + 1), repeat=nd - 1):
            if not any(dk):
                continue
            depth = dk[:a] + (0,) + dk[a:]
            bs = itertools.product(BKINDS, repeat=nd) if nd == 2 else boundaries_for(nd, tier)
            for b in bs:
                out.append((depth, tuple(b), ("drop", a)))
    if shape in MOD_NEW_SHAPES[tier]:
        depths = [d for d in sym_depths(nd, dmax) if any(d)]
        if tier == "quick":
            depths = [d for d in depths if d in ((1, 1), (2, 1), (0, 2), (1, 0), (1, 2))]
        for k in range(nd + 1):
            for depth in depths:
                for b in boundaries_for(nd, "quick" if nd == 2 else tier):
                    out.append((depth, tuple(b), ("new", k)))
    return out


MO2_PAIRS = {
    "quick": [((4,), (4,)), ((2, 3), (3,)), ((3, 3), (3, 1))],
    "thorough": [((4,), (4,)), ((5,), (5,)), ((6,), (6,)), ((2, 3), (3,)), ((3, 4), (4,)), ((3, 3), (3, 1)), ((3, 4), (3, 4)), ((4, 4), (1, 4))],
}


def shards(tier):
    out = []
    for shape in shape_list(tier):
        k = nparts_for(shape, tier)
        for kind in ("rt", "mo"):
            if kind == "mo" and tier == "quick" and shape in MO_SKIP_QUICK:
                continue  # budget: the transposed twin (3,4) is enumerated; (4,3) stays in the rt kind
            for part in range(k):
                out.append((kind, shape, part, k))
    for shape in MOD_SHAPES[tier]:
        k = nparts_for(shape, tier)
        for part in range(k):
            out.append(("mod", shape, part, k))
    for shape in SWV_SHAPES[tier]:
        k = 4 if len(shape) > 1 and shape != (2, 3) and shape != (3, 2) else 1
        for part in range(k):
            out.append(("swv", shape, part, k))
    for sx, sy in MO2_PAIRS[tier]:
        k = 4
        for part in range(k):
            out.append(("mo2", sx, sy, part, k))
    out.sort(key=lambda s: (int(np.prod(s[1])), s[0]))
    return out


def swv_specs(shape):
    """(window_shape, axis) literals; window entries 1..n+1 (n+1 makes NumPy raise)"""
    nd = len(shape)
    out = []
    if nd == 1:
        n = shape[0]
        for w in range(1, n + 2):
            out.append(((w,), None))
            out.append((w, 0))
            out.append(((w,), (-1,)))
        for w1 in range(1, n + 1):  # repeated axis: windows accumulate
            for w2 in range(1, n + 1):
                if (w1 - 1) + (w2 - 1) <= n:
                    out.append(((w1, w2), (0, 0)))
        return out
    for ws in itertools.product(*[range(1, n + 1) for n in shape]):
        out.append((ws, None))
    for ax in range(nd):
        for w in range(1, shape[ax] + 2):
            out.append((w, ax))
            out.append(((w,), (ax - nd,)))
    if nd == 2:
        for w1 in range(1, shape[1] + 1):
            for w0 in range(1, shape[0] + 1):
                out.append(((w1, w0), (1, 0)))
        for ax in range(2):
            for w1 in range(1, shape[ax] + 1):
                for w2 in range(1, shape[ax] + 1):
                    if w1 + w2 - 2 < shape[ax]:
                        out.append(((w1, w2), (ax, ax)))
    return out


def cases_of(shard, tier):
    kind = shard[0]
    if kind in ("rt", "mo"):
        shape, part, k = shard[1], shard[2], shard[3]
        nd = len(shape)
        pairs = depth_boundary_pairs(nd, tier)
        for ci, ch in enumerate(enums.chunkings(shape)):
            if ci % k != part:
                continue
            for depth, boundary in pairs:
                rechunks = (True, False) if nd == 1 else (True,)
                for ar in rechunks:
                    if kind == "rt":
                        yield ("rt", shape, ch, depth, boundary, ar)
                    else:
                        forms = forms_for(depth, boundary)
                        for fi, fn in enumerate(FNS):
                            if nd == 1 and fn == "wsum":
                                for form in forms:
                                    yield ("mo", shape, ch, depth, boundary, ar, fn, form)
                            else:
                                if tier == "quick" and fn != "wsum" and len(set(boundary)) != 1:
                                    continue  # quick: mixed per-axis boundaries only with the box sum
                                yield ("mo", shape, ch, depth, boundary, ar, fn, forms[fi % len(forms)])
    elif kind == "mod":
        shape, part, k = shard[1], shard[2], shard[3]
        specs = mod_specs(shape, tier)
        for ci, ch in enumerate(enums.chunkings(shape)):
            if ci % k != part:
                continue
            for depth, boundary, variant in specs:
                yield ("mod", shape, ch, depth, boundary, variant)
    elif kind == "swv":
        shape, part, k = shard[1], shard[2], shard[3]
        specs = swv_specs(shape)
        for ci, ch in enumerate(enums.chunkings(shape)):
            if ci % k != part:
                continue
            for w, ax in specs:
                for auto in (True, False):
                    yield ("swv", shape, ch, w, ax, auto)
    elif kind == "mo2":
        sx, sy, part, k = shard[1], shard[2], shard[3], shard[4]
        i = 0
        for cx in enums.chunkings(sx):
            for cy in enums.chunkings(sy):
                i += 1
                if i % k != part:
                    continue
                for d in range(1, DMAX[tier] + 1):
                    for b in BKINDS:
                        yield ("mo2", sx, cx, sy, cy, d, b)
    else:
        raise ValueError(kind)


# --------------------------------------------------------------------------- reference model
def lr(d):
    return (d[0], d[1]) if isinstance(d, tuple) else (d, d)


def pad_whole(x, depth, boundary):
    """the whole array padded by depth with the boundary rule on every axis that has one"""
    p = x
    for ax in range(x.ndim):
        l, r = lr(depth[ax])
        b = boundary[ax]
        if b == "none" or (l == 0 and r == 0):
            continue
        pw = [(0, 0)] * x.ndim
        pw[ax] = (l, r)
        if isinstance(b, str):
            p = np.pad(p, pw, mode=NP_MODE[b])
        else:
            p = np.pad(p, pw, mode="constant", constant_values=b)
    return p


def trim_whole(p, depth, boundary):
    ix = []
    for ax in range(p.ndim):
        l, r = lr(depth[ax])
        if boundary[ax] == "none":
            ix.append(slice(None))
        else:
            ix.append(slice(l, p.shape[ax] - r))
    return p[tuple(ix)]


def stencil(a, kind="wsum", win=()):
    """shape-preserving local function; win = per-axis (lo, hi): cell i reads a[i-lo .. i+hi]; no wrap-around"""
    a = np.asarray(a)
    if a.ndim != len(win):
        return a
    lo = [w[0] for w in win]
    hi = [w[1] for w in win]
    fill = np.iinfo(a.dtype).min if kind == "max" else 0
    big = np.full(tuple(n + l + h for n, l, h in zip(a.shape, lo, hi)), fill, dtype=a.dtype)
    big[tuple(slice(l, l + n) for l, n in zip(lo, a.shape))] = a
    offs = list(itertools.product(*[range(-l, h + 1) for l, h in zip(lo, hi)]))
    if kind == "corner":
        far_l, far_r, mid = tuple(-l for l in lo), tuple(hi), (0,) * a.ndim
        weights = {}
        weights[far_r] = weights.get(far_r, 0) + 3
        weights[far_l] = weights.get(far_l, 0) - 1
        weights[mid] = weights.get(mid, 0) + 5
    elif kind == "wsum":
        weights = {o: k + 1 for k, o in enumerate(offs)}
    else:
        weights = None
    out = np.full(a.shape, fill, dtype=a.dtype)
    for o in offs:
        view = big[tuple(slice(l + oo, l + oo + n) for l, oo, n in zip(lo, o, a.shape))]
        if weights is None:
            out = np.maximum(out, view)
        elif o in weights:
            out = out + weights[o] * view
    return out


def stencil_drop(a, win=(), axis=0):
    a = np.asarray(a)
    if a.ndim != len(win):
        return a.sum(axis=axis) if a.ndim > axis else a
    return stencil(a, "wsum", win).sum(axis=axis)


def stencil_new(a, win=(), axis=0):
    a = np.asarray(a)
    return np.expand_dims(stencil(a, "wsum", win), axis)


def stencil2(a, b, wa=(), wb=()):
    return stencil(a, "wsum", wa) * 1000 + stencil(b, "corner", wb)


def spell(depth, boundary, form):
    if form == "s":
        return depth[0], boundary[0]
    if form == "d":
        return dict(enumerate(depth)), dict(enumerate(boundary))
    return tuple(depth), tuple(boundary)


def expected_overlap(x, out_chunks, depth, boundary):
    """-> (expected ndarray | None, problem | None) from the chunks dask declared for the overlapped array"""
    p = pad_whole(x, depth, boundary)
    sel = []
    for ax in range(x.ndim):
        l, r = lr(depth[ax])
        b = boundary[ax]
        padded = b != "none" and (l or r)
        oc = out_chunks[ax]
        nb = len(oc)
        base = []
        for i, c in enumerate(oc):
            li = l if (i > 0 or padded) else 0
            ri = r if (i < nb - 1 or padded) else 0
            base.append(c - li - ri)
        if any(bb <= 0 for bb in base) or sum(base) != x.shape[ax]:
            return None, f"axis {ax}: overlapped chunks {oc} do not decompose into base chunks + depth {depth[ax]} (got base {base}, n={x.shape[ax]})"
        off = l if padded else 0
        idx = []
        start = 0
        for i, bb in enumerate(base):
            li = l if (i > 0 or padded) else 0
            ri = r if (i < nb - 1 or padded) else 0
            idx.extend(range(start - li + off, start + bb + ri + off))
            start += bb
        sel.append(np.array(idx, dtype=np.intp))
    return p[np.ix_(*sel)], None


# --------------------------------------------------------------------------- known classes (see C26.findings.json)
def known_class(case):
    """narrow input classes of recorded findings (C26.findings.json); appended to the finding key"""
    if case[0] == "mod" and case[5][0] == "new":
        _, shape, ch, depth, boundary, (_, k) = case
        nd = len(shape)
        if k == nd:
            return "new-axis-last"

        def trimsig(j):  # what trimming axis j depends on
            return (depth[j], boundary[j] == "none") if max(lr(depth[j])) else 0

        if any(trimsig(j) != trimsig(k) for j in range(k + 1, nd)):
            return "new-axis-before-unequal-axes"
    return None


# --------------------------------------------------------------------------- evaluation
def too_small(shape, chunks, depth, allow_rechunk):
    """documented refusal condition: depth larger than the axis, or (no rechunk) than the smallest chunk"""
    for n, c, d in zip(shape, chunks, depth):
        m = max(lr(d))
        if m > n:
            return True
        if not allow_rechunk and m > min(c):
            return True
    return False


def run_case(case, ctx):
    import dask.array as da
    from dask.array import overlap as ov

    kind = case[0]
    sub = known_class(case)
    suffix = f":{sub}" if sub else ""
    if kind == "rt":
        _, shape, ch, depth, boundary, ar = case
        x = arr.data(shape, ctx.seed)
        d = da.from_array(x, chunks=ch)
        dd, bb = dict(enumerate(depth)), dict(enumerate(boundary))
        nontrivial = any(len(c) >= 2 and max(lr(dp)) > 0 for c, dp in zip(ch, depth))
        refuse = too_small(shape, ch, depth, ar)
        try:
            o = ov.overlap(d, dd, bb, allow_rechunk=ar)
            got_o, prob_o = arr.compute_blocks(o)
            t = ov.trim_internal(o, dict(dd), dict(bb))
            got_t, prob_t = arr.compute_blocks(t)
        except Hang:
            raise
        except Exception as e:  # noqa: BLE001
            ctx.case(case, nontrivial=nontrivial, outcome=("exc", type(e).__name__))
            if isinstance(e, ValueError) and refuse:
                ctx.count("rejected")
                return
            ctx.violation(f"rt:dask-raises:{type(e).__name__}{suffix}", case, f"overlap/trim_internal raised {e!r}")
            return
        ctx.case(case, nontrivial=nontrivial, outcome=(o.chunks, got_o.shape if got_o is not None else None))
        if got_o is None or got_t is None:
            ctx.violation(f"rt:lazy-metadata{suffix}", case, prob_o or prob_t)
            return
        if refuse and not ar:
            ctx.violation(f"rt:no-refusal{suffix}", case, f"allow_rechunk=False accepted chunks {ch} smaller than depth {depth}")
            return
        if prob_o or prob_t:
            ctx.violation(f"rt:lazy-metadata{suffix}", case, prob_o or prob_t)
            return
        want_o, why = expected_overlap(x, o.chunks, depth, boundary)
        if why:
            ctx.violation(f"rt:overlap-chunks{suffix}", case, why)
            return
        why = arr.equal(got_o, want_o)
        if why:
            ctx.violation(f"rt:overlap-content{suffix}", case, why)
            return
        why = arr.equal(got_t, x)
        if why:
            ctx.violation(f"rt:trim-not-identity{suffix}", case, why)
        return

    if kind == "mo":
        _, shape, ch, depth, boundary, ar, fn, form = case
        x = arr.data(shape, ctx.seed)
        d = da.from_array(x, chunks=ch)
        nontrivial = any(len(c) >= 2 and max(lr(dp)) > 0 for c, dp in zip(ch, depth))
        win = tuple(lr(dp) for dp in depth)
        f = functools.partial(stencil, kind=fn, win=win)
        want = trim_whole(f(pad_whole(x, depth, boundary)), depth, boundary)
        refuse = too_small(shape, ch, depth, ar)
        sd, sb = spell(depth, boundary, form)
        try:
            r = da.map_overlap(f, d, depth=sd, boundary=sb, allow_rechunk=ar)
            got, prob = arr.compute_blocks(r)
        except Hang:
            raise
        except Exception as e:  # noqa: BLE001
            ctx.case(case, nontrivial=nontrivial, outcome=("exc", type(e).__name__))
            if isinstance(e, ValueError) and refuse:
                ctx.count("rejected")
                return
            ctx.violation(f"mo:dask-raises:{type(e).__name__}{suffix}", case, f"map_overlap raised {e!r}; reference gives {want!r}")
            return
        ctx.case(case, nontrivial=nontrivial, outcome=(want.shape, r.chunks))
        if refuse and not ar and any(max(lr(dp)) > 0 for dp in depth):
            ctx.violation(f"mo:no-refusal{suffix}", case, f"allow_rechunk=False accepted chunks {ch} smaller than depth {depth}")
            return
        if prob:
            ctx.violation(f"mo:lazy-metadata{suffix}", case, prob)
            return
        why = arr.equal(got, want)
        if why:
            ctx.violation(f"mo:wrong-value:{fn}{suffix}", case, why)
        return

    if kind == "mod":
        _, shape, ch, depth, boundary, variant = case
        x = arr.data(shape, ctx.seed)
        d = da.from_array(x, chunks=ch)
        nontrivial = any(len(c) >= 2 and max(lr(dp)) > 0 for c, dp in zip(ch, depth))
        win = tuple(lr(dp) for dp in depth)
        full = trim_whole(stencil(pad_whole(x, depth, boundary), "wsum", win), depth, boundary)
        if variant[0] == "drop":
            f = functools.partial(stencil_drop, win=win, axis=variant[1])
            want = full.sum(axis=variant[1])
            kw = {"drop_axis": variant[1]}
        else:
            f = functools.partial(stencil_new, win=win, axis=variant[1])
            want = np.expand_dims(full, variant[1])
            kw = {"new_axis": variant[1]}
        refuse = too_small(shape, ch, depth, True)
        try:
            r = da.map_overlap(f, d, depth=dict(enumerate(depth)), boundary=dict(enumerate(boundary)), dtype=x.dtype, **kw)
            got, prob = arr.compute_blocks(r)
        except Hang:
            raise
        except Exception as e:  # noqa: BLE001
            ctx.case(case, nontrivial=nontrivial, outcome=("exc", type(e).__name__))
            if isinstance(e, ValueError) and refuse:
                ctx.count("rejected")
                return
            ctx.violation(f"mod-{variant[0]}:dask-raises:{type(e).__name__}{suffix}", case, f"map_overlap raised {e!r}; reference gives {want!r}")
            return
        ctx.case(case, nontrivial=nontrivial, outcome=(want.shape, r.chunks))
        if prob:
            ctx.violation(f"mod-{variant[0]}:lazy-metadata{suffix}", case, prob)
            return
        why = arr.equal(got, want)
        if why:
            ctx.violation(f"mod-{variant[0]}:wrong-value{suffix}", case, why)
        return

    if kind == "mo2":
        _, sx, cx, sy, cy, dep, b = case
        x = arr.data(sx, ctx.seed)
        y = arr.data(sy, ctx.seed + 1, lo=50)
        dx, dy = da.from_array(x, chunks=cx), da.from_array(y, chunks=cy)
        nontrivial = any(len(c) >= 2 for c in cx) or any(len(c) >= 2 for c in cy)
        # a size-1 axis of y is broadcast against x block by block: it cannot be grown, so its depth is 0
        depx, depy = (dep,) * len(sx), tuple(dep if n > 1 else 0 for n in sy)
        bx, by = (b,) * len(sx), (b,) * len(sy)
        f = functools.partial(stencil2, wa=tuple(lr(q) for q in depx), wb=tuple(lr(q) for q in depy))
        refuse = any(dep > n for n in sx + sy)
        try:
            want = trim_whole(f(pad_whole(x, depx, bx), pad_whole(y, depy, by)), depx, bx)
        except ValueError:
            # size-1 axes of y no longer broadcast once padded: the whole-array reference itself is undefined
            ctx.count("inapplicable")
            return
        try:
            r = da.map_overlap(f, dx, dy, depth=[dict(enumerate(depx)), dict(enumerate(depy))], boundary=b)
            got, prob = arr.compute_blocks(r)
        except Hang:
            raise
        except Exception as e:  # noqa: BLE001
            ctx.case(case, nontrivial=nontrivial, outcome=("exc", type(e).__name__))
            if isinstance(e, ValueError) and refuse:
                ctx.count("rejected")
                return
            ctx.violation(f"mo2:dask-raises:{type(e).__name__}{suffix}", case, f"map_overlap raised {e!r}; reference gives {want!r}")
            return
        ctx.case(case, nontrivial=nontrivial, outcome=(want.shape, r.chunks))
        if prob:
            ctx.violation(f"mo2:lazy-metadata{suffix}", case, prob)
            return
        why = arr.equal(got, want)
        if why:
            ctx.violation(f"mo2:wrong-value{suffix}", case, why)
        return

    if kind == "swv":
        _, shape, ch, w, ax, auto = case
        x = arr.data(shape, ctx.seed)
        d = da.from_array(x, chunks=ch)
        wt = w if isinstance(w, tuple) else (w,)
        axes = tuple(range(len(shape))) if ax is None else (ax if isinstance(ax, tuple) else (ax,))
        nontrivial = any(len(ch[a]) >= 2 and ww > 1 for a, ww in zip(axes, wt)) if len(axes) == len(wt) else False
        try:
            want = np.lib.stride_tricks.sliding_window_view(x, w, axis=ax)
            np_exc = None
        except (ValueError, IndexError) as e:
            want, np_exc = None, e
        try:
            r = ov.sliding_window_view(d, w, axis=ax, automatic_rechunk=auto)
            got, prob = arr.compute_blocks(r)
            d_exc = None
        except Hang:
            raise
        except Exception as e:  # noqa: BLE001
            got, prob, d_exc = None, None, e
        ctx.case(case, nontrivial=nontrivial, outcome=(None if want is None else want.shape, type(np_exc).__name__))
        if np_exc is not None:
            if d_exc is None:
                ctx.violation(f"swv:numpy-raises-dask-returns{suffix}", case, f"NumPy raises {np_exc!r}; dask returned shape {None if got is None else got.shape}")
            else:
                ctx.count("both_raise")
            return
        if d_exc is not None:
            ctx.violation(f"swv:dask-raises:{type(d_exc).__name__}{suffix}", case, f"dask raised {d_exc!r}; NumPy gives shape {want.shape}")
            return
        if prob:
            ctx.violation(f"swv:lazy-metadata{suffix}", case, prob)
            return
        why = arr.equal(got, want)
        if why:
            ctx.violation(f"swv:wrong-value{suffix}", case, why)
        return
    raise ValueError(kind)


def run_shard(shard, ctx):
    for case in cases_of(shard, ctx.tier):
        if ctx.out_of_time():
            return
        ctx.guard(case, run_case, case, ctx)


def replay(case, ctx):
    run_case(case, ctx)
