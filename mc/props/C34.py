"""C34 -- array creation routines are chunk-invariant and equal NumPy (DESIGN 5/C34).
E4: exhaustive small scope -- every argument tuple of a small grid x every chunks argument, against the NumPy routine."""
from __future__ import annotations

import itertools
import warnings

import numpy as np

from mc import arr, enums
from mc.run import Hang

ID = "C34"
LEVEL = "exploration"
WATCHDOG_S = 30.0
ASSUMPTIONS = [
    "sync scheduler; reference = the NumPy routine of the same name with the same arguments (minus chunks)",
    "values exact for integer/bool results; for floating arange/linspace a tolerance of 8 ulps (arange: 4*length ulps, NumPy's own "
    "fill loop accumulates one rounding per element) of the result dtype scaled to the value range (dask documents that a non-integer "
    "step is evaluated per block); length, dtype, lazy shape/chunks, block shapes always exact",
    "excluded a priori: arange with an integer dtype and a fractional start/step (NumPy's own result is an artefact of its fill loop, "
    "its documentation warns about this call); empty()/empty_like() values (uninitialised by definition: shape/dtype/chunks only)",
    "a case on which NumPy raises is 'inapplicable'; NotImplementedError and the documented 'chunks must be an int or string' "
    "(eye) are refusals",
]

STARTS = (-2, 0, 1, 0.5, 0.1, -0.3, 2, 9007199254740992)
STOPS = (-2, 0, 1, 0.5, 5, 1.3, 2.1, 3, -1.5, 0.9, 9007199254740996)
STEPS = (1, -1, 2, -2, 0.5, -0.5, 0.1, 0.3, 0.7, -0.3, 0.2, 0.25, 1.5, -0.1, -0.7, 3)


def RULE(tier):
    q = tier == "quick"
    return (
        f"arange: start in {STARTS} or omitted x stop in {STOPS} x step in {STEPS} (thorough: 3+3+4 more values) with length <= {12 if q else 40} x "
        f"dtype {{None,i8,f4,f8}} x chunks {{1,2,3,5,'auto',-1}} + EVERY explicit chunking for length <= {5 if q else 6}; linspace: start/stop in "
        f"{{0,1,-1,0.5,5,0.1,-0.7}} x num 0..{8 if q else 10} x endpoint x retstep x dtype {{None,f4,i8}} x the same chunks; eye: N 0..{5 if q else 7} x M "
        f"{{None,0..{6 if q else 8}}} x every k touching the matrix +-1 x chunks {{1..6,'auto'}} x dtype; diag: every 1-d v (n<={5 if q else 6}, every chunking, dask "
        "and numpy input) x k in -3..3, 2-d v up to 4x4 x every chunking x every k; diagonal: 2-d up to 4x4 and 3-d x every offset x axis "
        "pairs (negative and swapped too) x every chunking; indices (10 dimension tuples x dtype), meshgrid (1-3 inputs of length <= 3, every "
        "chunking, sparse, indexing), fromfunction, tri (N<=4, M<=5, every k, 3 dtypes), ones/zeros/full/empty (11 shapes incl. 0-d and "
        "empty axes, dtype inference for full) and ones/zeros/full/empty_like (dask input in every chunking and numpy input; dtype, shape and "
        "chunks overrides) x every chunks argument (ints, per-axis tuples, every explicit chunking, 'auto', -1, dict). Oracle: NumPy's "
        "values (a few ulps for float arange/linspace), dtype and shape; chunks sum to the shape; every block has its declared shape; "
        "*_like inherits the chunks of a. non-trivial = result has >= 2 blocks."
    )


# ---------------------------------------------------------------------------------------------- chunk-spec alphabets
def chunkspecs1(n, T, explicit_upto=5):
    out = [1, 2, 3, 5, "auto", -1]
    if n <= (explicit_upto if not T else 6):
        out += [("x", c) for c in (enums.compositions(n) if n else [(0,)])]
    return out


def chunkspecs_nd(shape, T):
    """chunks arguments for an n-d creation routine: ints, per-axis int tuples, every explicit chunking, 'auto', -1"""
    nd = len(shape)
    out = [1, 2, 3, "auto", -1]
    if nd == 0:
        return ["auto", ("x", ())]
    if nd >= 2:
        out += [("t", t) for t in itertools.product((1, 2, -1), repeat=nd)]
    if int(np.prod(shape)) <= (12 if not T else 16):
        out += [("x", c) for c in enums.chunkings(shape)]
    return out


def spec(c):
    """literal -> chunks argument"""
    if isinstance(c, tuple) and c[0] == "x":
        return tuple(tuple(a) for a in c[1]) if (c[1] and isinstance(c[1][0], tuple)) else ((tuple(c[1]),) if c[1] != () else ())
    if isinstance(c, tuple) and c[0] == "t":
        return tuple(c[1])
    if isinstance(c, tuple) and c[0] == "d":
        return dict(c[1])
    return c


KINDS = [
    ("arange", 8),
    ("linspace", 4),
    ("eye", 3),
    ("diag", 3),
    ("diagonal", 4),
    ("indices", 2),
    ("meshgrid", 3),
    ("fromfunction", 1),
    ("tri", 4),
    ("wrap", 4),
    ("like", 3),
]


def shards(tier):
    mult = 1 if tier == "quick" else 3
    return [(k, p, n * mult) for k, n in KINDS for p in range(n * mult)]


def frac(v):
    return float(v) != int(v)


def gen(kind, tier):
    T = tier == "thorough"
    if kind == "arange":
        for start in (None,) + STARTS + ((-1.5, 0.3, 3) if T else ()):
            for stop in STOPS + ((7, 10, -3.2) if T else ()):
                for step in STEPS + ((0.05, 1 / 3, -0.25, 0.9) if T else ()):
                    if start is None and step != 1 and not T:
                        continue
                    s0 = 0 if start is None else start
                    num = int(max(np.ceil((stop - s0) / step), 0))
                    if num > (12 if not T else 40):
                        continue
                    for dt in (None, "i8", "f4", "f8"):
                        if dt == "i8" and (frac(s0) or frac(step)):
                            continue  # excluded a priori, see ASSUMPTIONS
                        for ch in chunkspecs1(num, T):
                            if isinstance(ch, int) and ch > max(num, 1) + 1:
                                continue
                            yield ("arange", start, stop, step, dt, ch)
    elif kind == "linspace":
        V = (0, 1, -1, 0.5, 5, 0.1, -0.7)
        for start in V:
            for stop in V:
                for num in range(0, 9 if not T else 11):
                    for endpoint in (True, False):
                        for retstep in (False, True):
                            for dt in (None, "f4", "i8"):
                                if retstep and dt is not None:
                                    continue
                                for ch in chunkspecs1(num, T):
                                    if isinstance(ch, int) and ch > max(num, 1) + 1:
                                        continue
                                    yield ("linspace", start, stop, num, endpoint, retstep, dt, ch)
    elif kind == "eye":
        for N in range(0, 6 if not T else 8):
            for M in (None,) + tuple(range(0, 7 if not T else 9)):
                m = N if M is None else M
                for k in range(-N - 1, m + 2):
                    for ch in (1, 2, 3, 4, 5, 6, "auto"):
                        for dt in ("f8", "i8", "?") if ch in (1, 2) else ("f8",):
                            yield ("eye", N, ch, M, k, dt)
    elif kind == "diag":
        for n in range(0, 6 if not T else 7):
            for ch in enums.compositions(n) if n else [(0,)]:
                for k in range(-3, 4):
                    yield ("diag1", n, ch, k, "da")
            for k in range(-3, 4):
                yield ("diag1", n, None, k, "np")
        for shp in [(1, 1), (2, 2), (2, 3), (3, 2), (3, 3), (1, 3), (3, 4), (4, 4)] + ([(5, 4), (4, 5)] if T else []):
            for ch in enums.chunkings(shp):
                for k in range(-shp[0] - 1, shp[1] + 2):
                    yield ("diag2", shp, ch, k, "da")
            for k in range(-shp[0] - 1, shp[1] + 2):
                yield ("diag2", shp, None, k, "np")
    elif kind == "diagonal":
        for shp in [(2, 2), (2, 3), (3, 2), (3, 3), (1, 3), (3, 4), (4, 4), (4, 3)] + ([(5, 4), (4, 5)] if T else []):
            for ch in enums.chunkings(shp):
                for off in range(-shp[0] - 1, shp[1] + 2):
                    for a1, a2 in ((0, 1), (1, 0), (-2, -1), (-1, 0)):
                        yield ("diagonal", shp, ch, off, a1, a2)
        for shp in [(2, 2, 2), (2, 3, 2), (3, 2, 3)] + ([(3, 3, 3)] if T else []):
            for ch in enums.chunkings(shp):
                for off in (-2, -1, 0, 1, 2):
                    for a1, a2 in ((0, 1), (0, 2), (1, 2), (2, 0), (-1, -3), (2, 1)):
                        yield ("diagonal", shp, ch, off, a1, a2)
    elif kind == "indices":
        for dims in [(0,), (1,), (3,), (4,), (2, 3), (3, 2), (2, 0), (1, 1), (2, 1, 2), ()]:
            for dt in ("i8", "f8", "u1"):
                for ch in chunkspecs_nd(dims, T):
                    yield ("indices", dims, dt, ch)
    elif kind == "meshgrid":
        L = (1, 2, 3)
        for k in (1, 2, 3):
            for lens in itertools.product(L, repeat=k):
                if k == 3 and sum(lens) > (6 if not T else 9):
                    continue
                for chs in itertools.product(*[list(enums.compositions(n)) for n in lens]):
                    for sparse in (False, True):
                        for indexing in ("xy", "ij"):
                            yield ("meshgrid", lens, chs, sparse, indexing)
    elif kind == "fromfunction":
        for shp in [(3,), (0,), (2, 3), (3, 2), (2, 2, 2), (2, 0)]:
            for dt in (None, "i8", "f4"):
                for fn in ("lin", "cmp"):
                    for ch in chunkspecs_nd(shp, T):
                        yield ("fromfunction", shp, dt, fn, ch)
    elif kind == "tri":
        for N in range(0, 5 if not T else 7):
            for M in (None,) + tuple(range(0, 6 if not T else 7)):
                m = N if M is None else M
                for k in range(-N - 1, m + 2):
                    for dt in ("f8", "i8", "?"):
                        for ch in (1, 2, 3, 4, "auto") + ((("t", (1, 2)), ("t", (2, 1))) if dt == "f8" else ()):
                            yield ("tri", N, M, k, dt, ch)
    elif kind == "wrap":
        shapes = [(), (0,), (3,), (4,), (2, 3), (3, 2), (0, 2), (2, 0), (2, 2, 2), 4, 0]
        for fn in ("ones", "zeros", "empty", "full"):
            for shp in shapes:
                tshape = shp if isinstance(shp, tuple) else (shp,)
                specs = chunkspecs_nd(tshape, T)
                if len(tshape) >= 1 and fn in ("ones", "zeros"):
                    specs = specs + [("d", ((0, 1),)), ("d", ((len(tshape) - 1, 2),))]
                for ch in specs:
                    if fn == "full":
                        for fv, dt in ((7, None), (2.5, None), (True, None), (7, "f4"), (2.5, "i8"), (("f4", 1.5), None), (0, "?")):
                            yield ("wrap", fn, shp, ch, dt, fv)
                    else:
                        for dt in (None, "i4", "f4", "?", "c16"):
                            yield ("wrap", fn, shp, ch, dt, None)
    elif kind == "like":
        for fn in ("ones_like", "zeros_like", "empty_like", "full_like"):
            for shp in [(3,), (2, 3), (0,), (2, 0)]:
                for adt in ("i8", "f4"):
                    for ach in [None] + list(enums.chunkings(shp)):  # None = numpy input
                        for dt in (None, "f8", "?"):
                            # (shape override, chunks override)
                            for sh2, ch2 in ((None, None), (None, 1), (None, "auto"), ((2, 2), None), ((2, 2), 1), (4, 3), ((0,), None)):
                                if sh2 is None and ch2 is not None and not isinstance(ch2, str) and 0 in shp:
                                    continue
                                yield ("like", fn, shp, adt, ach, dt, sh2, ch2)
    else:
        raise ValueError(kind)


def cases_of(shard, tier):
    kind, part, nparts = shard
    for i, case in enumerate(gen(kind, tier)):
        if i % nparts == part:
            yield case


# ---------------------------------------------------------------------------------------------- evaluation
def known_class(case, stage, exc=None, name=None, got=None, want=None):
    """narrow input classes of the recorded findings (C34.findings.json)"""
    k = case[0]
    if k == "eye":
        _, N, ch, M, kk, dt = case
        m = N if M is None else M
        if N == 0 and isinstance(exc, ZeroDivisionError):
            return "N==0"
        if N > 0 and m > N and (ch == "auto" or ch > N):
            return "chunk>N<M"  # eye() chunks BOTH axes by the first row-chunk size (= N when N < chunks)
    if k == "diag1" and case[1] == 0 and case[3] != 0 and isinstance(exc, ZeroDivisionError):
        return "empty-v-offset"
    if k == "linspace":
        _, start, stop, num, endpoint, retstep, dt, ch = case
        if name == "step" and ((num - 1) if endpoint else num) <= 0:
            return "num-too-small"  # NumPy reports step nan when there is no interval
        if name == "samples" and dt == "i8" and got is not None and got.shape == want.shape and np.abs(got - want).max() == 1:
            return "int-dtype-off-by-one"  # block start/stop accumulate rounding error, then floor()
    return None


def setup_case(case, ctx):
    import dask.array as da

    kind = case[0]
    o = {"op": kind, "rtol": 0.0, "atol": 0.0, "values": True, "scalars": None}
    if kind == "arange":
        _, start, stop, step, dt, ch = case
        args = (stop,) if start is None else (start, stop)
        kw = {} if dt is None else {"dtype": dt}
        o["f_np"] = lambda: [np.arange(*args, step=step, **kw)]
        o["f_da"] = lambda: [da.arange(*args, step=step, chunks=spec(ch), **kw)]
        # a non-integer step is evaluated block by block (documented): a few ulps of the RESULT dtype, scaled to the value range
        # (NumPy itself accumulates one rounding of (start+step)-start per element in the result dtype, so the bound scales with the length)
        eps = float(np.finfo("f4" if dt == "f4" else "f8").eps)
        s0 = 0 if start is None else start
        num = max(int(np.ceil((stop - s0) / step)), 2)
        o["rtol"], o["atol"] = 8 * eps, 4 * num * eps * max(abs(s0), abs(stop), 1.0)
    elif kind == "linspace":
        _, start, stop, num, endpoint, retstep, dt, ch = case
        kw = {} if dt is None else {"dtype": dt}

        def f(F, **extra):
            r = F.linspace(start, stop, num, endpoint=endpoint, retstep=retstep, **kw, **extra)
            return [r[0], np.asarray(r[1], dtype="f8")] if retstep else [r]

        o["f_np"] = lambda: f(np)
        o["f_da"] = lambda: f(da, chunks=spec(ch))
        if dt != "i8":
            eps = float(np.finfo("f4" if dt == "f4" else "f8").eps)
            o["rtol"], o["atol"] = 8 * eps, 8 * eps * max(abs(start), abs(stop), 1.0)
        o["names"] = ["samples", "step"]
    elif kind == "eye":
        _, N, ch, M, k, dt = case
        o["f_np"] = lambda: [np.eye(N, M=M, k=k, dtype=dt)]
        o["f_da"] = lambda: [da.eye(N, chunks=ch, M=M, k=k, dtype=dt)]
    elif kind in ("diag1", "diag2"):
        _, shp, ch, k, src = case
        shp = (shp,) if kind == "diag1" else shp
        x = arr.data(shp, ctx.seed)
        o["op"] = "diag"
        v = x if src == "np" else da.from_array(x, chunks=(ch,) if kind == "diag1" else ch)
        o["f_np"] = lambda: [np.diag(x, k)]
        o["f_da"] = lambda: [da.diag(v, k)]
    elif kind == "diagonal":
        _, shp, ch, off, a1, a2 = case
        x = arr.data(shp, ctx.seed)
        d = da.from_array(x, chunks=ch)
        o["f_np"] = lambda: [np.diagonal(x, off, a1, a2)]
        o["f_da"] = lambda: [da.diagonal(d, off, a1, a2)]
    elif kind == "indices":
        _, dims, dt, ch = case
        o["f_np"] = lambda: [np.indices(dims, dtype=dt)]
        o["f_da"] = lambda: [da.indices(dims, dtype=dt, chunks=spec(ch))]
    elif kind == "meshgrid":
        _, lens, chs, sparse, indexing = case
        xs = [arr.data((n,), ctx.seed + i) + 10 * i for i, n in enumerate(lens)]
        ds = [da.from_array(x, chunks=(c,)) for x, c in zip(xs, chs)]
        o["f_np"] = lambda: list(np.meshgrid(*xs, sparse=sparse, indexing=indexing))
        o["f_da"] = lambda: list(da.meshgrid(*ds, sparse=sparse, indexing=indexing))
    elif kind == "fromfunction":
        _, shp, dt, fn, ch = case
        if fn == "lin":
            func = lambda *ix: sum((10**i) * a for i, a in enumerate(ix)) if ix else 0  # noqa: E731
        else:
            func = lambda *ix: (ix[0] >= ix[-1]) * 1.0  # noqa: E731
        kw = {} if dt is None else {"dtype": dt}
        o["f_np"] = lambda: [np.asarray(np.fromfunction(func, shp, **kw))]
        o["f_da"] = lambda: [da.fromfunction(func, chunks=spec(ch), shape=shp, **kw)]
    elif kind == "tri":
        _, N, M, k, dt, ch = case
        o["f_np"] = lambda: [np.tri(N, M, k, dtype=dt)]
        o["f_da"] = lambda: [da.tri(N, M, k, dtype=dt, chunks=spec(ch))]
    elif kind == "wrap":
        _, fn, shp, ch, dt, fv = case
        kw = {} if dt is None else {"dtype": dt}
        if fn == "full":
            fvv = np.dtype(fv[0]).type(fv[1]) if isinstance(fv, tuple) else fv
            o["f_np"] = lambda: [np.full(shp, fvv, **kw)]
            o["f_da"] = lambda: [da.full(shp, fvv, chunks=spec(ch), **kw)]
        else:
            o["f_np"] = lambda: [getattr(np, fn)(shp, **kw)]
            o["f_da"] = lambda: [getattr(da, fn)(shp, chunks=spec(ch), **kw)]
        o["op"] = fn
        o["values"] = fn != "empty"
    elif kind == "like":
        _, fn, shp, adt, ach, dt, sh2, ch2 = case
        x = arr.data(shp, ctx.seed, dtype=adt)
        a = x if ach is None else da.from_array(x, chunks=ach)
        kw = {} if dt is None else {"dtype": dt}
        kwn = dict(kw)
        kwd = dict(kw)
        if sh2 is not None:
            kwn["shape"] = sh2
            kwd["shape"] = sh2
        if ch2 is not None:
            kwd["chunks"] = ch2
        extra = (5,) if fn == "full_like" else ()
        o["f_np"] = lambda: [getattr(np, fn)(x, *extra, **kwn)]
        o["f_da"] = lambda: [getattr(da, fn)(a, *extra, **kwd)]
        o["op"] = fn
        o["values"] = fn != "empty_like"
        if sh2 is None and ch2 is None and ach is not None:
            o["want_chunks"] = tuple(tuple(c) for c in ach)  # documented default: the chunks of `a`
    else:
        raise ValueError(kind)
    return o


def run_case(case, ctx):
    o = setup_case(case, ctx)
    op = o["op"]
    with warnings.catch_warnings():
        warnings.simplefilter("ignore")
        np_exc = d_exc = None
        try:
            with np.errstate(all="ignore"):
                want = [np.asarray(w) for w in o["f_np"]()]
        except Hang:
            raise
        except Exception as e:  # noqa: BLE001
            want, np_exc = None, e
        got, lazies = [], []
        try:
            with np.errstate(all="ignore"):
                for r in o["f_da"]():
                    if hasattr(r, "dask"):
                        lazies.append(r)
                        got.append(arr.compute_blocks(r))
                    else:
                        got.append((np.asarray(r), None))
        except Hang:
            raise
        except Exception as e:  # noqa: BLE001
            d_exc = e
    nblocks = max([int(np.prod(r.numblocks)) if r.ndim else 1 for r in lazies], default=0)
    ctx.case(
        case,
        nontrivial=nblocks >= 2,
        outcome=(op, None if want is None else tuple((w.shape, str(w.dtype)) for w in want), type(np_exc).__name__, type(d_exc).__name__),
    )
    if np_exc is not None:
        ctx.count("both_raise" if d_exc is not None else "inapplicable")
        return
    if d_exc is not None:
        if isinstance(d_exc, NotImplementedError) or (isinstance(d_exc, ValueError) and "chunks must be an int or string" in str(d_exc)):
            ctx.count("rejected")
            return
        sub = known_class(case, "raises", d_exc)
        ctx.violation(f"{op}:dask-raises:{type(d_exc).__name__}" + (f":{sub}" if sub else ""), case, f"dask raised {d_exc!r}; NumPy gives {want!r}")
        return
    if len(got) != len(want):
        ctx.violation(f"{op}:wrong-arity", case, f"{len(got)} outputs, NumPy gives {len(want)}")
        return
    names = o.get("names") or [str(i) for i in range(len(want))]
    for nm, (g, problem), w in zip(names, got, want):
        tag = f"{op}.{nm}" if o.get("names") else op
        if problem:
            sub = known_class(case, "meta")
            ctx.violation(f"{tag}:lazy-metadata" + (f":{sub}" if sub else ""), case, problem)
            return
        if o["values"]:
            why = arr.equal(g, w, rtol=o["rtol"], atol=o["atol"])
        else:
            why = None if (g.shape == w.shape and g.dtype == w.dtype) else f"shape/dtype {g.shape} {g.dtype} != {w.shape} {w.dtype}"
        if why:
            sub = known_class(case, "value", name=nm, got=g, want=w)
            cls = "wrong-dtype" if why.startswith("dtype") else ("wrong-shape" if why.startswith("shape") else "wrong-value")
            ctx.violation(f"{tag}:{cls}" + (f":{sub}" if sub else ""), case, why + f"   NumPy: {w!r}")
            return
    if "want_chunks" in o and lazies and tuple(lazies[0].chunks) != o["want_chunks"]:
        ctx.violation(f"{op}:chunks-not-inherited", case, f"chunks {lazies[0].chunks} != chunks of a {o['want_chunks']}")


def run_shard(shard, ctx):
    for case in cases_of(shard, ctx.tier):
        if ctx.out_of_time():
            return
        ctx.guard(case, run_case, case, ctx)


def replay(case, ctx):
    run_case(case, ctx)
