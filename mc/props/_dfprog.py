"""Shared by C36 / C42 / C43: a tiny literal expression language over dataframes that is interpreted
IDENTICALLY on pandas objects (reference) and on dask collections (code under test), plus the typed step alphabets
from which bounded-exhaustive programs are enumerated.

A *program* is a tuple of *steps*; every step is an expression whose free variable ("x",) is the result of the previous
step (the first x is the base frame).  Expressions are nested literal tuples:

    ("x",) ("root",) ("root2",)                      current object / base frame / separately built twin of the base frame
    ("lit", v)                                        literal (see lit(): ("l",..) list, ("d",..) dict, ("nan",), ("ts",s), ("td",s))
    ("col", e, name)  ("cols", e, (names..))          e[name] / e[[names]]
    ("item", e, k)                                    e[k]      (k an expression: boolean filter)
    ("loc", e, k)                                     e.loc[k]
    ("bin", op, a, b)  ("un", op, a)                  python operators
    ("call", e, method, args, kwargs)                 e.method(*args, **kwargs); args/kwargs values are literals or ("e", expr)
    ("acc", e, accessor, name, args|None, kwargs)     e.<accessor>.<name>  (property when args is None)
    ("accitem", e, accessor, key)                     e.str[key]
    ("udf", e, method, fn, meta, kwargs)              e.map/apply(FN[fn], **kwargs) -- dask additionally gets meta=
                                                      (meta: a dtype string -> (name, dtype) / "auto" -> the empty pandas result)
"""
from __future__ import annotations

import operator

from mc import dfh  # noqa: F401  (must be first: installs the pyarrow stand-in)

import numpy as np
import pandas as pd

X = ("x",)

BINOPS = {
    "+": operator.add, "-": operator.sub, "*": operator.mul, "/": operator.truediv, "//": operator.floordiv, "%": operator.mod,
    "**": operator.pow, "&": operator.and_, "|": operator.or_, "^": operator.xor, "<": operator.lt, "<=": operator.le,
    ">": operator.gt, ">=": operator.ge, "==": operator.eq, "!=": operator.ne,
}
UNOPS = {"-": operator.neg, "~": operator.invert, "abs": abs, "+": operator.pos}


def _rowsum(r):
    return r["a"] + r["g"]


def _rowstr(r):
    return f"{r['a']}-{r['g']}"


FN = {
    "inc": lambda v: v + 1,
    "ident": lambda v: v,
    "dbl": lambda v: v * 2,
    "tostr": lambda v: f"<{v}>",
    "strlen": lambda v: len(v),
    "isodd": lambda v: bool(v % 2),
    "rowsum": _rowsum,
    "rowstr": _rowstr,
    "upper": str.upper,
    "sfx": lambda c: f"{c}_r",
}


class UnsupportedAPI(Exception):
    """the dask accessor does not offer a member pandas has: an API gap, not a wrong result (counted, never silent)"""


def lit(v):
    if isinstance(v, tuple) and v:
        t = v[0]
        if t == "l":
            return [lit(i) for i in v[1]]
        if t == "d":
            return {lit(k): lit(w) for k, w in v[1]}
        if t == "nan":
            return np.nan
        if t == "ts":
            return pd.Timestamp(v[1])
        if t == "td":
            return pd.Timedelta(v[1])
        if t == "fn":
            return FN[v[1]]
        if t == "tup":
            return tuple(lit(i) for i in v[1])
    return v


def _arg(a, env):
    if isinstance(a, tuple) and a and a[0] == "e":
        return ev(a[1], env)
    if isinstance(a, tuple) and a and a[0] == "el":
        return [ev(x, env) for x in a[1]]
    return lit(a)


def ev(e, env):
    t = e[0]
    if t == "x":
        return env["x"]
    if t == "root":
        return env["root"]
    if t == "root2":
        return env["root2"]
    if t == "lit":
        return lit(e[1])
    if t == "col":
        return ev(e[1], env)[e[2]]
    if t == "cols":
        return ev(e[1], env)[list(e[2])]
    if t == "item":
        return ev(e[1], env)[ev(e[2], env)]
    if t == "loc":
        return ev(e[1], env).loc[ev(e[2], env)]
    if t == "bin":
        return BINOPS[e[1]](ev(e[2], env), ev(e[3], env))
    if t == "un":
        return UNOPS[e[1]](ev(e[2], env))
    if t == "call":
        base = ev(e[1], env)
        args = [_arg(a, env) for a in e[3]]
        kwargs = {k: _arg(v, env) for k, v in e[4]}
        return getattr(base, e[2])(*args, **kwargs)
    if t == "acc":
        accessor = getattr(ev(e[1], env), e[2])
        if env["dask"] and not hasattr(accessor, e[3]) and hasattr(getattr(ev(e[1], env["twin"]), e[2]), e[3]):
            raise UnsupportedAPI(f"dask .{e[2]} accessor has no member {e[3]!r}")
        a = getattr(accessor, e[3])
        if e[4] is None:
            return a
        return a(*[_arg(v, env) for v in e[4]], **{k: _arg(v, env) for k, v in e[5]})
    if t == "accitem":
        return getattr(ev(e[1], env), e[2])[_slice(e[3])]
    if t == "udf":
        base = ev(e[1], env)
        kwargs = {k: _arg(v, env) for k, v in e[5]}
        if env["dask"]:
            meta = e[4]
            if meta == "auto":
                want = ev(e, env["twin"])
                kwargs["meta"] = want.iloc[:0]
            elif meta is not None:
                kwargs["meta"] = (getattr(base, "name", None) if kwargs.get("axis") != 1 else None, meta)
        return getattr(base, e[2])(FN[e[3]], **kwargs)
    if t == "attr":
        return getattr(ev(e[1], env), e[2])
    if t == "lib":
        mod = dfh.dd if env["dask"] else pd
        return getattr(mod, e[1])(*[_arg(a, env) for a in e[2]], **{k: _arg(v, env) for k, v in e[3]})
    if t == "daskonly":  # repartition / shuffle / persist-like no-ops: the pandas reference is the identity
        base = ev(e[1], env)
        if not env["dask"]:
            return base
        return getattr(base, e[2])(*[_arg(a, env) for a in e[3]], **{k: _arg(v, env) for k, v in e[4]})
    if t == "head":  # head / tail, lazily on the dask side
        base = ev(e[1], env)
        if not env["dask"]:
            return getattr(base, e[2])(e[3])
        return base.head(e[3], npartitions=-1, compute=False) if e[2] == "head" else base.tail(e[3], compute=False)
    if t == "locs":
        return ev(e[1], env).loc[lit(e[2]) : lit(e[3])]
    if t == "iloc":
        return ev(e[1], env).iloc[:, e[2] : e[3]]
    raise ValueError(f"unknown expression head {t!r}")


def _slice(k):
    if isinstance(k, tuple) and k and k[0] == "s":
        return slice(k[1], k[2], k[3])
    return k


def run_pandas(program, root, root2=None):
    """-> list of intermediate pandas results [x0=root, x1, ...]; raises what pandas raises"""
    xs = [root]
    for step in program:
        env = {"x": xs[-1], "root": root, "root2": root2, "dask": False}
        xs.append(ev(step, env))
    return xs


def run_dask(program, droot, pxs, proot, droot2=None, proot2=None):
    """apply the program to the dask collection droot; pxs = pandas intermediates (for meta='auto')"""
    x = droot
    for i, step in enumerate(program):
        twin = {"x": pxs[i], "root": proot, "root2": proot2, "dask": False}
        env = {"x": x, "root": droot, "root2": droot2, "dask": True, "twin": twin}
        x = ev(step, env)
    return x


# ---------------------------------------------------------------------------- naming of steps (finding keys)
def sig(step):
    """short, value-free name of a step: which operation it exercises"""
    t = step[0]
    if t in ("col", "cols"):
        return "projection"
    if t in ("item", "loc"):
        return "filter" if t == "item" else "loc-filter"
    if t == "bin":
        side = "frame" if step[2] == X and step[3] == X else "x"
        other = step[3] if step[2] == X else step[2]
        if other[0] == "lit":
            side = "scalar"
        elif other[0] in ("col",):
            side = "series"
        elif other[0] == "root2":
            side = "other"
        return f"binop[{step[1]}]:{side}"
    if t == "un":
        return f"unop[{step[1]}]"
    if t == "call":
        m = step[2]
        if m == "astype":
            tgt = step[3][0] if step[3] else None
            if isinstance(tgt, tuple) and tgt and tgt[0] == "d":
                tgt = "+".join(sorted({str(w) for _, w in tgt[1]}))
            return f"astype[{tgt}]"
        return m
    if t == "acc":
        return f"{step[2]}.{step[3]}"
    if t == "accitem":
        return f"{step[2]}.getitem"
    if t == "udf":
        return f"{step[2]}-udf"
    if t in ("attr", "lib", "daskonly", "head"):
        return f"{step[2] if t != 'lib' else step[1]}"
    return t


ARITH = {"add", "sub", "mul", "div", "truediv", "floordiv", "mod", "pow", "radd", "rsub", "rmul", "rdiv", "rtruediv", "rfloordiv", "rmod", "rpow"}
COMPARE = {"lt", "le", "gt", "ge", "eq", "ne"}


def chain_sig(step):
    """name of a chained call such as x.groupby(..).a.agg(..) / x.rolling(..).sum(): 'groupby.col.agg'.
    All arithmetic operators / methods are named 'arith', all comparisons 'compare'."""
    if step[0] == "bin":
        return "compare" if step[1] in ("<", "<=", ">", ">=", "==", "!=") else ("logical" if step[1] in "&|^" else "arith")
    if step[0] == "call" and step[2] in ARITH:
        return "arith"
    if step[0] == "call" and step[2] in COMPARE:
        return "compare"
    names = []
    e = step
    while isinstance(e, tuple) and e and e[0] in ("call", "col", "cols", "attr", "acc", "udf", "daskonly", "head", "item", "un", "bin") and e != X:
        if e[0] == "call":
            m = e[2]
            if m in ("agg", "aggregate", "transform") and e[3]:
                a = e[3][0]
                m += "[" + (a if isinstance(a, str) else ("list" if a[0] == "l" else "dict")) + "]"
            elif m in ("agg", "aggregate"):
                m += "[named]"
            names.append(m)
            e = e[1]
        elif e[0] in ("col", "cols"):
            names.append("col" if e[0] == "col" else "cols")
            e = e[1]
        elif e[0] in ("attr", "daskonly", "head"):
            names.append(e[2])
            e = e[1]
        elif e[0] == "acc":
            names.append(f"{e[2]}.{e[3]}")
            e = e[1]
        elif e[0] == "udf":
            names.append(f"{e[2]}-udf")
            e = e[1]
        else:
            names.append(sig(e))
            break
    if len(names) <= 1:
        return sig(step)
    return ".".join(reversed(names))


# ---------------------------------------------------------------------------- column kinds
def kind_of(dtype):
    if isinstance(dtype, pd.CategoricalDtype):
        return "cat"
    if pd.api.types.is_bool_dtype(dtype):
        return "bool" if isinstance(dtype, np.dtype) else "nbool"
    if pd.api.types.is_datetime64_any_dtype(dtype):
        return "dt"
    if pd.api.types.is_timedelta64_dtype(dtype):
        return "td"
    if pd.api.types.is_integer_dtype(dtype):
        return "int" if isinstance(dtype, np.dtype) else "nullable"
    if pd.api.types.is_float_dtype(dtype):
        return "float" if isinstance(dtype, np.dtype) else "nullable"
    if isinstance(dtype, pd.StringDtype) or dtype == object:
        return "str"
    return "other"


NUMERIC = ("int", "float", "nullable")


def C(name, base=X):
    return ("col", base, name)


def L(v):
    return ("lit", v)


def call(base, method, *args, **kwargs):
    return ("call", base, method, tuple(args), tuple(sorted(kwargs.items())))


def acc(base, accessor, name, *args, **kwargs):
    return ("acc", base, accessor, name, tuple(args), tuple(sorted(kwargs.items())))


def prop(base, accessor, name):
    return ("acc", base, accessor, name, None, ())


def E(e):
    return ("e", e)


def B(op, a, b):
    return ("bin", op, a, b)


# ---------------------------------------------------------------------------- step alphabets
def frame_steps(p, level="full"):
    """all steps applicable to the pandas DataFrame p (columns/dtypes decide the alphabet).  level='core' = the small
    alphabet used as PREFIX of deeper programs."""
    cols = list(p.columns)
    kinds = {c: kind_of(p[c].dtype) for c in cols}
    num = [c for c in cols if kinds[c] in NUMERIC]
    out = []
    # ---- projection
    for c in cols:
        out.append(C(c))
    if len(cols) >= 2:
        out.append(("cols", X, (cols[0], cols[1])))
        out.append(("cols", X, (cols[-1], cols[0])))
        out.append(("cols", X, (cols[-1],)))
        out.append(("cols", X, tuple(reversed(cols))))
    if not num:
        return out if level == "core" else out + _frame_generic(p, cols, kinds)
    n0 = num[0]
    n1 = num[1] if len(num) > 1 else num[0]
    core = list(out)
    # ---- boolean filters
    filt = [
        ("item", X, B(">", C(n0), L(3))),
        ("item", X, B("==", C(n1), L(0))),
        ("item", X, B("&", B(">", C(n0), L(2)), B("<", C(n1), L(2)))),
        ("item", X, B("|", B(">", C(n0), L(5)), B("==", C(n1), L(1)))),
        ("item", X, B(">", C(n0), L(100))),
        ("item", X, B(">", C(n0), call(C(n0), "mean"))),
        ("item", X, call(C(n0), "isin", ("l", (1, 4, 6)))),
        ("item", X, ("un", "~", B(">", C(n0), L(3)))),
        ("loc", X, B("<=", C(n0), L(4))),
    ]
    for c in cols:
        k = kinds[c]
        if k == "float" or k == "nullable":
            filt.append(("item", X, call(C(c), "notnull")))
            filt.append(("item", X, call(C(c), "isna")))
        if k == "bool":
            filt.append(("item", X, C(c)))
            filt.append(("item", X, ("un", "~", C(c))))
        if k == "str":
            filt.append(("item", X, B("==", C(c), L("x"))))
            filt.append(("item", X, B(">", acc(C(c), "str", "len"), L(1))))
        if k == "dt":
            filt.append(("item", X, B(">", C(c), L(("ts", "2020-01-05")))))
        if k == "cat":
            filt.append(("item", X, B("==", C(c), L("x"))))
        if k == "nullable":
            filt.append(("item", X, B(">", C(c), L(2))))
    out += filt
    core += [filt[0], filt[4], filt[5]]
    # ---- assign
    asg = [
        call(X, "assign", z=E(B("+", C(n0), L(1)))),
        call(X, "assign", **{n0: E(B("*", C(n0), L(2)))}),
        call(X, "assign", z=E(B("+", C(n0), C(n1)))),
        call(X, "assign", z=7),
        call(X, "assign", y=E(B("-", C(n0), L(1))), z=E(B("*", C(n1), L(2)))),
        call(X, "assign", z=E(B(">", C(n0), L(3)))),
    ]
    if n0 != n1:
        asg.append(call(X, "assign", **{n1: E(C(n0)), n0: E(C(n1))}))
    for c in cols:
        if kinds[c] not in ("int",):
            asg.append(call(X, "assign", z=E(C(c))))
    out += asg
    core += [asg[0], asg[1]]
    # ---- arithmetic / comparison on the whole frame (pandas decides applicability)
    ar = [
        B("+", X, L(1)), B("*", X, L(2)), B("-", X, X), B("/", X, L(2)), B("//", X, L(2)), B("%", X, L(3)), B("**", X, L(2)),
        B("-", L(1), X), ("un", "-", X), call(X, "abs"), B("==", X, L(1)), B("!=", X, X), B(">", X, L(2)), B("<=", X, X),
        B("+", X, B("*", X, L(2))),
        call(X, "add", E(X), fill_value=0), call(X, "add", E(C(n0)), axis=0), call(X, "gt", E(C(n0)), axis=0),
        call(X, "rsub", 10), call(X, "mul", E(C(n1)), axis="index"),
    ]
    out += ar
    core += [ar[0]]
    # ---- astype
    out += [
        call(X, "astype", "float64"), call(X, "astype", ("d", ((n0, "float64"),))), call(X, "astype", ("d", ((n0, "int32"), (n1, "float32")))),
        call(X, "astype", ("d", ((n0, "str"),))), call(X, "astype", "object"), call(X, "astype", ("d", ((n0, "Int64"),))),
        call(X, "astype", ("d", ((n0, "bool"),))),
    ]
    for c in cols:
        if kinds[c] in ("str", "int"):
            out.append(call(X, "astype", ("d", ((c, "category"),))))
        if kinds[c] in ("dt", "cat", "bool", "nullable", "float"):
            out.append(call(X, "astype", ("d", ((c, "str"),))))
    # ---- fillna / where / mask / isin / clip
    out += [
        call(X, "fillna", 0), call(X, "fillna", ("d", ((n0, -1), (cols[-1], 5)))),
        call(X, "where", E(B(">", X, L(2)))), call(X, "where", E(B(">", C(n0), L(3)))), call(X, "where", E(B(">", C(n0), L(3))), 0),
        call(X, "where", E(B(">", X, L(2))), E(B("*", X, L(2)))), call(X, "mask", E(B("==", X, L(1))), -1),
        call(X, "mask", E(B(">", C(n0), L(3)))), call(X, "where", E(call(X, "notnull")), 0),
        call(X, "isin", ("l", (1, 2, "x", True))), call(X, "isin", ("l", ())),
        call(X, "clip", 2, 5), call(X, "clip", lower=3), call(X, "clip", upper=4),
        call(X, "isna"), call(X, "notnull"),
    ]
    for c in cols:
        if kinds[c] == "float":
            out.append(call(X, "fillna", ("d", ((c, -1.5),))))
        if kinds[c] == "str":
            out.append(call(X, "fillna", "zz"))
    # ---- map / apply.  (pandas hands a UDF float scalars when a nullable-integer ARRAY contains NA and int scalars when it does not,
    # so a UDF that reveals the scalar type ('tostr') sees different values for different partitionings: excluded for nullable columns)
    nullable = any(k == "nullable" for k in kinds.values())
    out += [
        ("udf", X, "apply", "rowsum", "auto", (("axis", 1),)) if ("a" in cols and "g" in cols) else call(X, "isna"),
        ("udf", X, "apply", "rowstr", "auto", (("axis", 1),)) if ("a" in cols and "g" in cols) else call(X, "notnull"),
        ("udf", X, "map", "tostr" if not nullable else "ident", "auto", ()),
        ("udf", X, "map", "ident", "auto", ()),
    ]
    # ---- rename
    ren = [
        call(X, "rename", columns=("d", ((n0, "A"),))),
        call(X, "rename", columns=("fn", "upper")),
        call(X, "rename", columns=("d", ((cols[-1], "zz"), ("nope", "q")))),
    ]
    if n0 != n1:
        ren.append(call(X, "rename", columns=("d", ((n0, n1), (n1, n0)))))
    out += ren
    core += [ren[0]]
    if level == "core":
        return _dedup(core)
    return _dedup(out)


def _frame_generic(p, cols, kinds):
    """frames without a numeric column (e.g. after projecting to a str/dt/cat column)"""
    c = cols[0]
    return [
        ("item", X, call(C(c), "notnull")), call(X, "assign", z=E(C(c))), call(X, "assign", z=1), B("==", X, X), B("!=", X, L(1)),
        call(X, "astype", "object"), call(X, "astype", "str"), call(X, "fillna", 0), call(X, "isin", ("l", ("x", True, 1))), call(X, "isna"),
        call(X, "where", E(call(X, "notnull"))), ("udf", X, "map", "ident", "auto", ()), call(X, "rename", columns=("d", ((c, "Q"),))),
        call(X, "rename", columns=("fn", "upper")),
    ]


def series_steps(p, level="full"):
    k = kind_of(p.dtype)
    v0 = {"int": 1, "float": 2.0, "nullable": 3, "bool": True, "str": "x", "cat": "x", "dt": ("ts", "2020-01-02 12:00"), "td": ("td", "36h")}.get(k, 1)
    common = [
        call(X, "rename", "r"), call(X, "to_frame"), call(X, "to_frame", "q"), ("item", X, call(X, "notnull")), call(X, "isna"), call(X, "notnull"),
        B("==", X, L(v0)), B("!=", X, X), call(X, "isin", ("l", (v0, 4, "yy"))), call(X, "where", E(B("==", X, L(v0)))),
        call(X, "mask", E(B("==", X, L(v0)))), ("item", X, B("!=", X, L(v0))), ("udf", X, "map", "ident", "auto", ()),
        ("udf", X, "apply", "tostr" if k != "nullable" else "ident", "auto", ()), call(X, "astype", "object"), call(X, "astype", "str"),
    ]
    core = [call(X, "rename", "r"), call(X, "to_frame"), ("item", X, B("!=", X, L(v0)))]
    out = []
    if k in NUMERIC:
        out = [
            B("+", X, L(1)), B("*", X, L(2)), B("-", X, X), B("/", X, L(2)), B("//", X, L(2)), B("%", X, L(3)), B("**", X, L(2)), B("-", L(10), X),
            ("un", "-", X), call(X, "abs"), B(">", X, L(3)), B("<=", X, X), B("+", X, B("*", X, L(2))), call(X, "add", E(X), fill_value=0),
            call(X, "rsub", 10), call(X, "clip", 2, 5), call(X, "clip", lower=3), call(X, "clip", upper=4), ("item", X, B(">", X, L(3))),
            ("item", X, B(">", X, call(X, "mean"))), ("item", X, B(">", X, L(100))),
            call(X, "where", E(B(">", X, L(3)))), call(X, "where", E(B(">", X, L(3))), 0), call(X, "mask", E(B(">", X, L(3))), E(("un", "-", X))),
            call(X, "astype", "float64"), call(X, "astype", "int32"), call(X, "astype", "Int64"), call(X, "astype", "bool"), call(X, "astype", "category"),
            call(X, "astype", "float32"), call(X, "fillna", 0), call(X, "fillna", -1.5),
            ("udf", X, "map", "inc", "auto", ()), ("udf", X, "apply", "dbl", "auto", ()), call(X, "map", ("d", ((1, 10), (4, 40), (2, 20)))),
            call(X, "between", 2, 5), call(X, "isin", ("l", ())), call(X, "isin", ("l", (1, 2, 3.0))),
        ]
        core += [B("+", X, L(1)), B(">", X, L(3))]
    elif k in ("bool", "nbool"):
        out = [
            ("un", "~", X), B("&", X, X), B("|", X, L(False)), B("^", X, L(True)), call(X, "astype", "int64"), call(X, "astype", "float64"),
            ("item", X, X), ("item", X, ("un", "~", X)), call(X, "where", E(X), False), call(X, "fillna", False), B("+", X, L(1)),
            ("udf", X, "map", "isodd", "auto", ()), call(X, "map", ("d", ((True, "t"), (False, "f")))), call(X, "astype", "category"),
        ]
        core += [("un", "~", X)]
    elif k == "str":
        out = [
            acc(X, "str", "upper"), acc(X, "str", "lower"), acc(X, "str", "len"), acc(X, "str", "contains", "y"), acc(X, "str", "startswith", "y"),
            acc(X, "str", "endswith", "z"), acc(X, "str", "slice", 0, 1), acc(X, "str", "slice", 1, None), acc(X, "str", "get", 0), acc(X, "str", "get", 1),
            ("accitem", X, "str", 0), ("accitem", X, "str", ("s", None, None, -1)), acc(X, "str", "replace", "y", "q"), acc(X, "str", "zfill", 3),
            acc(X, "str", "pad", 4), acc(X, "str", "ljust", 3, "_"), acc(X, "str", "center", 4, "*"), acc(X, "str", "strip", "x"), acc(X, "str", "count", "y"),
            acc(X, "str", "find", "z"), acc(X, "str", "title"), acc(X, "str", "capitalize"), acc(X, "str", "swapcase"), acc(X, "str", "repeat", 2),
            acc(X, "str", "isalpha"), acc(X, "str", "isupper"), acc(X, "str", "islower"), acc(X, "str", "isdigit"), acc(X, "str", "cat", E(X), sep="-"),
            acc(X, "str", "split", "y"), acc(X, "str", "split", "y", n=1, expand=True), acc(X, "str", "rsplit", "y", n=1, expand=True),
            acc(X, "str", "match", "[xy]+"), acc(X, "str", "fullmatch", "y+"), acc(X, "str", "extract", "(y+)", expand=False),
            acc(X, "str", "removeprefix", "y"), acc(X, "str", "join", "."), acc(X, "str", "wrap", 1), acc(X, "str", "encode", "utf8"),
            acc(X, "str", "get_dummies") if False else acc(X, "str", "rstrip", "z"),
            B("+", X, L("!")), B("+", X, X), B("*", X, L(2)), B("<", X, L("y")), call(X, "fillna", "zz"),
            ("udf", X, "map", "strlen", "auto", ()), ("udf", X, "apply", "upper", "auto", ()), call(X, "astype", "category"),
            call(X, "map", ("d", (("x", 1), ("yy", 2)))), call(X, "where", E(B(">", acc(X, "str", "len"), L(1))), "-"),
        ]
        core += [acc(X, "str", "upper"), acc(X, "str", "len")]
    elif k == "dt":
        names = ["year", "month", "day", "hour", "minute", "second", "dayofweek", "weekday", "dayofyear", "quarter", "date", "time", "is_month_start",
                 "is_month_end", "is_leap_year", "days_in_month", "is_year_start", "is_quarter_end", "microsecond", "nanosecond"]
        out = [prop(X, "dt", n) for n in names] + [
            acc(X, "dt", "floor", "D"), acc(X, "dt", "ceil", "D"), acc(X, "dt", "round", "12h"), acc(X, "dt", "strftime", "%Y-%m-%d %H"), acc(X, "dt", "normalize"),
            acc(X, "dt", "day_name"), acc(X, "dt", "month_name"), acc(X, "dt", "tz_localize", "UTC"), acc(X, "dt", "isocalendar"), acc(X, "dt", "to_period", "M"),
            acc(X, "dt", "as_unit", "ns"),
            B("+", X, L(("td", "1D"))), B("-", X, X), B("-", X, L(("ts", "2020-01-01"))), B(">", X, L(("ts", "2020-01-05"))), B("<=", X, X),
            ("item", X, B(">", X, L(("ts", "2020-01-05")))), call(X, "astype", "int64"), call(X, "astype", "datetime64[ns]"),
            call(X, "where", E(B(">", X, L(("ts", "2020-01-05"))))), call(X, "fillna", ("ts", "2000-01-01")), call(X, "clip", ("ts", "2020-01-03"), ("ts", "2020-01-08")),
            ("udf", X, "map", "ident", "auto", ()), call(X, "between", ("ts", "2020-01-03"), ("ts", "2020-01-08")),
        ]
        core += [prop(X, "dt", "day"), B("-", X, L(("ts", "2020-01-01")))]
    elif k == "td":
        out = [prop(X, "dt", "days"), prop(X, "dt", "seconds"), acc(X, "dt", "total_seconds"), prop(X, "dt", "components"), acc(X, "dt", "floor", "D"),
               B("*", X, L(2)), B("/", X, L(("td", "1h"))), B("+", X, X), B(">", X, L(("td", "36h"))), ("un", "-", X), call(X, "abs"),
               ("item", X, B(">", X, L(("td", "36h")))), call(X, "astype", "int64")]
        core += [acc(X, "dt", "total_seconds")]
    elif k == "cat":
        out = [
            prop(X, "cat", "codes"), prop(X, "cat", "categories"), prop(X, "cat", "ordered"), acc(X, "cat", "as_ordered"), acc(X, "cat", "as_unordered"),
            acc(X, "cat", "add_categories", ("l", ("new",))), acc(X, "cat", "remove_categories", ("l", ("x",))), acc(X, "cat", "remove_categories", ("l", ("unused",))),
            acc(X, "cat", "remove_unused_categories"), acc(X, "cat", "rename_categories", ("d", (("x", "X"),))),
            acc(X, "cat", "rename_categories", ("l", ("a", "b", "c", "d", "e"))), acc(X, "cat", "reorder_categories", ("l", ("unused", "Zz", "yy", "x", "w"))),
            acc(X, "cat", "reorder_categories", ("l", ("unused", "Zz", "yy", "x", "w")), ordered=True), acc(X, "cat", "set_categories", ("l", ("x", "yy", "k"))),
            acc(X, "cat", "set_categories", ("l", ("yy", "x")), ordered=True), call(X, "fillna", "w"), call(X, "astype", "category"),
            call(X, "map", ("d", (("x", 1), ("yy", 2)))), ("udf", X, "map", "upper", "auto", ()), B("<", acc(X, "cat", "as_ordered"), L("yy")),
            ("item", X, B("==", X, L("yy"))), call(X, "isin", ("l", ("x", "w"))),
        ]
        core += [prop(X, "cat", "codes"), acc(X, "cat", "remove_unused_categories")]
    if level == "core":
        return _dedup(core)
    return _dedup(out + common)


def steps_for(p, level="full"):
    if isinstance(p, pd.DataFrame):
        return frame_steps(p, level)
    if isinstance(p, pd.Series):
        return series_steps(p, level)
    return []  # Index / scalars / plain objects: terminal


def in_alphabet(prog, pxs, steps):
    """is every step of prog a member of the alphabet `steps` offers for the pandas object it is applied to?"""
    return all(step in steps(pxs[i], "full") for i, step in enumerate(prog))


def _dedup(seq):
    seen, out = set(), []
    for s in seq:
        r = repr(s)
        if r not in seen:
            seen.add(r)
            out.append(s)
    return out


def enumerate_programs(root, levels, first_filter=None, counters=None, steps=None):
    """all programs whose i-th step is drawn from steps_for(<pandas result of the prefix>, levels[i]).  A step on which
    pandas raises is dropped (the reference rejects the input: inapplicable).  Yields (program, pandas intermediates).
    first_filter(i) selects the indices of the first step (sharding)."""
    counters = counters if counters is not None else {}
    counters.setdefault("inapplicable", 0)

    def rec(prefix, xs, depth):
        if depth == len(levels):
            return
        for i, step in enumerate((steps or steps_for)(xs[-1], levels[depth])):
            if depth == 0 and first_filter is not None and not first_filter(i):
                continue
            env = {"x": xs[-1], "root": root, "root2": None, "dask": False}
            try:
                with np.errstate(all="ignore"):
                    nx = ev(step, env)
            except Exception:  # noqa: BLE001  pandas rejects the step
                counters["inapplicable"] += 1
                continue
            if isinstance(nx, pd.DataFrame) and not nx.columns.is_unique:
                counters["out_of_scope_duplicate_columns"] = counters.get("out_of_scope_duplicate_columns", 0) + 1
                continue  # duplicate column labels are outside dask's data model (dask.dataframe refuses / mishandles them by design)
            prog = prefix + (step,)
            yield prog, xs + [nx]
            yield from rec(prog, xs + [nx], depth + 1)

    yield from rec((), [root], 0)


# ---------------------------------------------------------------------------- comparison
def _unrange(obj):
    """RangeIndex vs Index[int64] is a representation detail (same dtype, same labels)"""
    if isinstance(obj, (pd.DataFrame, pd.Series)) and isinstance(obj.index, pd.RangeIndex):
        obj = obj.copy(deep=False)
        obj.index = pd.Index(obj.index.to_numpy(), name=obj.index.name)
    elif isinstance(obj, pd.RangeIndex):
        obj = pd.Index(obj.to_numpy(), name=obj.name)
    return obj


def same(got, want, ordered=True):
    """None if got is the same object as the pandas reference (values, dtypes, index, names, order)"""
    if isinstance(want, (pd.DataFrame, pd.Series, pd.Index)):
        return dfh.equal(_unrange(got), _unrange(want), ordered=ordered)
    if isinstance(got, (pd.DataFrame, pd.Series, pd.Index)):
        return f"type {type(got).__name__} != {type(want).__name__}"
    try:
        if isinstance(want, (bool, np.bool_)) or isinstance(got, (bool, np.bool_)):
            return None if bool(got) == bool(want) and isinstance(got, (bool, np.bool_)) == isinstance(want, (bool, np.bool_)) else f"scalar {got!r} != {want!r}"
        return dfh.equal(got, want)
    except Exception as e:  # noqa: BLE001
        return f"comparison raised {e!r}"[:300]


def _decat(obj):
    if isinstance(obj, pd.Series):
        return obj.astype(object) if isinstance(obj.dtype, pd.CategoricalDtype) else obj
    cats = [c for c, t in zip(obj.columns, obj.dtypes) if isinstance(t, pd.CategoricalDtype)]
    if not cats or not obj.columns.is_unique:
        return obj
    return obj.astype({c: object for c in cats})


def diff_class(got, want, ordered=True):
    """coarse, value-free description of HOW got differs from want (part of the finding key)"""
    try:
        if type(got) is not type(want):
            return "type"
        if isinstance(want, pd.DataFrame):
            if list(got.columns) != list(want.columns):
                return "columns-order" if sorted(map(str, got.columns)) == sorted(map(str, want.columns)) else "columns"
        if isinstance(want, (pd.DataFrame, pd.Series, pd.Index)):
            if len(got) != len(want):
                return "length"
        if isinstance(want, (pd.DataFrame, pd.Series)):
            g0, w0 = _unrange(got), _unrange(want)
            g, w = _decat(g0), _decat(w0)
            if dfh.equal(g, w, ordered=ordered, check_dtype=False) is None:
                g, w = g0, w0
                # only dtypes differ; categories in another order?
                gd = list(g.dtypes) if isinstance(g, pd.DataFrame) else [g.dtype]
                wd = list(w.dtypes) if isinstance(w, pd.DataFrame) else [w.dtype]
                cat = [isinstance(a, pd.CategoricalDtype) and isinstance(b, pd.CategoricalDtype) and list(a.categories) != list(b.categories) and set(a.categories) == set(b.categories) and a.ordered == b.ordered for a, b in zip(gd, wd)]
                other = [a != b for a, b, c in zip(gd, wd, cat) if not c]
                if any(cat) and not any(other):
                    return "categories-order"
                if g.index.dtype != w.index.dtype:
                    return "index-dtype"
                return "dtype"
            if dfh.equal(g, w, ordered=False, check_dtype=False) is None:
                return "row-order"
            if dfh.equal(g.reset_index(drop=True), w.reset_index(drop=True), ordered=True, check_dtype=False) is None:
                return "index"
            return "values"
        return "values"
    except Exception:  # noqa: BLE001
        return "values"


def summary(p):
    if isinstance(p, pd.DataFrame):
        return ("F", p.shape, tuple(str(t) for t in p.dtypes))
    if isinstance(p, pd.Series):
        return ("S", len(p), str(p.dtype))
    if isinstance(p, pd.Index):
        return ("I", len(p), str(p.dtype))
    return ("O", type(p).__name__)


# ---------------------------------------------------------------------------- extended alphabets (C42 / C43): reductions,
# groupby, joins/concat, sort/shuffle/dedup, windows -- the operation families of C37-C40 and C46
def attr(base, name):
    return ("attr", base, name)


def daskonly(base, method, *args, **kwargs):
    return ("daskonly", base, method, tuple(args), tuple(sorted(kwargs.items())))


def lib(fname, *args, **kwargs):
    return ("lib", fname, tuple(args), tuple(sorted(kwargs.items())))


def D(*pairs):
    return ("d", tuple(pairs))


def LS(*items):
    return ("l", tuple(items))


def frame_ext_steps(p, level="full"):
    cols = list(p.columns)
    if not p.columns.is_unique or not all(isinstance(c, str) for c in cols):
        return []
    kinds = {c: kind_of(p[c].dtype) for c in cols}
    num = [c for c in cols if kinds[c] in NUMERIC]
    other = [c for c in cols if kinds[c] not in NUMERIC]
    out, core = [], []
    # ---- reductions (C37)
    for m in ("sum", "mean", "min", "max", "count", "std", "var", "prod", "any", "all", "nunique", "median", "sem", "idxmax", "idxmin"):
        out.append(call(X, m))
    for m in ("sum", "mean", "std", "var", "min", "max", "median", "idxmax", "skew", "kurtosis"):
        out.append(call(X, m, numeric_only=True))
    for m in ("sum", "mean", "max", "count", "any", "all"):
        out.append(call(X, m, axis=1))
    out += [call(X, "sum", axis=1, numeric_only=True), call(X, "describe"), call(X, "quantile", 0.5, numeric_only=True),
            call(X, "quantile", LS(0.25, 0.75), numeric_only=True), call(X, "mode"), call(X, "cov", numeric_only=True), call(X, "corr", numeric_only=True),
            call(X, "memory_usage"), attr(X, "size"), attr(X, "index"), call(X, "sum", skipna=False), call(X, "count", axis=1)]
    core += [call(X, "sum", numeric_only=True), attr(X, "index")]
    if num:
        n0 = num[0]
        n1 = num[1] if len(num) > 1 else num[0]
        out += [call(X, "nlargest", 2, n0), call(X, "nsmallest", 2, n0)]
        # ---- sort / shuffle / dedup (C40)
        srt = [call(X, "sort_values", n0), call(X, "sort_values", LS(n1, n0), ascending=False), call(X, "set_index", n0), call(X, "set_index", n1),
               call(X, "set_index", n0, drop=False), call(X, "reset_index"), call(X, "reset_index", drop=True), call(X, "drop_duplicates"),
               call(X, "drop_duplicates", subset=LS(n1)), call(X, "drop_duplicates", subset=LS(n1), keep="last"),
               daskonly(X, "shuffle", n1), daskonly(X, "repartition", npartitions=2), daskonly(X, "repartition", npartitions=5)]
        for c in other:
            srt += [call(X, "sort_values", c), call(X, "set_index", c), call(X, "set_index", c, drop=False)]
        # every drop / append combination of set_index on both numeric columns (presorted or not is a property of the base frame)
        srt += [call(X, "set_index", n1, drop=False), call(X, "set_index", n0, append=True), call(X, "set_index", n0, drop=False, append=True),
                call(X, "set_index", n1, append=True)]
        out += srt
        core += [call(X, "set_index", n0), call(X, "reset_index"), call(X, "sort_values", n0), daskonly(X, "repartition", npartitions=2)]
        # ---- groupby (C38)
        if n1 != n0:
            G = call(X, "groupby", n1)
            gb = [call(G, m) for m in ("sum", "mean", "count", "size", "min", "max", "first", "last", "nunique", "var", "std", "median", "prod", "idxmax", "idxmin",
                                       "cumsum", "cumcount", "cumprod", "shift", "ffill", "bfill")]
            gb += [call(G, "sum", numeric_only=True), call(G, "mean", numeric_only=True), call(G, "agg", "sum"), call(G, "agg", LS("sum", "max")), call(G, "agg", D((n0, "sum"))),
                   call(G, "agg", D((n0, LS("min", "max")))), call(G, "agg", total=("tup", (n0, "sum")), hi=("tup", (n0, "max"))),
                   call(G, "transform", "sum"), call(G, "cov"), call(G, "corr")]
            GS = ("col", G, n0)
            gb += [call(GS, m) for m in ("sum", "mean", "count", "size", "nunique", "value_counts", "min", "max", "var", "std", "first", "last", "cumsum", "idxmax", "unique", "median")]
            gb += [call(GS, "agg", LS("min", "max")), call(GS, "agg", "sum"), call(GS, "transform", "sum"), call(GS, "shift"), call(("cols", G, (n0,)), "sum")]
            gb += [call(call(X, "groupby", LS(n1, n0)), "size"), call(call(X, "groupby", LS(n1, n0)), "sum", numeric_only=True), call(call(X, "groupby", n1, sort=False), "count"),
                   call(call(X, "groupby", E(B("%", C(n1), L(2)))), "count"), call(call(X, "groupby", level=0), "count"), call(call(X, "groupby", n1, dropna=False), "count"),
                   call(call(X, "groupby", n1, group_keys=False), "count")]
            for c in other:
                gb += [call(("col", G, c), "count"), call(("col", G, c), "first"), call(("col", G, c), "nunique"), call(("col", call(X, "groupby", c), n0), "sum"),
                       call(call(X, "groupby", c), "count"), call(("col", call(X, "groupby", c, observed=False), n0), "sum"), call(call(X, "groupby", c, observed=True), "size")]
            out += gb
            core += [gb[0], call(GS, "count"), call(G, "agg", LS("sum", "max"))]
            # ---- joins / concat (C39)
            OTHER = call(("cols", X, (n1, n0)), "rename", columns=D((n0, "w")))
            OW = ("cols", OTHER, ("w",))
            jn = [call(X, "merge", E(OTHER), on=n1, how=h) for h in ("inner", "left", "right", "outer")]
            jn += [call(X, "merge", E(OTHER), left_index=True, right_index=True), call(X, "merge", E(OTHER), left_on=n0, right_on="w"),
                   call(X, "merge", E(OTHER), left_on=n0, right_index=True), call(X, "merge", E(X), on=LS(n1, n0), suffixes=("tup", ("_l", "_r"))),
                   call(X, "merge", E(OTHER), on=n1, how="inner", indicator=True), call(X, "merge", E(X), how="cross") if False else call(X, "join", E(OW)),
                   call(X, "join", E(OW), how="outer"), call(X, "join", E(OW), how="inner"),
                   lib("concat", ("el", (X, X))), lib("concat", ("el", (X, OW)), axis=1), lib("concat", ("el", (X, ("cols", X, (n0,)))), join="inner"),
                   lib("concat", ("el", (X, OTHER))), lib("concat", ("el", (C(n0), C(n1))), axis=1), lib("concat", ("el", (C(n0), C(n1)))),
                   lib("merge_asof", E(call(X, "sort_values", n0)), E(call(OTHER, "sort_values", "w")), left_on=n0, right_on="w"),
                   lib("merge", E(X), E(OTHER), on=n1)]
            # concat operands that share columns of the same dtype KIND but another width (int64/int32/int8, float64/float32, Int64/Int32)
            def narrower(c, small=False):
                t = p[c].dtype
                if kinds[c] == "int":
                    return ("int8" if small else "int32") if t.itemsize > 4 or small and t.itemsize > 1 else "int64"
                if kinds[c] == "float":
                    return "float32" if t.itemsize > 4 else "float64"
                return "Int32" if str(t) != "Int32" else "Int64"

            nar_all = D(*[(c, narrower(c)) for c in num])
            jn += [lib("concat", ("el", (X, call(X, "astype", D((n0, narrower(n0))))))), lib("concat", ("el", (call(X, "astype", D((n0, narrower(n0)))), X))),
                   lib("concat", ("el", (X, call(X, "astype", nar_all)))), lib("concat", ("el", (call(X, "astype", nar_all), X))),
                   lib("concat", ("el", (X, call(X, "astype", D((n1, narrower(n1, True))))))),
                   lib("concat", ("el", (X, call(("cols", X, (n1, n0)), "astype", nar_all))), join="inner")]
            # (Series operands are not repeated with narrow dtypes: axis-0 concat of Series never casts its inputs, which is already
            # recorded as concat:partition-meta-dtype:* / concat:partition-meta-name:* findings)
            out += jn
            core += [jn[0], lib("concat", ("el", (X, X)))]
    # ---- windows (C46)
    R = call(X, "rolling", 2)
    win = [call(R, m) for m in ("sum", "mean", "max", "min", "count", "std", "var", "median")]
    win += [call(call(X, "rolling", 3, min_periods=1), "sum"), call(call(X, "rolling", 3, center=True), "mean"), call(call(X, "rolling", 1), "sum"),
            call(X, "cumsum"), call(X, "cumprod"), call(X, "cummax"), call(X, "cummin"), call(X, "shift", 1), call(X, "shift", -1), call(X, "shift", 2), call(X, "diff"),
            call(X, "diff", 2), call(X, "ffill"), call(X, "bfill"), call(X, "ffill", limit=1), call(X, "pct_change"), call(call(X, "expanding"), "sum"),
            call(call(X, "rolling", "2D"), "sum"), call(call(X, "rolling", "36h"), "count"), call(X, "shift", 1, freq="1D")]
    out += win
    core += [call(X, "cumsum"), call(X, "shift", 1)]
    # ---- misc row-preserving / selecting operations
    out += [call(X, "dropna"), call(X, "dropna", how="all"), call(X, "drop", columns=LS(cols[-1])), call(X, "select_dtypes", include="number"), call(X, "select_dtypes", exclude="number"),
            call(X, "add_prefix", "p_"), call(X, "add_suffix", "_s"), call(X, "rename_axis", "ii"), call(X, "round", 1), call(X, "replace", 1, 100), call(X, "combine_first", E(X)),
            call(X, "query", "a > 2"), call(X, "eval", "a + g"), call(X, "eval", "z = a + g"), ("locs", X, 1, 4), ("locs", X, ("ts", "2021-03-01 12:00"), ("ts", "2021-03-02 12:00")),
            ("iloc", X, 0, 2), ("iloc", X, 1, None), ("head", X, "head", 2), ("head", X, "tail", 2), call(X, "melt"), call(X, "melt", id_vars=LS(cols[0])),
            call(X, "sample", frac=0.5, random_state=1), call(X, "squeeze"), call(X, "copy"), call(X, "nunique", axis=1) if False else call(X, "isna"),
            call(X, "explode", cols[-1]), call(X, "to_timestamp") if False else call(X, "abs"), call(X, "pipe", ("fn", "ident")), call(X, "align", E(X)) if False else call(X, "notnull")]
    for c in other:
        if kinds[c] == "cat" and num:
            out += [call(X, "pivot_table", index=num[-1], columns=c, values=num[0], aggfunc="sum"), call(X, "pivot_table", index=num[-1], columns=c, values=num[0], aggfunc="mean")]
        out += [call(X, "dropna", subset=LS(c))]
    if level == "core":
        return _dedup(core)
    return _dedup(out)


def series_ext_steps(p, level="full"):
    k = kind_of(p.dtype)
    out = [call(X, m) for m in ("sum", "mean", "min", "max", "count", "std", "var", "prod", "any", "all", "nunique", "median", "idxmax", "idxmin", "sem", "skew", "kurtosis", "mode")]
    out += [call(X, "quantile", 0.5), call(X, "quantile", LS(0.25, 0.75)), call(X, "value_counts"), call(X, "value_counts", normalize=True), call(X, "value_counts", sort=False),
            call(X, "value_counts", dropna=False), call(X, "unique"), call(X, "nlargest", 2), call(X, "nsmallest", 2), call(X, "drop_duplicates"), call(X, "dropna"), call(X, "describe"),
            attr(X, "is_monotonic_increasing"), attr(X, "size"), attr(X, "index"), call(X, "autocorr"), call(X, "cov", E(X)), call(X, "corr", E(X)), call(X, "memory_usage"),
            call(X, "sum", skipna=False), call(X, "count")]
    R = call(X, "rolling", 2)
    out += [call(R, m) for m in ("sum", "mean", "max", "count", "std")]
    out += [call(call(X, "rolling", 3, min_periods=1), "sum"), call(X, "cumsum"), call(X, "cumprod"), call(X, "cummax"), call(X, "cummin"), call(X, "shift", 1), call(X, "shift", -1),
            call(X, "diff"), call(X, "ffill"), call(X, "bfill"), call(X, "pct_change"),
            call(X, "reset_index"), call(X, "reset_index", drop=True), call(X, "rename_axis", "ii"), call(X, "sort_values"), ("head", X, "head", 2), ("head", X, "tail", 2),
            call(X, "round", 1), call(X, "replace", 1, 100), call(X, "combine_first", E(X)), call(call(X, "groupby", E(X)), "count"), call(call(X, "groupby", E(X)), "size"),
            ("locs", X, 1, 4), daskonly(X, "repartition", npartitions=2), daskonly(X, "shuffle", E(X)) if False else call(X, "copy"), call(X, "explode"), call(X, "squeeze"),
            call(X, "to_frame"), call(X, "sample", frac=0.5, random_state=1), call(X, "add_prefix", "p_"), call(X, "isna"), lib("to_numeric", E(X)), lib("to_datetime", E(X))]
    core = [call(X, "sum"), call(X, "value_counts"), call(X, "cumsum"), call(X, "reset_index")]
    if k in ("str", "cat", "dt"):
        core = [call(X, "count"), call(X, "value_counts"), call(X, "reset_index"), call(X, "max")]
    if level == "core":
        return _dedup(core)
    return _dedup(out)


def ext_steps_for(p, level="full"):
    """row-wise alphabet (C36) + the extended alphabet.  level 'mini' = the handful of prefixes that change the KIND of metadata
    (a column -> Series, set_index / reset_index -> other index, an empty selection, an unknown categorical)"""
    if level == "mini":
        if isinstance(p, pd.Series):
            return series_steps(p, "core")
        if not isinstance(p, pd.DataFrame) or not p.columns.is_unique or not all(isinstance(c, str) for c in p.columns):
            return []
        cols = list(p.columns)
        num = [c for c in cols if kind_of(p[c].dtype) in NUMERIC]
        oth = [c for c in cols if kind_of(p[c].dtype) in ("str", "int")]
        out = [C(c) for c in cols]
        if num:
            out += [call(X, "set_index", num[0]), call(X, "reset_index"), ("item", X, B(">", C(num[0]), L(100)))]
        if oth:
            out += [call(X, "astype", D((oth[-1], "category")))]
        return out
    if isinstance(p, pd.DataFrame):
        if not p.columns.is_unique or isinstance(p.columns, pd.MultiIndex):
            return []
        return _dedup(frame_steps(p, level) + frame_ext_steps(p, level)) if all(isinstance(c, str) for c in p.columns) else []
    if isinstance(p, pd.Series):
        return _dedup(series_steps(p, level) + series_ext_steps(p, level))
    return []


# ---------------------------------------------------------------------------- programs as Python source (for repro lines)
def _lit_src(v):
    if isinstance(v, tuple) and v:
        t = v[0]
        if t == "l":
            return "[" + ", ".join(_lit_src(i) for i in v[1]) + "]"
        if t == "d":
            return "{" + ", ".join(f"{_lit_src(k)}: {_lit_src(w)}" for k, w in v[1]) + "}"
        if t == "nan":
            return "float('nan')"
        if t == "ts":
            return f"pd.Timestamp({v[1]!r})"
        if t == "td":
            return f"pd.Timedelta({v[1]!r})"
        if t == "fn":
            return FN_SRC[v[1]]
        if t == "tup":
            return "(" + ", ".join(_lit_src(i) for i in v[1]) + ",)"
    return repr(v)


FN_SRC = {
    "inc": "(lambda v: v + 1)", "ident": "(lambda v: v)", "dbl": "(lambda v: v * 2)", "tostr": "(lambda v: f'<{v}>')", "strlen": "len",
    "isodd": "(lambda v: bool(v % 2))", "rowsum": "(lambda r: r['a'] + r['g'])", "rowstr": "(lambda r: f\"{r['a']}-{r['g']}\")", "upper": "str.upper",
    "sfx": "(lambda c: f'{c}_r')",
}


def _arg_src(a, x, lib, dask):
    if isinstance(a, tuple) and a and a[0] == "e":
        return to_src(a[1], x, lib, dask)
    if isinstance(a, tuple) and a and a[0] == "el":
        return "[" + ", ".join(to_src(i, x, lib, dask) for i in a[1]) + "]"
    return _lit_src(a)


def _args_src(args, kwargs, x, lib, dask, extra=()):
    parts = [_arg_src(a, x, lib, dask) for a in args] + [f"{k}={_arg_src(v, x, lib, dask)}" for k, v in kwargs] + list(extra)
    return ", ".join(parts)


def to_src(e, x="x", lib="pd", dask=False):
    """Python source of an expression over the variable x (pandas flavour, or dask flavour with meta=/compute=False)"""
    t = e[0]
    r = lambda sub: to_src(sub, x, lib, dask)  # noqa: E731
    if t == "x":
        return x
    if t == "root2":
        return "y" if x == "x" else "q"  # dask twin is called y; in pandas the twin is the frame itself
    if t == "lit":
        return _lit_src(e[1])
    if t == "col":
        return f"{r(e[1])}[{e[2]!r}]"
    if t == "cols":
        return f"{r(e[1])}[{list(e[2])!r}]"
    if t == "item":
        return f"{r(e[1])}[{r(e[2])}]"
    if t == "loc":
        return f"{r(e[1])}.loc[{r(e[2])}]"
    if t == "bin":
        return f"({r(e[2])} {e[1]} {r(e[3])})"
    if t == "un":
        return f"abs({r(e[2])})" if e[1] == "abs" else f"({e[1]}{r(e[2])})"
    if t == "call":
        return f"{r(e[1])}.{e[2]}({_args_src(e[3], e[4], x, lib, dask)})"
    if t == "acc":
        base = f"{r(e[1])}.{e[2]}.{e[3]}"
        return base if e[4] is None else f"{base}({_args_src(e[4], e[5], x, lib, dask)})"
    if t == "accitem":
        k = e[3]
        return f"{r(e[1])}.{e[2]}[{'slice' + repr(tuple(k[1:])) if isinstance(k, tuple) else repr(k)}]"
    if t == "udf":
        extra = [f"meta=META"] if dask else []
        return f"{r(e[1])}.{e[2]}({FN_SRC[e[3]]}{', ' if (e[5] or extra) else ''}{_args_src((), e[5], x, lib, dask, extra)})"
    if t == "attr":
        return f"{r(e[1])}.{e[2]}"
    if t == "lib":
        return f"{lib}.{e[1]}({_args_src(e[2], e[3], x, lib, dask)})"
    if t == "daskonly":
        return f"{r(e[1])}.{e[2]}({_args_src(e[3], e[4], x, lib, dask)})" if dask else r(e[1])
    if t == "head":
        return f"{r(e[1])}.{e[2]}({e[3]}{', compute=False' if dask else ''})"
    if t == "locs":
        return f"{r(e[1])}.loc[{_lit_src(e[2])}:{_lit_src(e[3])}]"
    if t == "iloc":
        return f"{r(e[1])}.iloc[:, {e[2]}:{e[3]}]"
    raise ValueError(t)


def program_src(prog, lib="pd", dask=False, var="x"):
    """statements 'x = <step>' applying the program to the variable x"""
    return "; ".join(f"{var} = {to_src(step, var, lib, dask)}" for step in prog)


# ---------------------------------------------------------------------------- optimizer alphabet (C43)
def opt_steps_for(p, level="full"):
    """steps chosen to trigger the optimizer's rewrites: projection / filter pushdown through assign, rename, astype, fillna, arithmetic,
    filters with reductions in the predicate, OR-predicates with a common AND part, shadowing assigns, DAG-shaped steps that use x twice,
    reductions / groupby / set_index / sort_values / merge as producers and consumers.  level 'ext' adds the non-row-wise producers."""
    out = []
    if isinstance(p, pd.Series):
        k = kind_of(p.dtype)
        out = [call(X, "rename", "r"), call(X, "to_frame"), call(X, "count"), ("item", X, call(X, "notnull")), call(X, "isin", LS(1, 2, "x", 0.5)), call(X, "nunique")]
        if k in NUMERIC:
            out += [B("+", X, L(1)), B(">", X, L(3)), ("item", X, B(">", X, L(3))), ("item", X, B(">", X, call(X, "mean"))), call(X, "sum"), call(X, "max"),
                    call(X, "astype", "float64"), call(X, "fillna", 0), B("+", X, X), B("-", X, call(X, "min"))]
        elif k == "str":
            out += [acc(X, "str", "upper"), acc(X, "str", "len"), ("item", X, B("==", X, L("x"))), B("+", X, X)]
        elif k == "bool":
            out += [("un", "~", X), call(X, "sum"), ("item", X, X)]
        elif k == "dt":
            out += [prop(X, "dt", "day"), ("item", X, B(">", X, L(("ts", "2020-01-05")))), call(X, "max")]
        elif k == "cat":
            out += [prop(X, "cat", "codes"), ("item", X, B("==", X, L("x")))]
        return _dedup(out)
    if not isinstance(p, pd.DataFrame) or not p.columns.is_unique or not all(isinstance(c, str) for c in p.columns) or len(p.columns) == 0:
        return []
    cols = list(p.columns)
    kinds = {c: kind_of(p[c].dtype) for c in cols}
    num = [c for c in cols if kinds[c] in ("int", "float", "nullable")]
    oth = [c for c in cols if c not in num]
    out += [C(cols[-1]), ("cols", X, (cols[-1], cols[0])), ("cols", X, (cols[0],))]
    if oth:
        out += [C(oth[0])]
    if not num:
        return _dedup(out + [("item", X, call(C(cols[0]), "notnull")), call(X, "assign", z=E(C(cols[0]))), call(X, "count"), call(X, "rename", columns=D((cols[0], "Q")))])
    n0 = num[0]
    n1 = num[1] if len(num) > 1 else num[0]
    out += [C(n0), ("cols", X, (n0, n1)) if n0 != n1 else C(n0)]
    # filters
    out += [
        ("item", X, B(">", C(n0), L(3))), ("item", X, B("==", C(n1), L(0))), ("item", X, B(">", C(n0), call(C(n0), "mean"))),
        ("item", X, B("&", B(">", C(n0), L(2)), B("<", C(n1), L(2)))), ("item", X, B("|", B(">", C(n0), L(5)), B("==", C(n1), L(1)))),
        ("item", X, B("|", B("&", B(">", C(n0), L(2)), B("<", C(n1), L(2))), B("&", B(">", C(n0), L(2)), B("==", C(n1), L(2))))),
        ("item", X, B(">", C(n0), L(100))), ("item", X, call(C(n0), "isin", LS(1, 4, 6))), ("loc", X, B("<=", C(n0), L(4))),
        ("item", X, B(">", C(n0), call(C(n1), "max"))),
    ]
    for c in oth:
        if kinds[c] == "bool":
            out.append(("item", X, C(c)))
        if kinds[c] == "str":
            out.append(("item", X, B("==", C(c), L("x"))))
            out.append(("item", X, B(">", acc(C(c), "str", "len"), L(1))))
    for c in num:
        if kinds[c] in ("float", "nullable"):
            out.append(("item", X, call(C(c), "notnull")))
    # assigns
    out += [
        call(X, "assign", z=E(B("+", C(n0), L(1)))), call(X, "assign", **{n0: E(B("*", C(n0), L(2)))}), call(X, "assign", z=E(B("+", C(n0), C(n1)))),
        call(X, "assign", z=E(B(">", C(n0), L(3)))), call(X, "assign", z=E(call(C(n0), "sum"))), call(X, "assign", z=E(B("-", C(n0), call(C(n0), "mean")))),
        call(X, "assign", y=E(B("-", C(n0), L(1))), z=E(B("*", C(n1), L(2)))),
    ]
    if n0 != n1:
        out += [call(X, "assign", **{n1: E(C(n0)), n0: E(C(n1))}), call(X, "rename", columns=D((n0, n1), (n1, n0)))]
    # element-wise
    out += [B("+", X, L(1)), B("*", X, L(2)), call(X, "fillna", 0), call(X, "astype", D((n0, "float64"))), call(X, "astype", D((n0, "str"))), call(X, "astype", D((n0, "bool"))),
            call(X, "where", E(call(X, "notnull")), 0), call(X, "rename", columns=D((n0, "A"))),
            call(X, "drop", columns=LS(cols[-1])), call(X, "dropna"), call(X, "where", E(B(">", C(n0), L(3)))), call(X, "isna"), call(X, "clip", 2, 5)]
    # DAG-shaped steps (x has several consumers)
    out += [B("+", C(n0), C(n1)), call(C(n0), "where", E(B(">", C(n1), L(0))), E(B("*", C(n0), L(2)))), ("item", ("cols", X, (n0, cols[-1])), B(">", C(n0), L(3))),
            ("item", C(n1), B(">", C(n0), L(3))), B("+", ("cols", X, (n0,)), ("cols", X, (n0,))), B(">", C(n0), call(C(n1), "max")),
            B("/", C(n0), call(C(n0), "sum")), ("item", B("+", C(n0), L(1)), B(">", C(n1), L(0)))]
    # consumers that end a pipeline
    out += [call(X, "sum", numeric_only=True), call(X, "count"), call(C(n0), "sum"), call(X, "max", numeric_only=True), attr(X, "index"), call(X, "nunique")]
    if level == "core":
        core = [("cols", X, (cols[-1], cols[0])), C(n0), ("item", X, B(">", C(n0), L(3))), ("item", X, B(">", C(n0), call(C(n0), "mean"))),
                ("item", X, B("|", B("&", B(">", C(n0), L(2)), B("<", C(n1), L(2))), B("&", B(">", C(n0), L(2)), B("==", C(n1), L(2))))),
                call(X, "assign", z=E(B("+", C(n0), L(1)))), call(X, "assign", **{n0: E(B("*", C(n0), L(2)))}), call(X, "rename", columns=D((n0, "A"))),
                call(X, "astype", D((n0, "float64"))), call(X, "fillna", 0), B("+", C(n0), C(n1)), call(X, "sum", numeric_only=True)]
        if n0 != n1:
            core.append(call(X, "assign", **{n1: E(C(n0)), n0: E(C(n1))}))
        return _dedup(core)
    if level == "ext" and n0 != n1:
        G = call(X, "groupby", n1)
        OTHER = call(("cols", X, (n1, n0)), "rename", columns=D((n0, "w")))
        out += [call(G, "sum", numeric_only=True), call(("col", G, n0), "sum"), call(G, "agg", D((n0, "sum"))), call(G, "agg", D((n0, LS("min", "max")))), call(G, "count"),
                call(("col", G, n0), "agg", LS("min", "max")), call(G, "size"), call(("cols", G, (n0,)), "mean"), call(call(X, "groupby", LS(n1, n0)), "size"),
                call(X, "set_index", n0), call(X, "set_index", n1), call(X, "sort_values", n0), call(X, "sort_values", LS(n1, n0), ascending=False),
                call(X, "merge", E(OTHER), on=n1), call(X, "merge", E(OTHER), on=n1, how="left"), call(X, "merge", E(OTHER), left_on=n0, right_on="w", how="outer"),
                call(X, "merge", E(("item", OTHER, B(">", C("w", OTHER), L(3)))), on=n1),
                call(X, "drop_duplicates", subset=LS(n1)), call(C(n1), "value_counts"), call(C(n1), "unique"), call(X, "cumsum"), call(call(X, "rolling", 2), "sum"),
                call(X, "shift", 1), daskonly(X, "repartition", npartitions=2), lib("concat", ("el", (X, X))), call(X, "describe")]
    return _dedup(out)


def opt_ext_steps_for(p, level="full"):
    return opt_steps_for(p, "ext")


UNORDERED_SIGS = ("merge", "join", "drop_duplicates", "unique", "value_counts", "set_index", "sort_values", "concat", "shuffle", "mode", "nlargest", "nsmallest")
NOINDEX_SIGS = ("merge", "drop_duplicates", "unique", "describe")


def compare_mode(prog):
    """(ordered, check_index) that pandas/dask promise for the result of this program (DESIGN 5, DataFrames common base)"""
    names = set()
    for step in prog:
        names.update(_all_names(step))
    ordered = not (names & set(UNORDERED_SIGS))
    check_index = not (names & set(NOINDEX_SIGS))
    return ordered, check_index


def _all_names(e):
    out = set()
    if isinstance(e, tuple) and e:
        if e[0] in ("call", "daskonly", "attr", "head") and len(e) > 2 and isinstance(e[2], str):
            out.add(e[2])
        if e[0] == "lib":
            out.add(e[1])
        for sub in e[1:]:
            if isinstance(sub, tuple):
                out |= _all_names(sub)
    return out


# ---------------------------------------------------------------------------- OR-predicate filters (C43: Filter rewrite_filters)
OR_SHAPES3 = ("XY|XZ|W", "XY|W|XZ", "W|XY|XZ")
OR_SHAPES4 = ("XY|XZ|W|Z", "XY|W|XZ|WY", "W|XY|Z|XZ")


def or_atoms(p, pool):
    """pool of atomic predicates over the first two numeric columns of the frame p (each selects some but not all rows of the base data)"""
    cols = list(p.columns)
    num = [c for c in cols if kind_of(p[c].dtype) in ("int", "float", "nullable")]
    if len(num) < 2:
        return []
    n0, n1 = num[0], num[1]
    atoms = [B(">", C(n0), L(3)), B("==", C(n1), L(0)), B("==", C(n1), L(1)), B("<=", C(n0), L(2)), B("==", C(n1), L(2)), B(">", C(n0), L(5))]
    return atoms[:pool]


def or_filter_steps(p, pool=4):
    """boolean filters whose predicate is an OR of 3 or 4 clauses in which two clauses share an AND-factor X that the other clause(s)
    lack: EVERY assignment of distinct atoms of the pool to (X, Y, Z, W) x every clause shape/order of OR_SHAPES3 + OR_SHAPES4"""
    import itertools

    if not isinstance(p, pd.DataFrame) or not p.columns.is_unique:
        return []
    atoms = or_atoms(p, pool)
    out = []
    for x, y, z, w in itertools.permutations(range(len(atoms)), 4):
        env = {"X": atoms[x], "Y": atoms[y], "Z": atoms[z], "W": atoms[w]}
        for shape in OR_SHAPES3 + OR_SHAPES4:
            clauses = []
            for cl in shape.split("|"):
                e = env[cl[0]]
                for ch in cl[1:]:
                    e = B("&", e, env[ch])
                clauses.append(e)
            pred = clauses[0]
            for c in clauses[1:]:
                pred = B("|", pred, c)
            out.append(("item", X, pred))
    return _dedup(out)


def or_then_core(p, level="full"):
    """family OR of C43: an OR-filter followed by a consumer of the core optimizer alphabet (the rewrite only fires below a parent)"""
    if level == "or4":
        return or_filter_steps(p, 4)
    if level == "or5":
        return or_filter_steps(p, 5)
    return opt_steps_for(p, "core")
