"""C04 -- a failing task surfaces its exception and the scheduler terminates cleanly (DESIGN 5/C04)."""
from mc.props import _sweep

ID = "C04"
LEVEL = "model_checking"
HANG_IS_VIOLATION = True
WATCHDOG_S = 20.0
ENTRIES = ("async", "threaded", "mp", "mp_noopt", "executor", "sync")
NMAX = {"quick": 4, "thorough": 5}
MAXF = {"quick": 2, "thorough": 3}
CONFIGS = [(1, 1), (2, 1), (3, 1), (3, 2), (2, -1), (3, -1)]
ASSUMPTIONS = [
    "G3 (dequeue order is the only scheduling nondeterminism), re-checked by the conformance pass",
    "batches still pending when the failure is dequeued are never completed by the harness (a real pool would finish them "
    "unobserved after the call has raised)",
    "an exception whose payload cannot be pickled cannot be transported by the multiprocessing path at all: there only termination, "
    "raising and the finish callbacks are judged",
]


def RULE(tier):
    return (
        f"all DAGs on <= {NMAX[tier]} nodes (kinds task/literal/alias/list-node/nested-list, <= 1 non-plain kind at the largest n) x every "
        f"set F of failing tasks with |F| <= {MAXF[tier]} x exception kind (ValueError, user Exception subclass with extra args, "
        "BaseException subclass (also on a legacy multiprocessing.pool-style executor whose workers only catch Exception), unpicklable exception, a second exception class sharing its NAME with one raised by an earlier failing multiprocessing call in the same process) x requests (full key list, every single key) x entry points "
        f"{ENTRIES} x (num_workers, chunksize) in {CONFIGS} x EVERY completion order; 2 recorder callbacks active. "
        "non-trivial = >= 2 batches pending simultaneously in some execution."
    )


def shards(tier):
    return _sweep.shards_for(tier, ENTRIES, NMAX[tier])


def cases_of(shard, tier):
    entry, n, lo, hi = shard
    for mask, kinds, style, rev in _sweep.graph_space(tier, n):
        if not (lo <= mask < hi) or style != "int" or rev:
            continue
        if entry == "mp" and "m" in kinds:
            continue  # dict arguments + legacy fuse: judged under C09 (known finding fuse:*:dict-arg)
        reqs = [list(range(n))] + list(range(n))
        for fail in _sweep.failsets(n, mask, kinds, MAXF[tier], "VUBPW"):
            eks = {ek for _, ek in fail}
            if "P" in eks and entry not in ("mp", "mp_noopt", "async"):
                continue
            if "W" in eks and (entry not in ("mp", "mp_noopt") or len(fail) > 1):
                continue
            if ("U" in eks or "B" in eks) and len(fail) > 1 and n >= 4:
                continue  # multi-failure sets at the largest n use the ValueError kind only
            for req in reqs:
                configs = [(1, 1)] if entry == "sync" else CONFIGS
                for nw, cs in configs:
                    yield (entry, n, mask, kinds, "int", False, req, nw, cs, fail)
                if "B" in eks and entry in ("threaded", "mp_noopt", "mp") and len(fail) == 1:
                    # legacy multiprocessing.pool-style workers: only Exception is caught inside the worker
                    for nw, cs in [(2, 1), (3, 2)]:
                        yield (entry, n, mask, kinds, "int", False, req, nw, cs, fail + (("legacy", True),))


def run_shard(shard, ctx):
    for case in cases_of(shard, ctx.tier):
        if ctx.out_of_time():
            return
        ctx.guard(case, _sweep.run_case, ID, case, ctx, 2)


def replay(case, ctx):
    _sweep.run_case(ID, case, ctx, 2)


conformance = _sweep.conformance
