"""C09 -- low-level graph optimizations preserve requested values (DESIGN 5/C09).  E4."""
from __future__ import annotations

import itertools
import math

from mc.run import Hang
from mc.sched import build_graph, deps_of, kind_assignments, ref_values

ID = "C09"
LEVEL = "exploration"
HANG_IS_VIOLATION = True
WATCHDOG_S = 10.0
NMAX = {"quick": 4, "thorough": 5}
INF = float("inf")
ASSUMPTIONS = [
    "optimised graphs are evaluated with dask.get (the sync scheduler, itself checked exhaustively under C01) and compared with the "
    "harness's independent recursive evaluator of the ORIGINAL graph; task bodies are structural, so any mis-wiring shows in the value",
    "int keys make set order a function of the enumerated labelling; str / (str,int) keys (needed by the fused-key renamers) run under PYTHONHASHSEED=0",
    "kind 'u' (a key referenced inside a NON-task tuple argument) is enumerated for cull only: legacy semantics (dask.core) treat such "
    "tuples as literals while the task-spec converter resolves them; see known finding cull:u",
]

FUSE_GRID_FULL = [
    (aw, mw, mh, md, rk)
    for aw in (1, 2, 3, INF)
    for mw in (None, 1, 2)
    for mh in (None, 1, 2)
    for md in (None, 1)
    for rk in (True, False, "custom")
]
FUSE_GRID_QUICK4 = [(1, None, None, None, True), (2, None, None, None, False), (3, 2, 2, 1, "custom"), (INF, None, None, None, True), (2, 1, None, None, True), (1, None, 1, None, False), (3, None, 2, None, True)]


def RULE(tier):
    n = NMAX[tier]
    return (
        f"all DAGs on <= {n} nodes x node kinds (task/literal/alias/list-node/nested-list arg; <= 1 non-plain kind at n={n}) x key styles "
        "(int, str, (str,int)) x EVERY non-empty requested-key subset x each optimisation: cull, inline (every inline-key subset x "
        "inline_constants), inline_functions (every subset of the graph's functions as fast_functions), fuse_linear (rename on/off), "
        f"fuse over the grid ave_width{{1,2,3,inf}} x max_width{{None,1,2}} x max_height{{None,1,2}} x max_depth_new_edges{{None,1}} x rename{{True,False,custom}} "
        f"(full grid for n<=3{' and n=4' if tier == 'thorough' else ''}, 7 representative settings at the largest n), fuse_linear_task_spec, task-spec cull, resolve_aliases, "
        "Task.fuse on every dependency path of length 2-3, GraphNode.substitute over every key->key map on the node's dependencies (dependencies passed positionally and as keyword TaskRefs). "
        "Oracle: requested keys present; dask.get on the result == reference values of the original; returned dependency map == get_dependencies "
        "of the returned graph; no exception, no hang. non-trivial = >= 3 nodes and >= 2 edges."
    )


def shards(tier):
    out = []
    for n in range(1, NMAX[tier] + 1):
        nm = 1 << (n * (n - 1) // 2)
        for op in ("cull", "inline", "inline_functions", "fuse_linear", "fuse", "taskspec", "substitute"):
            step = max(1, nm // (16 if op == "fuse" else 4))
            for lo in range(0, nm, step):
                out.append((op, n, lo, min(nm, lo + step)))
    return out


def graph_space(tier, n, lo, hi, op):
    for mask in range(lo, hi):
        deps = deps_of(n, mask)
        ms = None if n < NMAX[tier] else 1
        alphabet = "tdalnum" if op == "cull" else "tdalnm"
        for kinds in kind_assignments_u(deps, alphabet, ms):
            plain = all(c in "td" for c in kinds)
            yield mask, kinds, "str"
            if plain or n <= 3:
                yield mask, kinds, "int"
                yield mask, kinds, "tup"


def kind_assignments_u(deps, alphabet, max_special):
    opts = []
    for d in deps:
        base = "td" if not d else ("talnum" if len(d) == 1 else "tlnum")
        opts.append([c for c in base if c in alphabet])
    for ks in itertools.product(*opts):
        if max_special is not None and sum(1 for c in ks if c not in "td") > max_special:
            continue
        yield "".join(ks)


def subsets(items, minlen=0):
    for r in range(minlen, len(items) + 1):
        yield from itertools.combinations(items, r)


def cases_of(shard, tier):
    op, n, lo, hi = shard
    for mask, kinds, style in graph_space(tier, n, lo, hi, op):
        for req in subsets(range(n), 1):
            base = (op, n, mask, kinds, style, req)
            if op == "cull":
                yield base + (None,)
            elif op == "inline":
                for ik in subsets(range(n)):
                    for ic in (True, False):
                        yield base + ((ik, ic),)
            elif op == "inline_functions":
                fn_nodes = [i for i in range(n) if kinds[i] in "tnm"]
                for ff in subsets(fn_nodes):
                    yield base + ((ff, True),)
                if fn_nodes:
                    yield base + ((tuple(fn_nodes), False),)
            elif op == "fuse_linear":
                for rk in (True, False):
                    yield base + (rk,)
            elif op == "fuse":
                if style == "int":
                    grid = [g for g in (FUSE_GRID_FULL if n <= 3 else FUSE_GRID_QUICK4) if g[4] is False]
                elif n <= 3 or (tier == "thorough" and n <= 4):
                    grid = FUSE_GRID_FULL
                else:
                    grid = FUSE_GRID_QUICK4
                for g in grid:
                    yield base + (("inf" if g[0] == INF else g[0],) + g[1:],)
            elif op == "taskspec":
                yield base + (None,)
            elif op == "substitute":
                if req == tuple(range(n)):
                    yield base + (None,)


class KwF:
    """structural task body taking its dependencies as keyword arguments"""

    def __init__(self, i):
        self.i = i

    def __call__(self, **kw):
        return ("kw", self.i, tuple(sorted(kw.items())))


def custom_renamer(keys):
    first = keys[0]
    if isinstance(first, str):
        return "fused-" + "-".join(map(str, keys))
    if isinstance(first, tuple):
        return ("fused-" + "-".join(str(k[0]) for k in keys),) + tuple(first[1:])
    return None


def same(a, b):
    if type(a) is not type(b):
        return False
    if isinstance(a, (list, tuple)):
        return len(a) == len(b) and all(same(x, y) for x, y in zip(a, b))
    if isinstance(a, dict):
        return a.keys() == b.keys() and all(same(a[k], b[k]) for k in a)
    return a == b


def known_class(case):
    op, n, mask, kinds = case[0], case[1], case[2], case[3]
    if "u" in kinds:
        return "u"
    if "m" in kinds:
        return "dict-arg"
    return None


def check_out(ctx, case, out, keys, want, tag, deps=None):
    import dask
    from dask.core import get_dependencies

    suffix = f":{known_class(case)}" if known_class(case) else ""
    missing = [k for k in keys if k not in out]
    if missing:
        ctx.violation(f"{tag}:requested-key-missing{suffix}", case, f"missing {missing!r} in {list(out)!r}")
        return False
    try:
        got = dask.get(out, list(keys))
    except Hang:
        raise
    except BaseException as e:  # noqa: BLE001
        ctx.violation(f"{tag}:result-graph-fails:{type(e).__name__}{suffix}", case, f"{e!r} on {out!r}"[:500])
        return False
    for g, w, k in zip(got, want, keys):
        if not same(g, w):
            ctx.violation(f"{tag}:wrong-value{suffix}", case, f"key {k!r}: got {g!r} want {w!r}; graph {out!r}"[:600])
            return False
    if deps is not None:
        if set(deps) != set(out):
            ctx.violation(f"{tag}:dependency-map-keys{suffix}", case, f"deps keys {sorted(map(repr, deps))} graph keys {sorted(map(repr, out))}")
            return False
        for k in out:
            real = get_dependencies(out, k)
            if set(deps[k]) != set(real):
                ctx.violation(f"{tag}:dependency-map-wrong{suffix}", case, f"deps[{k!r}]={deps[k]!r} but graph says {real!r}")
                return False
    return True


def run_case(case, ctx):
    from dask import optimization as opt
    from dask import _task_spec as ts
    from dask.core import reverse_dict

    op, n, mask, kinds, style, req, par = case
    dsk, K = build_graph(n, mask, kinds, style)
    vals = ref_values(n, mask, kinds)
    keys = [K[i] for i in req]
    want = [vals[i] for i in req]
    deps = deps_of(n, mask)
    nedges = sum(map(len, deps))
    ctx.case(case, nontrivial=n >= 3 and nedges >= 2, outcome=(op, n, nedges))
    suffix = f":{known_class(case)}" if known_class(case) else ""

    def guard(tag, fn):
        try:
            return True, fn()
        except Hang:
            raise
        except BaseException as e:  # noqa: BLE001
            ctx.violation(f"{tag}:raises:{type(e).__name__}{suffix}", case, f"{e!r}"[:400])
            return False, None

    if op == "cull":
        ok, r = guard("cull", lambda: opt.cull(dict(dsk), keys))
        if ok:
            check_out(ctx, case, r[0], keys, want, "cull", r[1])
    elif op == "inline":
        ik, ic = par
        ok, r = guard("inline", lambda: opt.inline(dict(dsk), keys=[K[i] for i in ik], inline_constants=ic))
        if ok:
            check_out(ctx, case, r, keys, want, "inline")
    elif op == "inline_functions":
        ff, ic = par
        fast = [dsk[K[i]][0] for i in ff]
        ok, r = guard("inline_functions", lambda: opt.inline_functions(dict(dsk), keys, fast_functions=fast, inline_constants=ic))
        if ok:
            check_out(ctx, case, r, keys, want, "inline_functions")
    elif op == "fuse_linear":
        ok, r = guard("fuse_linear", lambda: opt.fuse_linear(dict(dsk), keys, rename_keys=par))
        if ok:
            check_out(ctx, case, r[0], keys, want, "fuse_linear", r[1])
    elif op == "fuse":
        aw, mw, mh, md, rk = par
        aw = INF if aw == "inf" else aw
        rkv = custom_renamer if rk == "custom" else rk
        ok, r = guard("fuse" + (":ave_width=inf" if aw == INF else ""), lambda: opt.fuse(dict(dsk), keys, ave_width=aw, max_width=mw, max_height=mh, max_depth_new_edges=md, rename_keys=rkv))
        if ok:
            check_out(ctx, case, r[0], keys, want, "fuse", r[1])
    elif op == "taskspec":
        ok, tg = guard("convert_legacy_graph", lambda: ts.convert_legacy_graph(dict(dsk)))
        if not ok:
            return
        ok, r = guard("fuse_linear_task_spec", lambda: ts.fuse_linear_task_spec(dict(tg), set(keys)))
        if ok:
            check_out(ctx, case, r, keys, want, "fuse_linear_task_spec")
        ok, r = guard("taskspec_cull", lambda: ts.cull(dict(tg), list(keys)))
        if ok:
            check_out(ctx, case, r, keys, want, "taskspec_cull")
        dependents = reverse_dict(ts.DependenciesMapping(tg))
        ok, r = guard("resolve_aliases", lambda: ts.resolve_aliases(dict(tg), set(keys), dependents))
        if ok:
            check_out(ctx, case, r, keys, want, "resolve_aliases")
    elif op == "substitute":
        ok, tg = guard("convert_legacy_graph", lambda: ts.convert_legacy_graph(dict(dsk)))
        if not ok:
            return
        # Task.fuse on every dependency path of length 2..3
        paths = []
        for i in range(n):
            for j in deps[i]:
                paths.append((j, i))
                for h in deps[j]:
                    paths.append((h, j, i))
        for p in paths:
            tasks = [tg[K[q]] for q in p]
            if not all(isinstance(t, ts.GraphNode) for t in tasks):
                continue
            ok, fused = guard("Task.fuse", lambda: ts.Task.fuse(*tasks))
            if not ok:
                return
            ext = set()
            for q in p:
                ext |= set(deps[q])
            ext -= set(p)
            if set(fused.dependencies) != {K[q] for q in ext}:
                ctx.violation("Task.fuse:dependencies", case, f"path {p}: {fused.dependencies!r} want {[K[q] for q in ext]!r}")
                return
            ok, v = guard("Task.fuse:call", lambda: fused({K[q]: vals[q] for q in ext}))
            if ok and not same(v, vals[p[-1]]):
                ctx.violation("Task.fuse:wrong-value", case, f"path {p}: got {v!r} want {vals[p[-1]]!r}")
                return
        # the same dependencies passed as KEYWORD arguments (TaskRef values): substitute must rewrite those as well
        for i in range(n):
            if not deps[i]:
                continue
            dk = [K[j] for j in deps[i]]
            base_t = ts.Task(K[i], KwF(i), **{f"p{q}": ts.TaskRef(d) for q, d in enumerate(dk)})
            fresh_k = "fresh" if style != "int" else 77
            for image in itertools.product(list(K[: min(n, 3)]) + [fresh_k], repeat=len(dk)):
                m = dict(zip(dk, image))
                ok, t2 = guard("substitute-kwargs", lambda: base_t.substitute(m))
                if not ok:
                    return
                if set(t2.dependencies) != {m[d] for d in dk}:
                    ctx.violation("substitute-kwargs:dependencies", case, f"node {i} map {m!r}: {t2.dependencies!r} want {sorted(map(repr, {m[d] for d in dk}))}")
                    return
                data = {k: ("val", repr(k)) for k in set(K) | {fresh_k}}
                ok2, v2 = guard("substitute-kwargs:call", lambda: t2(data))
                want2 = ("kw", i, tuple(sorted((f"p{q}", data[m[d]]) for q, d in enumerate(dk))))
                if ok2 and not same(v2, want2):
                    ctx.violation("substitute-kwargs:wrong-value", case, f"node {i} map {m!r}: {v2!r} want {want2!r}")
                    return
        # substitute: every key->key map on the node's dependencies over the alphabet of graph keys + one fresh key
        fresh = "fresh" if style != "int" else 77
        for i in range(n):
            t = tg[K[i]]
            if not isinstance(t, ts.GraphNode) or not deps[i]:
                continue
            dk = [K[j] for j in deps[i]]
            targets = list(K[: min(n, 3)]) + [fresh]
            for image in itertools.product(targets, repeat=len(dk)):
                m = dict(zip(dk, image))
                ok, t2 = guard("substitute", lambda: t.substitute(m))
                if not ok:
                    return
                wantdeps = {m[d] for d in dk}
                if set(t2.dependencies) != wantdeps:
                    ctx.violation("substitute:dependencies", case, f"node {i} map {m!r}: {t2.dependencies!r} want {wantdeps!r}")
                    return
                data = {k: ("val", repr(k)) for k in set(K) | {fresh}}
                ok, v2 = guard("substitute:call", lambda: t2(data))
                ok1, v1 = guard("substitute:call", lambda: t({d: data[m[d]] for d in dk}))
                if ok and ok1 and not same(v1, v2):
                    ctx.violation("substitute:wrong-value", case, f"node {i} map {m!r}: {v2!r} vs {v1!r}")
                    return


def run_shard(shard, ctx):
    for case in cases_of(shard, ctx.tier):
        if ctx.out_of_time():
            return
        ctx.guard(case, run_case, case, ctx)


def replay(case, ctx):
    run_case(case, ctx)
