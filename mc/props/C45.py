"""C45 -- division planning never splits equal index values (DESIGN 5/C45).  E4: exhaustive small scope.

Four families, all on the real dask functions:
  sdl     dask.dataframe.io.io.sorted_division_locations          (statement sentences 1+2)
  pvw     dask.dataframe.partitionquantiles.process_val_weights   (sentence 3, planner core, all small weighted inputs)
  rq      Series._repartition_quantiles -> RepartitionQuantiles   (sentence 3, on really partitioned data)
  setidx  DataFrame.set_index(col, npartitions=k).divisions       (sentence 3, what set_index finally uses)
"""
from __future__ import annotations

import itertools

import mc.dfh as dfh  # FIRST: installs the pyarrow stand-in
import numpy as np
import pandas as pd

from mc import enums
from mc.run import Hang

ID = "C45"
LEVEL = "exploration"
WATCHDOG_S = 20.0
HANG_IS_VIOLATION = True  # the planners are plain loops over finite input: not returning is a defect
ASSUMPTIONS = [
    "sync scheduler; value alphabets are seed-chosen strictly increasing ints/floats/strings/datetimes, the enumerated index space is seed-independent",
    "null keys are excluded a priori: dask documents that nulls in the index/divisions are not supported",
    "empty sequences / all-empty data have no minimum, maximum or first division: counted out_of_scope, not judged",
    "sentence 3 is read as: divisions[i] <= divisions[i+1], divisions[0] <= min(data), divisions[-1] >= max(data); the number of divisions is not demanded",
]

# ---------------------------------------------------------------------------------------------- bounds
SDL = {"quick": (8, 5, 9), "thorough": (12, 6, 13)}  # (max length, alphabet size, max npartitions/chunksize)
PVW = {"quick": (6, 7), "thorough": (7, 9)}  # (alphabet size = max #vals, max npartitions)
RQ_INT = {"quick": [(4, 4)], "thorough": [(5, 4), (6, 3)]}  # (max length, alphabet size) exhaustive UNSORTED sequences
RQ_OTHER = {"quick": (3, 4), "thorough": (4, 4)}
SI = {"quick": (3, 3), "thorough": (4, 4)}
KMAX_Q = {"quick": 4, "thorough": 5}  # requested npartitions 1..KMAX for rq / setidx
MAXPARTS = 3
WEIGHTS = (1.0, 2.0, 7.0)
KINDS = ("int", "float", "str", "dt")
CONTAINERS = ("nd", "index", "series")


def RULE(tier):
    sl, sa, sk = SDL[tier]
    pa, pk = PVW[tier]
    return (
        f"sdl: EVERY sorted sequence of length 1..{sl} over a {sa}-letter alphabet (int, float, str values) as ndarray / pd.Index / pd.Series "
        f"(+ plain list for length <= 4) x every npartitions 1..{sk} and every chunksize 1..{sk}: locations strictly increase 0..len, "
        "division == value at location (last == last value), no boundary between equal values, npartitions met exactly when #distinct >= npartitions. "
        f"pvw: every non-empty subset of a {pa}-value alphabet (int, float, str, datetime, categorical codes) x every weight vector over {WEIGHTS} "
        f"x npartitions 1..{pk}. rq: every UNSORTED int sequence {RQ_INT[tier]} (max length, alphabet) and every float/str/datetime sequence "
        f"{RQ_OTHER[tier]} x EVERY partitioning into <= {MAXPARTS} partitions incl. empty ones x npartitions 1..{KMAX_Q[tier]} through "
        f"Series._repartition_quantiles. setidx: the same for sequences {SI[tier]}, all four kinds, x npartitions in {{None,1..{KMAX_Q[tier]}}} through "
        "DataFrame.set_index(col).divisions. Oracle for pvw/rq/setidx: non-decreasing, first <= min(data), last >= max(data). "
        "non-trivial = sdl: duplicates present or >= 2 partitions planned; others: >= 2 distinct values and (>= 2 source partitions or >= 2 requested)."
    )


# ---------------------------------------------------------------------------------------------- alphabets
def alphabet(kind, size, seed):
    """strictly increasing values; the seed only moves the concrete values"""
    rng = np.random.RandomState(1000 + seed)
    ints = (np.cumsum(rng.randint(1, 4, size=size)) - 3).astype("int64")
    if kind == "int":
        return [int(v) for v in ints]
    if kind == "float":
        return [float(v) * 0.75 - 0.5 for v in ints]
    if kind == "str":
        pool = sorted(["B", "Zz", "a", "ab", "b", "ba", "c", "d", "e", "ea", "x", "yy", "z"])
        pick = sorted(rng.choice(len(pool), size=size, replace=False).tolist())
        return [pool[i] for i in pick]
    if kind == "dt":
        return [np.datetime64("2020-01-01T00:00:00", "ns") + np.timedelta64(int(v) * 36, "h") for v in ints]
    raise ValueError(kind)


def values_of(kind, seq, size, seed):
    al = alphabet(kind, size, seed)
    vals = [al[i] for i in seq]
    if kind == "int":
        return np.array(vals, dtype="int64")
    if kind == "float":
        return np.array(vals, dtype="float64")
    if kind == "str":
        return np.array(vals, dtype=object)
    return np.array(vals, dtype="datetime64[ns]")


# ---------------------------------------------------------------------------------------------- shards
def shards(tier):
    out = []
    sl, sa, sk = SDL[tier]
    for kind in ("str", "int", "float"):
        for cont in CONTAINERS:
            for part in range(4):
                out.append(("sdl", kind, cont, part, 4))
    out.append(("sdl", "str", "list", 0, 1))
    pa, pk = PVW[tier]
    for kind in KINDS + ("cat",):
        for part in range(3):
            out.append(("pvw", kind, part, 3))
    for L, A in RQ_INT[tier]:
        for n in range(1, L + 1):
            if (L, A) != RQ_INT[tier][0] and n < L:
                continue  # the shorter lengths are already enumerated by the first (length, alphabet) entry
            np_ = 16 if A**n >= 200 else (4 if A**n >= 50 else 1)
            for part in range(np_):
                out.append(("rq", "int", n, A, part, np_))
    L, A = RQ_OTHER[tier]
    for kind in ("float", "str", "dt"):
        for n in range(1, L + 1):
            np_ = 8 if A**n >= 200 else (4 if A**n >= 50 else 1)
            for part in range(np_):
                out.append(("rq", kind, n, A, part, np_))
    L, A = SI[tier]
    for kind in KINDS:
        for n in range(1, L + 1):
            np_ = 12 if A**n >= 200 else (6 if A**n >= 50 else 1)
            for part in range(np_):
                out.append(("setidx", kind, n, A, part, np_))
    # simplest first, then interleave the families so that a capped run still touches each of them
    order = {"sdl": 0, "pvw": 1, "rq": 2, "setidx": 3}
    out.sort(key=lambda s: (s[2] if s[0] in ("rq", "setidx") else 0, order[s[0]]))
    return out


def cases_of(shard, tier):
    fam = shard[0]
    if fam == "sdl":
        _, kind, cont, part, nparts = shard
        sl, sa, sk = SDL[tier]
        if cont == "list":
            sl = 4
        i = 0
        for seq in enums.sorted_seqs(range(sa), sl):
            if not seq:
                continue
            i += 1
            if i % nparts != part:
                continue
            for k in range(1, sk + 1):
                yield ("sdl", kind, cont, sa, seq, "n", k)
                yield ("sdl", kind, cont, sa, seq, "c", k)
    elif fam == "pvw":
        _, kind, part, nparts = shard
        pa, pk = PVW[tier]
        i = 0
        for L in range(1, pa + 1):
            for sub in itertools.combinations(range(pa), L):
                i += 1
                if i % nparts != part:
                    continue
                for w in itertools.product(range(len(WEIGHTS)), repeat=L):
                    for k in range(1, pk + 1):
                        yield ("pvw", kind, pa, sub, w, k)
    elif fam in ("rq", "setidx"):
        _, kind, n, A, part, nparts = shard
        ks = list(range(1, KMAX_Q[tier] + 1))
        if fam == "setidx":
            ks = [None] + ks
        for i, seq in enumerate(itertools.product(range(A), repeat=n)):
            if i % nparts != part:
                continue
            for parts in enums.compositions_with_zeros(n, MAXPARTS):
                for k in ks:
                    yield (fam, kind, A, seq, parts, k)
    else:
        raise ValueError(fam)


# ---------------------------------------------------------------------------------------------- oracles
def sdl_problem(seq, divs, locs, npartitions):
    """the statement's invariants for sorted_division_locations, literally"""
    n = len(seq)
    if len(divs) != len(locs):
        return "shape", f"{len(divs)} divisions for {len(locs)} locations"
    if len(locs) < 2 or locs[0] != 0 or locs[-1] != n:
        return "ends", f"locations {locs} do not run from 0 to {n}"
    if any(b <= a for a, b in zip(locs, locs[1:])):
        return "not-increasing", f"locations {locs} do not strictly increase"
    for d, l in zip(divs[:-1], locs[:-1]):
        if not (seq[l] == d):
            return "value", f"division {d!r} at location {l} but seq[{l}] = {seq[l]!r}"
    if not (divs[-1] == seq[-1]):
        return "value", f"last division {divs[-1]!r} != last value {seq[-1]!r}"
    for l in locs[1:-1]:
        if seq[l - 1] == seq[l]:
            return "straddle", f"boundary at {l} splits equal values {seq[l]!r} (locations {locs})"
    if npartitions is not None and len(set(seq)) >= npartitions and len(locs) - 1 != npartitions:
        return "npartitions-not-met", f"{len(set(seq))} distinct values, asked {npartitions} partitions, got {len(locs) - 1} (locations {locs})"
    return None


def span_problem(data, divs):
    """sentence 3: non-decreasing and spanning min and max of the data"""
    divs = list(divs)
    if len(divs) < 2:
        return "shape", f"fewer than 2 divisions: {divs!r}"
    if any(pd.isna(d) for d in divs):
        return "null-division", f"divisions {divs!r} contain a null although the data has none"
    if any(b < a for a, b in zip(divs, divs[1:])):
        return "decreasing", f"divisions {divs!r} decrease"
    lo, hi = min(data), max(data)
    if divs[0] > lo:
        return "min-not-spanned", f"first division {divs[0]!r} > data minimum {lo!r}"
    if divs[-1] < hi:
        return "max-not-spanned", f"last division {divs[-1]!r} < data maximum {hi!r}"
    return None


def known_class(case):
    """narrow input classes of recorded findings; appended to the finding key"""
    if case[0] == "sdl" and case[2] == "list":
        return "plain-list"
    return None


# ---------------------------------------------------------------------------------------------- cases
def run_case(case, ctx):
    fam = case[0]
    sub = known_class(case)
    suffix = f":{sub}" if sub else ""
    if fam == "sdl":
        from dask.dataframe.io.io import sorted_division_locations

        _, kind, cont, sa, seq, mode, k = case
        vals = values_of(kind, seq, sa, ctx.seed)
        ref = vals.tolist()
        arg = {"nd": lambda: vals, "index": lambda: pd.Index(vals), "series": lambda: pd.Series(vals), "list": lambda: list(ref)}[cont]()
        if cont in ("index", "series"):
            ref = arg.tolist()
        kw = {"npartitions": k} if mode == "n" else {"chunksize": k}
        try:
            divs, locs = sorted_division_locations(arg, **kw)
        except Hang:
            raise
        except Exception as e:  # noqa: BLE001
            ctx.case(case, nontrivial=len(set(seq)) < len(seq), outcome=("exc", type(e).__name__))
            ctx.violation(f"sdl:dask-raises:{type(e).__name__}{suffix}", case, f"sorted_division_locations({arg!r}, {kw}) raised {e!r}")
            return
        locs = [int(l) for l in locs]
        ctx.case(case, nontrivial=len(set(seq)) < len(seq) or len(locs) > 2, outcome=(tuple(locs), mode))
        bad = sdl_problem(ref, list(divs), locs, k if mode == "n" else None)
        if bad:
            ctx.violation(f"sdl:{bad[0]}{suffix}", case, f"sorted_division_locations({ref!r}, {kw}) -> {divs!r}, {locs!r}: {bad[1]}")
        return

    if fam == "pvw":
        from dask.dataframe.partitionquantiles import process_val_weights

        _, kind, pa, subset, w, k = case
        weights = [WEIGHTS[i] for i in w]
        if kind == "cat":
            cats = pd.Index(alphabet("str", pa, ctx.seed))
            dtype, info = pd.CategoricalDtype(cats, ordered=True), (cats, True)
            vals = [int(i) for i in subset]  # summaries of categoricals carry the codes
            data = [cats[i] for i in subset]
        else:
            arr_ = values_of(kind, subset, pa, ctx.seed)
            dtype, info = (arr_.dtype, None)
            vals = arr_.tolist() if kind != "dt" else list(arr_)
            data = list(arr_) if kind != "dt" else [pd.Timestamp(v) for v in arr_]
        try:
            rv = process_val_weights((list(vals), weights), k, (dtype, info))
        except Hang:
            raise
        except Exception as e:  # noqa: BLE001
            ctx.case(case, nontrivial=len(subset) >= 2, outcome=("exc", type(e).__name__))
            ctx.violation(f"pvw:dask-raises:{type(e).__name__}:{kind}", case, f"process_val_weights(({vals!r}, {weights!r}), {k}, ({dtype!r}, ..)) raised {e!r}")
            return
        out = list(rv)
        ctx.case(case, nontrivial=len(subset) >= 2 and k >= 2, outcome=(len(out), len(set(map(repr, out))), kind))
        bad = span_problem(data, out)
        if bad:
            ctx.violation(f"pvw:{bad[0]}:{kind}", case, f"process_val_weights(({vals!r}, {weights!r}), {k}) -> {out!r}: {bad[1]}")
        return

    if fam in ("rq", "setidx"):
        _, kind, A, seq, parts, k = case
        vals = values_of(kind, seq, A, ctx.seed)
        pdf = pd.DataFrame({"k": vals, "v": np.arange(len(seq), dtype="int64")})
        d = dfh.build(pdf, parts, divisions=None)
        data = list(pdf["k"])
        nontrivial = len(set(seq)) >= 2 and (sum(1 for p in parts if p) >= 2 or (k or 0) >= 2)
        try:
            if fam == "rq":
                res = d["k"]._repartition_quantiles(k).compute()
                out = list(res.values) if kind != "dt" else list(res)
            else:
                out = list(d.set_index("k", npartitions=k).divisions)
        except Hang:
            raise
        except Exception as e:  # noqa: BLE001
            cls = dfh.classify_exc(e)
            ctx.case(case, nontrivial=nontrivial, outcome=("exc", type(e).__name__))
            if cls in ("rejected", "out_of_scope"):
                ctx.count(cls)
                return
            ctx.violation(f"{fam}:dask-raises:{type(e).__name__}:{kind}", case, f"{fam} on {data!r} split {parts}, npartitions={k} raised {e!r}")
            return
        ctx.case(case, nontrivial=nontrivial, outcome=(len(out), len(set(map(repr, out))), kind))
        if fam == "setidx" and len(out) == 2 and out[0] is None and out[1] is None:
            ctx.count("unknown_divisions")  # a single output partition: set_index reports no divisions, nothing to judge
            return
        bad = span_problem(data, out)
        if bad:
            ctx.violation(f"{fam}:{bad[0]}:{kind}", case, f"{fam} on {data!r} split {parts}, npartitions={k} -> {out!r}: {bad[1]}")
        return
    raise ValueError(fam)


def run_shard(shard, ctx):
    for case in cases_of(shard, ctx.tier):
        if ctx.out_of_time():
            return
        ctx.guard(case, run_case, case, ctx)


def replay(case, ctx):
    run_case(case, ctx)
