"""C19 -- elementwise / broadcasting array operations equal NumPy (DESIGN 5/C19).  E4: exhaustive small scope.

Families (one literal case each):
  ("bin",  op, A, B)                 A, B = (shape, dtype-tag, kind, chunks)   binary operators / ufuncs
  ("un",   fn, A)                    unary ufuncs and elementwise helper functions
  ("where", C, X, Y)                 da.where(c, x, y)
  ("ufw",  fn, (A[, B]), W, O)       ufunc(..., where=W, out=O)     W = None | ('py', bool) | operand; O = None | operand
  ("astype", A, to-dtype, kw)        x.astype(dtype, **kw)
  ("clip", style, A, LO, HI)         clip with bounds None | operand
operand kinds: 'd' dask array (with an explicit chunking), 'n' numpy array, 'p' python scalar (weak under NEP 50),
'g' numpy scalar of the exact dtype.  The reference is the very same call on the NumPy data.
"""
from __future__ import annotations

import itertools
import operator
import warnings

import numpy as np

from mc import arr, enums
from mc.run import Hang

ID = "C19"
LEVEL = "exploration"
WATCHDOG_S = 20.0
ASSUMPTIONS = [
    "sync scheduler; operand data are seed-permuted distinct values per dtype (bool excepted), containing zero and negative values",
    "the reference is the same operator / NumPy function applied to the in-memory data; where NumPy itself raises the case is inapplicable",
    "ufunc(where=w) without out=: NumPy leaves masked-out cells uninitialised, so only cells with w true are compared",
    "lazy dtype must equal the computed dtype (C25 invariant, checked for free) and both must equal NumPy's",
    "da.clip(x, min=, max=) keyword form is outside the alphabet (elemwise refuses every keyword with an explicit TypeError); Array.clip(min=, max=) is inside",
]

# --------------------------------------------------------------------------------------------- alphabets
SHAPES = [(), (1,), (3,), (2, 3), (1, 3), (2, 1), (0,), (2, 0)]
DT_CORE = ["bool", "i1", "i8", "u1", "f4", "f8", "c16"]
DT_TIME = ["M8[D]", "m8[h]"]
DT_NAN = "f8nan"  # f8 data with one NaN, one +inf and one -0.0 (NaN-sensitive operations)
DT_ALL = DT_CORE + [DT_NAN] + DT_TIME

OPS = {
    "+": operator.add,
    "-": operator.sub,
    "*": operator.mul,
    "/": operator.truediv,
    "//": operator.floordiv,
    "%": operator.mod,
    "**": operator.pow,
    "<": operator.lt,
    "<=": operator.le,
    ">": operator.gt,
    ">=": operator.ge,
    "==": operator.eq,
    "!=": operator.ne,
    "&": operator.and_,
    "|": operator.or_,
    "^": operator.xor,
    "<<": operator.lshift,
    ">>": operator.rshift,
}
OPERATORS = ["+", "-", "*", "/", "//", "%", "**", "<", "<=", "==", "!=", "&", "|", "^"]
OPERATORS_T = OPERATORS + [">", ">=", "<<", ">>"]
# binary ufuncs called as da.<name>(a, b) (reference np.<name>); "np:<name>" = NumPy's ufunc called on dask operands
# (dispatch through __array_ufunc__)
BIN_UFUNCS = ["maximum", "minimum"]
BIN_UFUNCS_X = [
    "np:add",
    "np:maximum",
    "add",
    "fmax",
    "fmin",
    "arctan2",
    "hypot",
    "copysign",
    "fmod",
    "logaddexp",
    "logical_and",
    "logical_or",
    "logical_xor",
    "float_power",
    "nextafter",
    "ldexp",
    "bitwise_and",
    "greater",
    "not_equal",
]
UNARY = ["negative", "abs", "sqrt", "exp", "sin", "isnan", "logical_not", "sign", "floor"]
UNARY_X = [
    "op:neg",
    "op:abs",
    "op:invert",
    "op:pos",
    "ceil",
    "trunc",
    "rint",
    "square",
    "cbrt",
    "log",
    "log1p",
    "expm1",
    "cos",
    "tan",
    "arcsin",
    "arctan",
    "tanh",
    "isfinite",
    "isinf",
    "signbit",
    "conj",
    "real",
    "imag",
    "angle",
    "isreal",
    "iscomplex",
    "fix",
    "nan_to_num",
    "reciprocal",
    "positive",
    "invert",
    "fabs",
    "deg2rad",
    "exp2",
    "log2",
    "log10",
    "spacing",
    "np:sqrt",
    "np:negative",
    "np:isnan",
]

PY_OF_KIND = {"b": True, "i": 3, "u": 3, "f": 2.5, "c": (1.5 + 2j)}


def np_dtype(tag):
    return np.dtype("f8" if tag == DT_NAN else tag)


def values(shape, tag, seed, salt):
    """ndarray of the dtype filled with a seed-chosen permutation of distinct values (zero and negatives included)"""
    n = int(np.prod(shape)) if len(shape) else 1
    perm = np.random.RandomState(seed * 7 + salt).permutation(n)
    c = perm.astype("i8") - n // 2 + (salt % 2)
    dt = np_dtype(tag)
    if dt.kind == "b":
        v = (perm + salt) % 2 == 0
    elif dt.kind == "i":
        v = c.astype(dt)
    elif dt.kind == "u":
        v = (perm + (salt % 2)).astype(dt)
    elif dt.kind == "f":
        v = (c * 0.5 + 0.25 * (salt % 3)).astype(dt)
        if tag == DT_NAN:
            for pos, special in zip(range(n), (np.nan, np.inf, -0.0)):
                v[perm == pos] = special
    elif dt.kind == "c":
        v = (c + 1j * ((perm % 3) - 1)).astype(dt)
    elif dt.kind == "M":
        v = (np.datetime64("2000-01-01", "D") + perm.astype("m8[D]")).astype(dt)
    elif dt.kind == "m":
        v = c.astype(dt)
    else:
        raise ValueError(tag)
    return v.reshape(shape)


def scalar(tag, kind, salt):
    dt = np_dtype(tag)
    if kind == "p":
        return PY_OF_KIND[dt.kind]
    v = values((), tag, 0, salt + 4)
    if dt.kind in "iuf" and tag != DT_NAN:
        v = np.asarray(3 if dt.kind != "f" else 2.5, dtype=dt)
    return v[()]


def has_py(tag):
    return tag in ("bool", "i8", "f8", "c16")


def make(opd, seed, salt):
    """operand literal -> (object handed to dask, object handed to NumPy)"""
    import dask.array as da

    shape, tag, kind, chunks = opd
    if kind in ("p", "g"):
        s = scalar(tag, kind, salt)
        return s, s
    x = values(tuple(shape), tag, seed, salt)
    if kind == "n":
        return x, x
    return da.from_array(x, chunks=tuple(chunks)), x


def all_chunkings(shape):
    return list(enums.chunkings(shape)) if len(shape) else [()]


def few_chunkings(shape):
    """<= 3 chunkings: finest, single, and one irregular"""
    allc = all_chunkings(shape)
    if len(allc) <= 3:
        return allc
    pick = [allc[0], allc[-1], allc[len(allc) // 2 - 1]]
    out = []
    for c in pick:
        if c not in out:
            out.append(c)
    return out


def compatible(*shapes):
    try:
        return np.broadcast_shapes(*shapes)
    except ValueError:
        return None


def opnd(shape, tag, kind, chunks=None):
    return (tuple(shape), tag, kind, chunks)


def operand_variants(shape, tag, kinds, chunk_fn):
    """all operand literals of this shape/dtype over the kinds; scalar kinds only for shape ()"""
    for k in kinds:
        if k == "d":
            for ch in chunk_fn(shape):
                yield opnd(shape, tag, "d", ch)
        elif k == "n":
            yield opnd(shape, tag, "n")
        elif k in ("p", "g"):
            if shape == () and (k == "g" or has_py(tag)):
                yield opnd((), tag, k)


def n_chunks(opd):
    if opd is None or opd[2] != "d" or not opd[3]:
        return 1
    return int(np.prod([len(c) for c in opd[3]]))


def is_dask(opd):
    return opd is not None and opd[0] != "py" and opd[2] == "d"


# --------------------------------------------------------------------------------------------- enumeration
def RULE(tier):
    t = tier == "thorough"
    return (
        f"bin/chunk: every broadcast-compatible ordered pair of shapes from {{(),(1,),(3,),(2,3),(1,3),(2,1),(0,),(2,0)}} plus (4,)x(4,), (5,)x(5,){', (6,)x(6,), (2,4)x(2,4)' if t else ''} "
        "(every PAIR of chunkings, so that differently chunked axes must be unified) x EVERY chunking of each dask "
        f"operand x operand kinds {{dask-dask, dask-numpy, numpy-dask}} x {len(OPERATORS_T if t else OPERATORS)} operators + maximum/minimum"
        f"{' + ' + str(len(BIN_UFUNCS_X)) + ' more binary ufuncs' if t else ''} x dtype pairs {'all of ' + str(len(DT_CORE) + 1) + '^2' if t else '(i8,i8),(f8,i1),(bool,u1),(f8nan,f4)'}; "
        f"bin/dtype: ALL ordered dtype pairs over {{bool,i1,i8,u1,f4,f8,c16,f8-with-NaN/inf,M8[D],m8[h]}} x all operators/ufuncs (incl. {len(BIN_UFUNCS_X)} further "
        "binary ufuncs and NumPy-ufunc dispatch) x kinds {dd,dn,nd, dask with python scalar / numpy scalar on either side} on "
        f"{'6' if t else '3'} multi-chunk broadcasting shape pairs; "
        f"zchunk: chunkings WITH zero-length chunks (every partitioning of an axis into <= 3 chunks, empty chunks leading / inner / trailing): every PAIR of them on "
        f"(4,)x(4,), (5,)x(5,), (2,4)x(4,){', (2,4)x(1,4), (2,4)x(2,4), (6,)x(6,)' if t else ' (and (2,4)x(1,4) with 3 chunkings of the long operand)'} for "
        f"{'16' if t else '2-4'} binary ops, and on {'(4,), (5,), (2,4)' if t else '(4,)'} for where / clip / "
        "ufunc(where=,out=) with every pair on two operands and 3 chunkings (single, trailing empty, leading empty) on the others; "
        f"un: {len(UNARY) + len(UNARY_X)} unary ufuncs/functions x 10 dtypes x every shape x every chunking; "
        "where: every compatible (cond,x,y) shape triple over {(),(3,),(2,3),(1,3),(2,1),(0,)} x every chunking of every dask operand"
        f"{'' if t else ' (when all three operands are multi-chunk: every chunking of two of them x 3 of the third)'} x 4 dask/numpy kind patterns x "
        f"{7 if t else 3} dtype triples, plus python/numpy scalars in every position (incl. the scalar-condition branch); "
        f"ufw: ufunc(where=, out=) for add/{'multiply/' if t else ''}less/negative/sqrt x where in {{absent,True,False,numpy,dask}} x out in {{absent, dask array of the "
        f"result dtype, dask array of a wider dtype}} x {'every chunking' if t else '<= 3 chunkings (finest, single, irregular)'} of each operand; "
        "astype: all dtype pairs (16 targets) x casting/copy keywords x every chunking; clip: Array.clip / da.clip / np.clip dispatch / keyword form x bounds "
        f"{{None, python scalar, numpy scalar, numpy array, dask array}} x 6 dtype triples{'' if t else ' (every chunking for da.clip, <= 3 otherwise)'}. Oracle: computed values AND dtype equal NumPy's (exact; NaN==NaN), lazy dtype/shape/chunks "
        "agree with the computed blocks. non-trivial = some dask operand has >= 2 chunks, or operands of different shapes are broadcast."
    )


NSPLIT = {"zchunk": 10, "binchunk": 24, "bindtype": 24, "where": 12, "ufw": 8, "un": 4, "astype": 2, "clip": 4}


def shards(tier):
    out = []
    # simplest first
    for fam in ("un", "astype", "clip", "ufw", "where", "zchunk", "binchunk", "bindtype"):
        k = NSPLIT[fam] * (1 if tier == "quick" else (8 if fam == "binchunk" else 2))
        for part in range(k):
            out.append((fam, part, k))
    return out


def shape_pairs():
    for a in SHAPES:
        for b in SHAPES:
            if compatible(a, b) is not None:
                yield a, b


def binops(tier, wide):
    ops = list(OPERATORS_T if tier == "thorough" else OPERATORS) + BIN_UFUNCS
    if wide:
        ops = list(OPERATORS_T) + BIN_UFUNCS + BIN_UFUNCS_X
    return ops


def gen_binchunk(tier):
    if tier == "thorough":
        dts = [(a, b) for a in DT_CORE + [DT_NAN] for b in DT_CORE + [DT_NAN]]
    else:
        dts = [("i8", "i8"), ("f8", "i1"), ("bool", "u1"), (DT_NAN, "f4")]
    ops = binops(tier, tier == "thorough")
    for sa, sb in shape_pairs():
        for ka, kb in (("d", "d"), ("d", "n"), ("n", "d")):
            for ta, tb in dts:
                for A in operand_variants(sa, ta, [ka], all_chunkings):
                    for B in operand_variants(sb, tb, [kb], all_chunkings):
                        for op in ops:
                            yield ("bin", op, A, B)
    # longer axes: two DIFFERENT multi-chunk chunkings of one axis must be unified to a common refinement
    # (common_blockdim); length 3 is too short to tell a wrong walk from a right one
    long_pairs = [((4,), (4,), ops, dts[:4]), ((4,), (1,), ops[:4], dts[:1]), ((5,), (5,), ["+", "<", "maximum", "**"], dts[:1])]
    if tier == "thorough":
        long_pairs = [((4,), (4,), ops, dts[:8]), ((5,), (5,), ops, dts[:2]), ((2, 4), (2, 4), ["+", "<", "maximum", "**"], dts[:1]), ((6,), (6,), ["+", "<"], dts[:1])]
    for sa, sb, lops, ldts in long_pairs:
        for ka, kb in (("d", "d"), ("d", "n"), ("n", "d")):
            for ta, tb in ldts:
                for A in operand_variants(sa, ta, [ka], all_chunkings):
                    for B in operand_variants(sb, tb, [kb], all_chunkings):
                        for op in lops:
                            yield ("bin", op, A, B)


DT_SHAPE_PAIRS_Q = [((3,), (3,)), ((2, 3), (1, 3)), ((2, 1), (3,))]
DT_SHAPE_PAIRS_T = DT_SHAPE_PAIRS_Q + [((), (3,)), ((2, 3), (2, 3)), ((0,), (1,))]
# fixed irregular chunkings for the dtype sweep (the chunking sweep is 'binchunk')
DT_CHUNKS = {(3,): ((1, 2),), (2, 3): ((1, 1), (2, 1)), (1, 3): ((1,), (1, 2)), (2, 1): ((1, 1), (1,)), (): (), (0,): ((0,),), (1,): ((1,),)}
DT_CHUNKS_B = {(3,): ((2, 1),), (2, 3): ((2,), (1, 2)), (1, 3): ((1,), (2, 1)), (2, 1): ((2,), (1,)), (): (), (0,): ((0,),), (1,): ((1,),)}


def gen_bindtype(tier):
    pairs = DT_SHAPE_PAIRS_T if tier == "thorough" else DT_SHAPE_PAIRS_Q
    ops = binops(tier, True)
    for ta in DT_ALL:
        for tb in DT_ALL:
            for sa, sb in pairs:
                combos = [("d", "d"), ("d", "n"), ("n", "d")]
                for ka, kb in combos:
                    A = opnd(sa, ta, ka, DT_CHUNKS[sa] if ka == "d" else None)
                    B = opnd(sb, tb, kb, DT_CHUNKS_B[sb] if kb == "d" else None)
                    for op in ops:
                        yield ("bin", op, A, B)
                        if tier == "thorough" and sa != sb:
                            yield ("bin", op, B, A)
            # scalars on either side of a chunked dask array
            for sa in ((3,), (2, 3)) if tier == "thorough" else ((3,),):
                for sk in ("p", "g"):
                    if sk == "p" and not has_py(tb):
                        continue
                    A = opnd(sa, ta, "d", DT_CHUNKS[sa])
                    S = opnd((), tb, sk)
                    for op in ops:
                        yield ("bin", op, A, S)
                        yield ("bin", op, S, A)


def gen_un(tier):
    for fn in UNARY + UNARY_X:
        for tag in DT_ALL:
            for shp in SHAPES:
                for A in operand_variants(shp, tag, ["d"], all_chunkings):
                    yield ("un", fn, A)


W_SHAPES = [(), (3,), (2, 3), (1, 3), (2, 1), (0,)]


def gen_where(tier):
    dts = [("bool", "i8", "f8"), ("i8", "i1", "u1"), ("bool", DT_NAN, "f4")]
    if tier == "thorough":
        dts += [("bool", "c16", "i8"), ("f8", "bool", "bool"), ("bool", "M8[D]", "M8[D]"), ("u1", "f4", "i8")]
    kinds_q = [("d", "d", "d"), ("d", "n", "d"), ("n", "d", "n"), ("d", "d", "n")]
    for sc in W_SHAPES:
        for sx in W_SHAPES:
            for sy in W_SHAPES:
                if compatible(sc, sx, sy) is None:
                    continue
                big = sum(len(all_chunkings(s)) > 1 for s in (sc, sx, sy))
                for tc, tx, ty in dts:
                    for kc, kx, ky in kinds_q:
                        # every chunking of every dask operand; with three multi-chunk operands the quick tier takes
                        # every chunking of two of them and <= 3 of the third (the thorough tier takes all)
                        fy = few_chunkings if (big == 3 and tier == "quick") else all_chunkings
                        for C in operand_variants(sc, tc, [kc], all_chunkings):
                            for X in operand_variants(sx, tx, [kx], all_chunkings):
                                for Y in operand_variants(sy, ty, [ky], fy):
                                    yield ("where", C, X, Y)
    # scalars in any position (python scalar condition takes a separate branch in da.where)
    for tc, tx, ty in [("bool", "i8", "f8"), ("bool", "i1", "i8"), ("bool", "f4", "f8"), ("i8", "u1", "i1"), ("bool", "c16", "f8"), ("bool", "i1", "u1")]:
        for sx in ((3,), (2, 3), (1, 3), (0,), ()):
            for sy in ((3,), (2, 1), (), (0,)):
                if compatible(sx, sy) is None:
                    continue
                for X in operand_variants(sx, tx, ["d", "n", "p", "g"], all_chunkings):
                    for Y in operand_variants(sy, ty, ["d", "n", "p", "g"], all_chunkings):
                        if not (is_dask(X) or is_dask(Y)):
                            continue
                        for cv in (True, False):
                            yield ("where", ("py", cv), X, Y)
                        yield ("where", opnd((), tc, "g"), X, Y)
                for C in operand_variants(sx, tc, ["d"], all_chunkings):
                    for ky in ("p", "g"):
                        for kx in ("p", "g", "n"):
                            X = opnd((), tx, kx)
                            Y = opnd((), ty, ky)
                            if (kx == "p" and not has_py(tx)) or (ky == "p" and not has_py(ty)):
                                continue
                            yield ("where", C, X, Y)


UFW_FUNCS = [("add", 2), ("multiply", 2), ("less", 2), ("negative", 1), ("sqrt", 1)]
# (dtype a, dtype b, dtype of out) -- the last row has an out= array WIDER than the natural result dtype (NumPy casts into it)
UFW_DTS = [("i8", "i8", None), ("f8", "i1", None), ("f4", "f4", None), ("i8", "i8", "f8")]


def natural_out(fn, nin, ta, tb):
    if fn == "less":
        return "bool"
    if fn == "sqrt":
        return np.sqrt(np.zeros(1, np_dtype(ta))).dtype.name
    return np.result_type(np_dtype(ta), np_dtype(tb) if nin == 2 else np_dtype(ta)).name


def gen_ufw(tier):
    shapes = [((2, 3), (1, 3)), ((3,), (3,)), ((2, 1), (3,)), ((3,), ()), ((0,), (1,))]
    t = tier == "thorough"
    for fn, nin in UFW_FUNCS:
        if fn == "multiply" and not t:
            continue
        for sa, sb in shapes:
            if nin == 1:
                sb = ()
            res = compatible(sa, sb)
            for ta, tb, tout in UFW_DTS:
                if tout is not None and fn in ("less", "sqrt"):
                    continue
                for A in operand_variants(sa, ta, ["d"], all_chunkings if t else few_chunkings):
                    Bs = [None] if nin == 1 else list(operand_variants(sb, tb, ["d", "n"], all_chunkings if t else few_chunkings))
                    for B in Bs:
                        ws = [None, ("py", True), ("py", False)]
                        for sw in sorted({res, (res[-1],) if res else (), ()}):
                            ws += list(operand_variants(tuple(sw), "bool", ["d", "n"], all_chunkings if t else few_chunkings))
                        for W in ws:
                            odt = tout or natural_out(fn, nin, ta, tb)
                            outs = [None] + list(operand_variants(res, odt, ["d"], all_chunkings if (t or W is None) else few_chunkings))
                            if tout is not None:
                                outs = outs[1:3]  # the recorded out-dtype defect: two chunkings are enough
                            for O in outs:
                                if W is None and O is None:
                                    continue
                                yield ("ufw", fn, (A,) if nin == 1 else (A, B), W, O)


def gen_astype(tier):
    for ta in DT_ALL:
        for tb in DT_CORE + DT_TIME + ["i4", "u8", "f2", "c8", "m8[s]", "M8[s]"]:
            for shp in [(3,), (2, 3), (0,), (), (2, 0)] + ([(1, 3), (2, 1), (1,)] if tier == "thorough" else []):
                for A in operand_variants(shp, ta, ["d"], all_chunkings):
                    for kw in ((), (("casting", "same_kind"),), (("casting", "safe"),), (("copy", False),)):
                        yield ("astype", A, tb, kw)


def gen_clip(tier):
    # styles: Array.clip(lo, hi); da.clip(x, lo, hi); np.clip(dask, lo, hi) (dispatch); Array.clip(min=lo, max=hi).
    # da.clip(x, min=..., max=...) is NOT in the alphabet: da.clip is elemwise(np.clip, ...) and elemwise refuses every keyword
    # argument with an explicit TypeError (a refused calling convention, not a wrong result).
    dts = [("i8", "i8", "i8"), ("f8", "i8", "f8"), ("i1", "i1", "i8"), (DT_NAN, "f8", "f8"), ("u1", "i8", "u1"), ("f4", "f4", "f4")]
    t = tier == "thorough"
    for style in ("method", "func", "np", "mkw"):
        for tx, tl, th in dts if (t or style in ("method", "func")) else dts[:2]:
            for sx in ((3,), (2, 3), (0,), ()):
                for A in operand_variants(sx, tx, ["d"], all_chunkings if (t or style == "func") else few_chunkings):
                    bl = [None] + [opnd((), tl, k) for k in ("p", "g") if k == "g" or has_py(tl)]
                    bh = [None] + [opnd((), th, k) for k in ("p", "g") if k == "g" or has_py(th)]
                    for sb in sorted({sx, sx[-1:]}):
                        if sb == ():
                            continue
                        bl += list(operand_variants(tuple(sb), tl, ["d", "n"], few_chunkings))
                        bh += list(operand_variants(tuple(sb), th, ["d", "n"] if t else ["d"], few_chunkings if t else (lambda s: few_chunkings(s)[:1])))
                    for LO in bl:
                        for HI in bh:
                            if LO is None and HI is None:
                                continue
                            yield ("clip", style, A, LO, HI)


def zero_chunkings(shape, maxparts=3):
    """every partitioning of every axis into <= maxparts chunks, EMPTY chunks allowed (leading, inner, trailing)"""
    per_axis = [list(enums.compositions_with_zeros(n, maxparts if n > 2 else 2)) for n in shape]
    return [tuple(c) for c in itertools.product(*per_axis)]


def few_zero_chunkings(shape):
    """3 chunkings: single chunk, trailing empty chunk, leading empty chunk"""
    out = []
    for pick in (lambda n: (n,), lambda n: (1, n - 1, 0) if n > 1 else (n, 0), lambda n: (0, n - 2, 2) if n > 2 else (0, n)):
        out.append(tuple(pick(n) for n in shape))
    return out


def gen_zchunk(tier):
    """chunkings WITH zero-length chunks: operands whose chunk lists on a shared axis differ and end / start / contain
    empty chunks must still be unified (common_blockdim) and give NumPy's result"""
    t = tier == "thorough"
    z = zero_chunkings
    ops = ["+", "<", "maximum", "**"] if not t else list(OPERATORS) + BIN_UFUNCS
    # binary: every pair of such chunkings
    pairs = [((4,), (4,)), ((5,), (5,)), ((2, 4), (4,))] + ([((2, 4), (1, 4)), ((2, 4), (2, 4)), ((6,), (6,))] if t else [])
    for sa, sb in pairs:
        big = sa != (4,)
        for A in operand_variants(sa, "i8", ["d"], z):
            for B in operand_variants(sb, "f8", ["d"], z):
                for op in ops[:2] if (big and not t) else ops:
                    yield ("bin", op, A, B)
    if not t:  # a broadcast (length-1) axis that is itself split into (0,1) / (1,0): 3 chunkings of the long operand x every chunking of the short one
        for A in operand_variants((2, 4), "i8", ["d"], few_zero_chunkings):
            for B in operand_variants((1, 4), "f8", ["d"], z):
                yield ("bin", "+", A, B)
    for sa, sb in pairs:
        for A in operand_variants(sa, "i8", ["d"], z):
            yield ("bin", "+", A, opnd(sb, "f8", "n"))
            yield ("bin", "<", opnd(sb, "f8", "n"), A)
    # where / clip / ufunc(where=, out=): two operands take every pair of chunkings, the others 3 (single, trailing empty, leading empty)
    for shp in [(4,)] if not t else [(4,), (5,), (2, 4)]:
        fz = few_zero_chunkings
        for P in operand_variants(shp, "bool", ["d"], z):
            for Q in operand_variants(shp, "i8", ["d"], z):
                for R in operand_variants(shp, "f8", ["d"], fz):
                    yield ("where", P, Q, R)
        for Q in operand_variants(shp, "i8", ["d"], z):
            for R in operand_variants(shp, "f8", ["d"], z):
                for P in operand_variants(shp, "bool", ["d"], fz):
                    yield ("where", P, Q, R)
                yield ("clip", "func", R, Q, opnd((), "f8", "p"))
                yield ("clip", "method", R, None, Q)
                for W in operand_variants(shp, "bool", ["d"], fz):
                    yield ("ufw", "add", (Q, R), W, None)
                    yield ("ufw", "add", (Q, R), W, opnd(shp, "f8", "d", fz(shp)[1]))
        for Q in operand_variants(shp, "f8", ["d"], z):
            for W in operand_variants(shp, "bool", ["d"], z):
                yield ("ufw", "negative", (Q,), W, opnd(shp, "f8", "d", fz(shp)[2]))
                yield ("ufw", "sqrt", (Q,), W, None)


GEN = {"zchunk": gen_zchunk, "binchunk": gen_binchunk, "bindtype": gen_bindtype, "un": gen_un, "where": gen_where, "ufw": gen_ufw, "astype": gen_astype, "clip": gen_clip}


def cases_of(shard, tier):
    fam, part, k = shard
    for i, case in enumerate(GEN[fam](tier)):
        if i % k == part:
            yield case


# --------------------------------------------------------------------------------------------- evaluation
def known_class(case):
    """narrow input classes of recorded findings (C19.findings.json); appended to the finding key"""
    if case[0] == "ufw" and case[4] is not None:
        fn, ins, O = case[1], case[2], case[4]
        nat = natural_out(fn, len(ins), ins[0][1], ins[-1][1])
        if np_dtype(O[1]) != np.dtype(nat):
            return "out-dtype-differs"
    if case[0] == "bin" and all(o[2] in "dn" for o in case[2:4]):
        # an axis of length 1 split into several chunks (one of them empty) that must be broadcast against a longer axis
        A, B = case[2], case[3]
        for X, Y in ((A, B), (B, A)):
            if X[2] == "d" and X[3]:
                for k in range(1, len(X[0]) + 1):
                    if X[0][-k] == 1 and len(X[3][-k]) > 1 and k <= len(Y[0]) and Y[0][-k] > 1:
                        return "size1-axis-empty-chunk"
    if case[0] == "bin" and case[1] in ("==", "!=") and case[2][2] in ("n", "g") and case[3][2] == "d":
        try:
            np.equal(np.zeros(1, np_dtype(case[2][1])), np.zeros(1, np_dtype(case[3][1])))
        except TypeError:  # no common comparison loop (datetime vs number ...): ndarray.__eq__ answers all-False
            return "eq-incomparable-numpy-left"
    return None


def resolve(name):
    """-> (callable applied to dask operands, callable applied to numpy operands)"""
    import dask.array as da

    if name in OPS:
        return OPS[name], OPS[name]
    if name.startswith("op:"):
        f = getattr(operator, name[3:])
        return f, f
    if name.startswith("np:"):
        f = getattr(np, name[3:])
        return f, f
    return getattr(da, name), getattr(np, name)


def build(case, seed):
    """-> (f_da, f_np, operands, mask_fn) ; f_* are thunks; mask_fn(np result) -> boolean mask of comparable cells or None"""
    import dask.array as da

    kind = case[0]
    if kind == "bin":
        _, op, A, B = case
        fd, fn = resolve(op)
        a, xa = make(A, seed, 0)
        b, xb = make(B, seed, 1)
        return (lambda: fd(a, b)), (lambda: fn(xa, xb)), [A, B], None
    if kind == "un":
        _, name, A = case
        fd, fn = resolve(name)
        a, xa = make(A, seed, 0)
        return (lambda: fd(a)), (lambda: fn(xa)), [A], None
    if kind == "where":
        _, C, X, Y = case
        if C[0] == "py":
            c = xc = C[1]
        else:
            c, xc = make(C, seed, 2)
        x, xx = make(X, seed, 0)
        y, xy = make(Y, seed, 1)
        return (lambda: da.where(c, x, y)), (lambda: np.where(xc, xx, xy)), [o for o in (C, X, Y) if o[0] != "py"], None
    if kind == "ufw":
        _, name, ins, W, O = case
        fd, fn = getattr(da, name), getattr(np, name)
        made = [make(o, seed, i) for i, o in enumerate(ins)]
        dargs = [m[0] for m in made]
        nargs = [m[1] for m in made]
        kd, kn = {}, {}
        wn = None
        if W is not None:
            if W[0] == "py":
                kd["where"] = kn["where"] = wn = W[1]
            else:
                kd["where"], kn["where"] = make(W, seed, 3)
                wn = kn["where"]
        if O is not None:
            od, on = make(O, seed, 5)
            on = on.copy()
            kd["out"], kn["out"] = od, on

            def f_da():
                r = fd(*dargs, **kd)
                if r is not od:
                    raise AssertionError("ufunc(out=o) did not return o")
                return r

            def f_np():
                fn(*nargs, **kn)
                return on

            return f_da, f_np, list(ins) + [o for o in (W, O) if o is not None and o[0] != "py"], None

        def mask(res):
            return np.broadcast_to(np.asarray(wn, dtype=bool), np.shape(res))

        return (lambda: fd(*dargs, **kd)), (lambda: fn(*nargs, **kn)), list(ins) + ([W] if W[0] != "py" else []), mask
    if kind == "astype":
        _, A, to, kw = case
        a, xa = make(A, seed, 0)
        kw = dict(kw)
        return (lambda: a.astype(to, **kw)), (lambda: xa.astype(to, **kw)), [A], None
    if kind == "clip":
        _, style, A, LO, HI = case
        a, xa = make(A, seed, 0)
        lo, xlo = (None, None) if LO is None else make(LO, seed, 1)
        hi, xhi = (None, None) if HI is None else make(HI, seed, 2)
        if style == "method":
            return (lambda: a.clip(lo, hi)), (lambda: xa.clip(xlo, xhi)), [A, LO, HI], None
        if style == "func":
            return (lambda: da.clip(a, lo, hi)), (lambda: np.clip(xa, xlo, xhi)), [A, LO, HI], None
        if style == "np":
            return (lambda: np.clip(a, lo, hi)), (lambda: np.clip(xa, xlo, xhi)), [A, LO, HI], None
        return (lambda: a.clip(min=lo, max=hi)), (lambda: xa.clip(min=xlo, max=xhi)), [A, LO, HI], None
    raise ValueError(kind)


def equal(got, want):
    """arr.equal, with NaT == NaT for datetime/timedelta results (compared through their int64 representation)"""
    if got.dtype == want.dtype and got.dtype.kind in "mM" and got.shape == want.shape:
        got, want = got.view("i8"), want.view("i8")
    return arr.equal(got, want)


def run_case(case, ctx):
    kind = case[0]
    f_da, f_np, opds, mask_fn = build(case, ctx.seed)
    opds = [o for o in opds if o is not None]
    shapes = {tuple(o[0]) for o in opds}
    nontrivial = any(n_chunks(o) >= 2 for o in opds) or len(shapes) >= 2
    sub = known_class(case)
    suffix = f":{sub}" if sub else ""
    with warnings.catch_warnings():
        warnings.simplefilter("ignore")
        with np.errstate(all="ignore"):
            try:
                want = np.asanyarray(f_np())
                np_exc = None
            except Hang:
                raise
            except Exception as e:  # noqa: BLE001  (NumPy rejects the dtype combination / values)
                want, np_exc = None, e
            r = None
            try:
                r = f_da()
                if hasattr(r, "__dask_graph__"):
                    got, problem = arr.compute_blocks(r)
                else:
                    got, problem = np.asanyarray(r), None
                d_exc = None
            except Hang:
                raise
            except Exception as e:  # noqa: BLE001
                got, problem, d_exc = None, None, e
    ctx.case(case, nontrivial=nontrivial, outcome=(None if want is None else (want.shape, want.dtype.str), type(np_exc).__name__, type(d_exc).__name__))
    if np_exc is not None:
        if d_exc is None:
            ctx.count("inapplicable")  # the reference has no answer; the statement does not demand an error
            ctx.count("numpy_raises_dask_returns")
        else:
            ctx.count("both_raise")
        return
    if d_exc is not None:
        if isinstance(d_exc, NotImplementedError):
            ctx.count("rejected")
            return
        ctx.violation(f"{kind}:dask-raises:{type(d_exc).__name__}{suffix}", case, f"dask raised {d_exc!r}; NumPy gives {want!r}")
        return
    if problem:
        ctx.violation(f"{kind}:lazy-metadata{suffix}", case, problem)
        return
    if got.dtype != want.dtype:
        ctx.violation(f"{kind}:wrong-dtype{suffix}", case, f"computed dtype {got.dtype} != NumPy {want.dtype} (lazy {getattr(r, 'dtype', None)})")
        return
    if hasattr(r, "__dask_graph__") and r.dtype != got.dtype:
        ctx.violation(f"{kind}:lazy-dtype{suffix}", case, f"lazy dtype {r.dtype} != computed {got.dtype} (NumPy {want.dtype})")
        return
    if mask_fn is not None and got.shape == want.shape:
        m = mask_fn(want)
        got, want = got[m], want[m]
    why = equal(got, want)
    if why:
        ctx.violation(f"{kind}:wrong-value{suffix}", case, why)


def run_shard(shard, ctx):
    for case in cases_of(shard, ctx.tier):
        if ctx.out_of_time():
            return
        ctx.guard(case, run_case, case, ctx)


def replay(case, ctx):
    run_case(case, ctx)
