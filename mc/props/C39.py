"""C39 -- joins and concatenation equal pandas (DESIGN 5/C39).  E4: exhaustive small scope.

Every case builds two tiny frames whose partitions are exact consecutive row blocks (from_delayed: empty partitions are
real, divisions known only when truthful), runs the real dask merge / join / merge_asof / concat and compares with the
pandas call on the whole frames.
"""
from __future__ import annotations

import math

from mc import dfh  # FIRST: installs the pyarrow stand-in
from mc import enums
from mc.run import Hang

import numpy as np
import pandas as pd

import dask.dataframe as dd

ID = "C39"
LEVEL = "exploration"
WATCHDOG_S = 30.0
ASSUMPTIONS = [
    "sync scheduler; shuffle_method 'p2p' needs distributed and is not reachable here (tasks and disk are enumerated)",
    "value columns hold distinct integers (seed-chosen permutation) so every output row is traceable to its input rows",
    "merge results are compared as a multiset of rows (index included only when both sides join on the index: otherwise "
    "pandas' result index is positional / dask's is meaningless); concat axis=0 without interleaving and merge_asof are "
    "compared in order",
    "leftsemi has no pandas spelling: reference = left rows whose key tuple occurs among the right keys (NaN matches NaN, "
    "as in every pandas merge); leftsemi is enumerated without indicator",
    "documented refusals are counted, never silent: NotImplementedError, 'merge_asof input must be sorted!', axis=1 concat "
    "with unknown divisions ('Unable to concatenate DataFrame with unknown division', 'Concatenated DataFrames of "
    "different lengths')",
    "dask documents that concat unions categoricals where pandas falls back to object: categorical columns are not in "
    "the concat alphabet",
]

NL, NR = 5, 4  # rows of the left / right frame

HOWS = ("inner", "left", "right", "outer", "leftsemi")
# join strategy = (broadcast, shuffle_method).  None/None = dask's own choice (hash join via the default 'disk' shuffle
# unless its partition-count heuristic picks a broadcast join)
STRATS = {
    "bT": (True, None),
    "bF-tasks": (False, "tasks"),
    "bF-disk": (False, "disk"),
    "bN": (None, None),
    "bN-tasks": (None, "tasks"),
    "b0.9": (0.9, "tasks"),
}
JOIN_STRATS = ("bN", "bN-tasks")  # DataFrame.join has no broadcast argument

MERGE_VARIANTS = {
    "quick": ("mixed", "nan_lr", "two_on", "idx_idx", "col_idx", "join_on"),
    "thorough": (
        "int_on", "nan_lr", "two_on", "idx_idx", "idx_unsorted", "col_idx", "idx_col", "mixed", "join_idx", "join_on",
        "str_none", "nullable", "dt", "idxname_on", "npart3", "cat",
    ),
}
MERGE_STRATS = {"quick": ("bT", "bF-tasks"), "thorough": ("bT", "bF-tasks", "bN", "b0.9")}
# quick: dask's own choice (hash join through the default disk shuffle) only for this scenario -- the disk shuffle itself is C40's subject
QUICK_DEFAULT_STRAT_VARIANTS = ("mixed",)
# *_hi: the right keys extend beyond the last left key, so that right divisions can coincide with the left's LAST division
ASOF_VARIANTS = {"quick": ("on", "index", "index_hi"), "thorough": ("on", "on_hi", "index", "index_hi", "by", "lon_rindex")}
# depth-2 merge programs: one input of the final merge is itself the output of a hash join / shuffle (step 1), so that dask
# may skip re-shuffling it only if its recorded partitioning really co-locates the final join keys
MCHAIN_STEP1 = {"quick": ("merge:k", "shuffle:k", "merge:k+k2"), "thorough": ("merge:k", "shuffle:k", "merge:k2", "shuffle:k2", "merge:k+k2", "shuffle:k+k2")}
MCHAIN_ON2 = ("k", "k+k2")
MCHAIN_HOWS = {"quick": ("inner", "outer"), "thorough": ("inner", "left", "right", "outer", "leftsemi")}
CONCAT_VARIANTS = {
    "quick": ("cols", "series"),
    "thorough": ("same", "cols", "dtype", "series", "three", "str"),
}


# leftsemi is not enumerated where it has no defined result: pandas' DataFrame.join has no such `how`, and when on= names
# an index level of the left frame the layout of a "left row" (level kept as index or turned into a column) is undefined
NO_SEMI = ("join_idx", "join_on", "idxname_on")


def RULE(tier):
    pl, pr = len(_parts(NL, tier)), len(_parts(NR, tier))
    return (
        f"left frame {NL} rows x right frame {NR} rows, EVERY pair of partitionings "
        f"({'<= 2 partitions incl. empty ones plus all 3-partition splits without empty ones' if tier == 'quick' else '<= 3 partitions incl. empty ones plus all 4-partition splits without empty ones'}: "
        f"{pl} x {pr} pairs; known divisions whenever the index is sorted and the cuts are truthful, else unknown). "
        f"merge/join: key scenarios {MERGE_VARIANTS[tier]} (duplicate / unmatched / NaN / None / NA keys, int-vs-float keys, two-column keys, "
        "left_on/right_on, index-index, column-index, index level named in on=, DataFrame.join with on= and suffixes, overlapping "
        f"non-key columns, indicator) x how in {HOWS} x strategy in {MERGE_STRATS[tier]} (broadcast True/False/None/0.9, shuffle tasks/disk"
        f"{'; the default disk-shuffle hash join only for ' + str(QUICK_DEFAULT_STRAT_VARIANTS) if tier == 'quick' else ''}; join: {JOIN_STRATS}). "
        f"merge_asof: {ASOF_VARIANTS[tier]} x direction x allow_exact_matches x tolerance in (None, 2). "
        f"chained merges: step 1 in {MCHAIN_STEP1[tier]} (hash join with a third frame / shuffle) applied to the left or the right input, "
        f"then merge on {MCHAIN_ON2} x how {MCHAIN_HOWS[tier]} (hash join, tasks) over the 117 pairs of <= 2 partitions incl. empty ones / 3 non-empty. "
        f"concat: {CONCAT_VARIANTS[tier]} x axis 0/1 x join inner/outer x interleave_partitions x index layouts "
        "(disjoint ordered, overlapping, unsorted). Oracle: rows (values, dtypes, columns) equal pandas on the whole frames. "
        "non-trivial = at least one side has >= 2 partitions."
    )


# ------------------------------------------------------------------------------------------------ alphabets
def _parts(n, tier):
    if tier == "quick":
        out = list(enums.compositions_with_zeros(n, 2)) + [c for c in enums.compositions(n) if len(c) == 3]
    else:
        out = list(enums.compositions_with_zeros(n, 3)) + [c for c in enums.compositions(n) if len(c) == 4]
    return out


def _perm(n, seed, salt):
    return np.random.RandomState(seed * 7919 + salt).permutation(n)


def merge_pair(variant, seed):
    """-> (L, R, kwargs, check_index).  Keys are fixed (they are the alphabet); value columns are seed-permuted."""
    v = (np.arange(NL) + 10)[_perm(NL, seed, 1)]
    w = (np.arange(NR) + 20)[_perm(NR, seed, 2)]
    xl = (np.arange(NL) + 30)[_perm(NL, seed, 3)]
    xr = (np.arange(NR) + 40)[_perm(NR, seed, 4)]
    ik = [1, 2, 2, 3, 5]
    rk = [2, 2, 3, 4]
    ci = False
    if variant in ("int_on", "npart3"):
        L = pd.DataFrame({"k": ik, "v": v, "x": xl})
        R = pd.DataFrame({"k": rk, "w": w, "x": xr})
        kw = {"on": "k"}
        if variant == "npart3":
            kw["npartitions"] = 3
    elif variant == "nan_lr":
        L = pd.DataFrame({"k": [1.0, np.nan, 2.0, 2.0, np.nan], "v": v})
        R = pd.DataFrame({"rk": [2.0, np.nan, 4.0, np.nan], "w": w})
        kw = {"left_on": "k", "right_on": "rk", "indicator": True}
    elif variant == "two_on":
        L = pd.DataFrame({"k": ["a", "b", "b", "c", "a"], "k2": [0, 1, 0, 1, 0], "v": v, "x": xl})
        R = pd.DataFrame({"k": ["b", "b", "c", "a"], "k2": [0, 1, 1, 1], "w": w, "x": xr})
        kw = {"on": ["k", "k2"], "suffixes": ("_l", "_r")}
    elif variant in ("idx_idx", "join_idx"):
        L = pd.DataFrame({"v": v, "x": xl}, index=pd.Index([1, 1, 2, 4, 4], name="i"))
        R = pd.DataFrame({"w": w, "x": xr}, index=pd.Index([1, 2, 2, 5], name="i"))
        kw = {"left_index": True, "right_index": True} if variant == "idx_idx" else {"join": True, "lsuffix": "_l", "rsuffix": "_r"}
        ci = True
    elif variant == "idx_unsorted":
        L = pd.DataFrame({"v": v}, index=pd.Index([4, 1, 2, 1, 4], name="i"))
        R = pd.DataFrame({"w": w}, index=pd.Index([2, 5, 1, 2], name="i"))
        kw = {"left_index": True, "right_index": True}
        ci = True
    elif variant in ("col_idx", "join_on"):
        L = pd.DataFrame({"k": ik, "v": v})
        R = pd.DataFrame({"w": w}, index=pd.Index([2, 3, 4, 6], name="i"))
        kw = {"left_on": "k", "right_index": True} if variant == "col_idx" else {"join": True, "on": "k"}
    elif variant == "idx_col":
        L = pd.DataFrame({"v": v}, index=pd.Index([1, 2, 2, 3, 5], name="i"))
        R = pd.DataFrame({"k": rk, "w": w})
        kw = {"left_index": True, "right_on": "k"}
    elif variant == "mixed":
        L = pd.DataFrame({"k": np.array(ik, dtype="int64"), "v": v, "x": xl})
        R = pd.DataFrame({"k": np.array([2.0, 2.0, 3.0, 4.5]), "w": w, "x": xr})
        kw = {"on": "k"}
    elif variant == "str_none":
        L = pd.DataFrame({"k": pd.Series(["a", None, "b", "b", None], dtype=object), "v": v})
        R = pd.DataFrame({"k": pd.Series(["b", None, "d", "b"], dtype=object), "w": w})
        kw = {"on": "k"}
    elif variant == "nullable":
        L = pd.DataFrame({"k": pd.array([1, None, 2, 2, None], dtype="Int64"), "v": v})
        R = pd.DataFrame({"k": pd.array([2, None, 4, 2], dtype="Int64"), "w": w})
        kw = {"on": "k"}
    elif variant == "dt":
        t0 = pd.Timestamp("2020-01-01")
        L = pd.DataFrame({"k": [t0 + pd.Timedelta(days=d) for d in ik], "v": v})
        R = pd.DataFrame({"k": [t0 + pd.Timedelta(days=d) for d in rk], "w": w})
        kw = {"on": "k"}
    elif variant == "idxname_on":
        L = pd.DataFrame({"v": v}, index=pd.Index([1, 2, 2, 3, 5], name="k"))
        R = pd.DataFrame({"k": rk, "w": w})
        kw = {"on": "k"}
    elif variant == "cat":
        L = pd.DataFrame({"k": pd.Categorical(["a", "b", "b", "c", "a"], categories=["a", "b", "c"]), "v": v})
        R = pd.DataFrame({"k": pd.Categorical(["b", "b", "c", "a"], categories=["a", "b", "c"]), "w": w})
        kw = {"on": "k"}
    else:
        raise ValueError(variant)
    return L, R, kw, ci


def mchain_frames(seed):
    """left, right (keys k, k2 with duplicates / unmatched combinations) and a third frame C with one row per (k, k2)
    combination: a how='left' merge with C on k, on k2 or on [k, k2]... must keep every row, so C is unique on EACH of them"""
    v = (np.arange(NL) + 10)[_perm(NL, seed, 1)]
    w = (np.arange(NR) + 20)[_perm(NR, seed, 2)]
    L = pd.DataFrame({"k": [1, 2, 2, 3, 5], "k2": [6, 7, 6, 7, 6], "v": v})
    R = pd.DataFrame({"k": [2, 2, 3, 4], "k2": [6, 7, 7, 6], "w": w})
    # unique in k and unique in k2 (so also unique in the pair); covers some, not all, keys of L and R
    C = pd.DataFrame({"k": [1, 2, 3, 4, 5, 0, 8, 9], "k2": [6, 7, 1, 2, 3, 4, 5, 0], "c": np.arange(8) + 50})
    return L, R, C


def asof_pair(variant, seed):
    v = (np.arange(NL) + 10)[_perm(NL, seed, 1)]
    w = (np.arange(NR) + 20)[_perm(NR, seed, 2)]
    lt, rt = [1, 3, 3, 6, 9], [0, 1, 3, 7]  # right keys below / equal to the first left key, exact ties, gaps
    if variant.endswith("_hi"):
        rt = [3, 6, 9, 11]  # right keys up to and beyond the last left key (ties at 3, 6, 9)
        variant = variant[:-3]
    if variant == "on":
        L = pd.DataFrame({"t": lt, "v": v})
        R = pd.DataFrame({"t": rt, "w": w})
        kw = {"on": "t"}
    elif variant == "index":
        L = pd.DataFrame({"v": v}, index=pd.Index(lt, name="t"))
        R = pd.DataFrame({"w": w}, index=pd.Index(rt, name="t"))
        kw = {"left_index": True, "right_index": True}
    elif variant == "by":
        L = pd.DataFrame({"t": lt, "g": [0, 1, 0, 1, 0], "v": v})
        R = pd.DataFrame({"t": rt, "g": [0, 0, 1, 0], "w": w})
        kw = {"on": "t", "by": "g"}
    elif variant == "lon_rindex":
        L = pd.DataFrame({"t": lt, "v": v})
        R = pd.DataFrame({"w": w}, index=pd.Index(rt, name="rt"))
        kw = {"left_on": "t", "right_index": True}
    else:
        raise ValueError(variant)
    return L, R, kw


CONCAT_LAYOUTS = ("disjoint", "overlap", "unsorted")


def concat_frames(variant, layout, seed):
    """-> list of pandas objects (first has NL rows, second NR rows, optional third NR rows)"""
    a = (np.arange(NL) + 10)[_perm(NL, seed, 1)]
    b = (np.arange(NR) + 20)[_perm(NR, seed, 2)]
    c = (np.arange(NR) + 30)[_perm(NR, seed, 3)]
    if layout == "disjoint":
        ia, ib, ic = [0, 1, 2, 3, 4], [10, 11, 12, 13], [20, 21, 22, 23]
    elif layout == "overlap":
        ia, ib, ic = [0, 1, 2, 3, 4], [1, 2, 5, 6], [0, 4, 5, 9]
    else:
        ia, ib, ic = [3, 0, 4, 1, 2], [2, 6, 1, 5], [9, 4, 0, 5]
    ia, ib, ic = (pd.Index(i, name="i") for i in (ia, ib, ic))
    if variant in ("same", "three"):
        fr = [pd.DataFrame({"a": a, "b": a * 2}, index=ia), pd.DataFrame({"a": b, "b": b * 2}, index=ib)]
        if variant == "three":
            fr.append(pd.DataFrame({"a": c, "b": c * 2}, index=ic))
    elif variant == "cols":
        fr = [pd.DataFrame({"a": a, "b": a * 2}, index=ia), pd.DataFrame({"b": b, "c": b * 2}, index=ib)]
    elif variant == "dtype":
        fr = [pd.DataFrame({"a": a, "b": a * 2}, index=ia), pd.DataFrame({"a": b + 0.5, "b": b * 2}, index=ib)]
    elif variant == "series":
        fr = [pd.Series(a, index=ia, name="a"), pd.Series(b, index=ib, name="s2")]
    elif variant == "str":
        fr = [
            pd.DataFrame({"a": a, "s": pd.Series(["p", "q", None, "r", "p"], dtype=object).values}, index=ia),
            pd.DataFrame({"a": b, "s": pd.Series(["q", "z", "z", None], dtype=object).values}, index=ib),
        ]
    else:
        raise ValueError(variant)
    return fr


# ------------------------------------------------------------------------------------------------ shards / cases
def shards(tier):
    out = []
    for var in MERGE_VARIANTS[tier]:
        for how in HOWS:
            if how == "leftsemi" and var in NO_SEMI:
                continue
            strats = JOIN_STRATS if var.startswith("join") else MERGE_STRATS[tier]
            if tier == "quick" and var.startswith("join"):
                strats = ("bN-tasks",)  # the default (disk) hash join is enumerated for QUICK_DEFAULT_STRAT_VARIANTS
            if tier == "quick" and var in QUICK_DEFAULT_STRAT_VARIANTS:
                strats = strats + ("bN",)
            for st in strats:
                if how == "outer" and STRATS[st][0] not in (None, False):
                    continue  # an outer join is never a broadcast join: same plan as broadcast=False
                out.append(("merge", var, how, st))
    for var in ASOF_VARIANTS[tier]:
        for direction in ("backward", "forward", "nearest"):
            out.append(("asof", var, direction))
    for s1 in MCHAIN_STEP1[tier]:
        for side in ("left", "right"):
            for on2 in MCHAIN_ON2:
                for how in MCHAIN_HOWS[tier]:
                    out.append(("mchain", s1, side, on2, how))
    for var in CONCAT_VARIANTS[tier]:
        for layout in CONCAT_LAYOUTS:
            for axis in (0, 1):
                out.append(("concat", var, layout, axis))
    # simplest first is per-shard (partitionings are enumerated smallest first); interleave kinds so that a capped run
    # still touches all three operations
    return out


def cases_of(shard, tier):
    pl, pr = _parts(NL, tier), _parts(NR, tier)
    kind = shard[0]
    if kind == "merge":
        _, var, how, st = shard
        for lp in pl:
            for rp in pr:
                yield ("merge", var, how, st, lp, rp)
    elif kind == "asof":
        _, var, direction = shard
        for lp in pl:
            for rp in pr:
                for exact in (True, False):
                    for tol in (None, 2):
                        yield ("asof", var, direction, exact, tol, lp, rp)
    elif kind == "mchain":
        _, s1, side, on2, how = shard
        # both tiers: the 117 pairs (<= 2 partitions incl. empty ones, or 3 non-empty); thorough widens steps and hows
        for lp in _parts(NL, "quick"):
            for rp in _parts(NR, "quick"):
                yield ("mchain", s1, side, on2, how, lp, rp)
    elif kind == "concat":
        _, var, layout, axis = shard
        for lp in pl:
            for rp in pr:
                for join in ("outer", "inner"):
                    for inter in (False, True):
                        if axis == 1 and inter:
                            continue  # interleave_partitions has no meaning for axis=1
                        yield ("concat", var, layout, axis, join, inter, lp, rp)


# ------------------------------------------------------------------------------------------------ references
def _keys_frame(df, on, use_index):
    if use_index:
        return pd.DataFrame({"__k0": df.index.values})
    on = on if isinstance(on, list) else [on]
    cols = {}
    for j, c in enumerate(on):
        cols[f"__k{j}"] = (df[c].values if c in df.columns else df.index.values)
    return pd.DataFrame(cols)


def semi_reference(L, R, kw):
    """rows of L (in L's order) whose key tuple occurs among R's keys -- by an inner pandas merge against the
    de-duplicated right keys, so NaN/None/NA keys match exactly as they do in a pandas merge"""
    lon = kw.get("left_on", kw.get("on"))
    ron = kw.get("right_on", kw.get("on"))
    lk = _keys_frame(L, lon, kw.get("left_index", False))
    rk = _keys_frame(R, ron, kw.get("right_index", False)).drop_duplicates()
    lk["__row"] = np.arange(len(L))
    hit = lk.merge(rk, how="inner", on=[c for c in rk.columns])["__row"].values
    return L.iloc[np.sort(hit)]


def merge_reference(L, R, kw, how):
    kw = dict(kw)
    kw.pop("npartitions", None)
    if kw.pop("join", False):
        return L.join(R, how=how, **kw)
    if how == "leftsemi":
        return semi_reference(L, R, kw)
    return L.merge(R, how=how, **kw)


# ------------------------------------------------------------------------------------------------ known findings
def _broadcast_side(case):
    """None, or the side ('left'/'right') dask broadcasts for this merge case -- restated from the documented rules:
    broadcast joins exist for inner/left/right/leftsemi when `broadcast` is True (or a bias b with n_small < log2(n_big)*b;
    default bias 0.5), never for the side that `how` must preserve, never when one side has a single partition that can
    simply be merged into every partition of the other, never when both sides join on an index with known divisions."""
    _, var, how, st, lp, rp = case
    nl, nr = len(lp), len(rp)
    if how == "outer":
        return None
    if max(nl, nr) == 1 or (nl == 1 and how in ("right", "inner")) or (nr == 1 and how in ("left", "inner", "leftsemi")):
        return None
    L, R, kw, _ = merge_pair(var, 0)
    li = kw.get("left_index", False) or (kw.get("join", False) and "on" not in kw)
    ri = kw.get("right_index", False) or kw.get("join", False)
    if li and ri and dfh.divisions_for(L, lp) is not None and dfh.divisions_for(R, rp) is not None:
        return None
    side = "left" if nl < nr else "right"
    if how == side:
        return None
    b = STRATS[st][0]
    if b is False:
        return None
    bias = 0.5 if b is None or b is True else b
    if b is True or min(nl, nr) < math.log2(max(nl, nr)) * bias:
        return side
    return None


def known_class(case, failure):
    """narrow input classes of recorded findings (C39.findings.json); appended to the finding key"""
    kind = case[0]
    if kind == "merge":
        _, var, how, st, lp, rp = case
        kw = merge_pair(var, 0)[2]
        li = kw.get("left_index", False)
        ri = kw.get("right_index", False) or kw.get("join", False)
        if failure == "dask-raises:TypeError" and how == "leftsemi" and li and not ri:
            return "leftsemi-left-index"
        side = _broadcast_side(case)
        if failure == "wrong-rows" and side and "npartitions" in kw:
            # npartitions= repartitions the NON-broadcast side; does that flip which side is the smaller one?
            n = kw["npartitions"]
            nl2, nr2 = (len(lp), n) if side == "left" else (n, len(rp))
            if ("left" if nl2 < nr2 else "right") != side:
                return "npartitions-flips-broadcast-side"
        if failure == "wrong-rows" and how == "leftsemi" and side == "left":
            return "leftsemi-broadcast-left"
        if failure == "dask-raises:ValueError" and how in ("left", "right") and ((side == "left" and ri) or (side == "right" and li)):
            return "broadcast-other-side-on-index"
    if kind == "asof":
        lp, rp = case[-2], case[-1]
        if failure in ("wrong-rows", "dask-raises:AssertionError", "dask-raises:ValueError") and (0 in lp or 0 in rp) and not case[1].startswith("index"):
            return "empty-partition"
    return None


# ------------------------------------------------------------------------------------------------ evaluation
def _refusal(e):
    if dfh.classify_exc(e) in ("rejected", "out_of_scope"):
        return dfh.classify_exc(e)
    msg = str(e)
    if isinstance(e, ValueError) and (
        "merge_asof input must be sorted" in msg
        or "Unable to concatenate DataFrame with unknown division" in msg
        or "Concatenated DataFrames of different lengths" in msg
        or "All inputs have known divisions which cannot be concatenated" in msg
    ):
        return "rejected"
    return None


def run_case(case, ctx):
    kind = case[0]
    lp, rp = case[-2], case[-1]
    nontrivial = len(lp) >= 2 or len(rp) >= 2
    ordered, check_index = False, True
    if kind == "merge":
        _, var, how, st, lp, rp = case
        L, R, kw, check_index = merge_pair(var, ctx.seed)
        kw = dict(kw)
        if how == "leftsemi":
            kw.pop("indicator", None)
        bc, method = STRATS[st]
        op, detail_op = "merge", var

        def f_pd():
            return merge_reference(L, R, kw, how)

        def f_dd():
            l, r = dfh.build(L, lp), dfh.build(R, rp)
            k = dict(kw)
            if k.pop("join", False):
                return l.join(r, how=how, shuffle_method=method, **k)
            return dd.merge(l, r, how=how, broadcast=bc, shuffle_method=method, **k)

    elif kind == "asof":
        _, var, direction, exact, tol, lp, rp = case
        L, R, kw = asof_pair(var, ctx.seed)
        op, detail_op = "asof", var
        ordered = True
        check_index = not (var.startswith("on") or var == "by")
        kw = dict(kw, direction=direction, allow_exact_matches=exact, tolerance=tol)

        def f_pd():
            return pd.merge_asof(L, R, **kw)

        def f_dd():
            return dd.merge_asof(dfh.build(L, lp), dfh.build(R, rp), **kw)

    elif kind == "mchain":
        _, s1, side, on2, how, lp, rp = case
        L, R, C = mchain_frames(ctx.seed)
        op, detail_op = "mchain", f"{s1}-{side}-{on2}"
        check_index = False
        op1, k1 = s1.split(":")
        K1 = k1.split("+") if "+" in k1 else k1
        K2 = on2.split("+") if "+" in on2 else on2
        C = C[(K1 if isinstance(K1, list) else [K1]) + ["c"]]  # only the step-1 keys and the payload

        def f_pd():
            l, r = L, R
            if op1 == "merge":  # how='left' against unique keys: keeps every row, adds column c
                if side == "left":
                    l = l.merge(C, on=K1, how="left")
                else:
                    r = r.merge(C, on=K1, how="left")
            return merge_reference(l, r, {"on": K2}, how)

        def f_dd():
            l, r = dfh.build(L, lp), dfh.build(R, rp)
            x = l if side == "left" else r
            if op1 == "merge":
                x = dd.merge(x, dfh.build(C, (4, 4)), on=K1, how="left", broadcast=False, shuffle_method="tasks")
            else:
                x = x.shuffle(K1, shuffle_method="tasks")
            l, r = (x, r) if side == "left" else (l, x)
            return dd.merge(l, r, how=how, on=K2, broadcast=False, shuffle_method="tasks")

    elif kind == "concat":
        _, var, layout, axis, join, inter, lp, rp = case
        frames = concat_frames(var, layout, ctx.seed)
        op, detail_op = f"concat{axis}", var
        # order: axis=0 stacks the inputs' partitions in order unless dask interleaves them by divisions; axis=1 aligns
        # on the index, whose order is the (sorted) divisions' in dask and order of appearance in pandas
        ordered = axis == 0 and not inter

        def f_pd():
            return pd.concat(frames, axis=axis, join=join)

        def f_dd():
            ps = [lp, rp, rp][: len(frames)]
            ds = [dfh.build(f, p) if isinstance(f, pd.DataFrame) else dfh.build_series(f, p) for f, p in zip(frames, ps)]
            return dd.concat(ds, axis=axis, join=join, interleave_partitions=inter, ignore_unknown_divisions=True)

    else:
        raise ValueError(kind)

    try:
        want, p_exc = f_pd(), None
    except Exception as e:  # noqa: BLE001
        want, p_exc = None, e
    try:
        lazy = f_dd()
        got, d_exc = lazy.compute(), None
    except Hang:
        raise
    except Exception as e:  # noqa: BLE001
        got, d_exc = None, e
    ctx.case(case, nontrivial=nontrivial, outcome=(kind, case[1], case[2], None if want is None else want.shape, type(d_exc).__name__))
    if p_exc is not None:
        # the reference itself refuses the call: dask may do anything (G4)
        ctx.count("both_raise" if d_exc is not None else "inapplicable")
        return
    if d_exc is not None:
        r = _refusal(d_exc)
        if r:
            ctx.count(r)
            return
        _report(ctx, case, op, detail_op, f"dask-raises:{type(d_exc).__name__}", f"dask raised {d_exc!r}; pandas gives\n{want!r}")
        return
    got, want = _plain_index(got), _plain_index(want)
    why = dfh.equal(got, want, ordered=ordered, check_index=check_index)
    if why:
        # classify: same multiset of values but different dtypes / order vs different rows
        loose = dfh.equal(got, want, ordered=False, check_dtype=False, check_index=check_index, check_names=False)
        if loose is None:
            strict_unordered = dfh.equal(got, want, ordered=False, check_index=check_index)
            cls = "wrong-order" if strict_unordered is None else "wrong-dtype"
        else:
            cls = "wrong-rows"
        _report(ctx, case, op, detail_op, cls, f"{why}\n got:\n{got!r}\n want:\n{want!r}")


def _plain_index(obj):
    """RangeIndex and Index[int64] with the same labels are the same index: compare labels and dtype, not the class"""
    if isinstance(obj, (pd.DataFrame, pd.Series)) and isinstance(obj.index, pd.RangeIndex):
        obj = obj.copy()
        obj.index = pd.Index(np.asarray(obj.index), name=obj.index.name)
    return obj


def _report(ctx, case, op, variant, failure, detail):
    """recorded defects get ONE key per defect ("<op>:<failure>:<input class>") whatever the key scenario; anything else
    keeps the scenario in the key so that unrelated failures are reported separately"""
    sub = known_class(case, failure)
    key = f"{op}:{failure}:{sub}" if sub else f"{op}-{variant}:{failure}"
    ctx.violation(key, case, detail)


def _with_tmpdir(fn):
    """the disk shuffle spills to <temporary_directory>/*.partd and only cleans up at interpreter exit: give it a
    private directory and remove it"""
    import shutil
    import tempfile

    import dask

    tmp = tempfile.mkdtemp(prefix="mc-c39-")
    try:
        with dask.config.set(temporary_directory=tmp):
            return fn()
    finally:
        shutil.rmtree(tmp, ignore_errors=True)


def run_shard(shard, ctx):
    def body():
        for case in cases_of(shard, ctx.tier):
            if ctx.out_of_time():
                return
            ctx.guard(case, run_case, case, ctx)

    _with_tmpdir(body)


def replay(case, ctx):
    _with_tmpdir(lambda: run_case(case, ctx))
