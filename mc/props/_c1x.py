"""Shared by C13/C14/C15: type-strict structural equality of computed Python / NumPy / pandas values."""
from __future__ import annotations

import collections
import dataclasses

import numpy as np

from mc import dfh  # noqa: F401  (pyarrow stand-in + dask.dataframe)

import pandas as pd  # noqa: E402


def same(x, y):
    """None if equal else reason.  Types, dtypes, shapes and values must match (1 != 1.0 != True)."""
    if isinstance(x, (pd.DataFrame, pd.Series, pd.Index)) or isinstance(y, (pd.DataFrame, pd.Series, pd.Index)):
        if type(x) is not type(y):
            return f"type {type(x).__name__} != {type(y).__name__}"
        return dfh.equal(x, y, ordered=True, rtol=0)
    if isinstance(x, np.ndarray) or isinstance(y, np.ndarray):
        if not (isinstance(x, np.ndarray) and isinstance(y, np.ndarray)):
            return f"type {type(x).__name__} != {type(y).__name__}"
        if x.dtype != y.dtype or x.shape != y.shape:
            return f"array {x.dtype}{x.shape} != {y.dtype}{y.shape}"
        if x.dtype == object:
            for p, q in zip(x.ravel().tolist(), y.ravel().tolist()):
                r = same(p, q)
                if r:
                    return f"object array element: {r}"
            return None
        ok = np.array_equal(x, y, equal_nan=True) if x.dtype.kind in "fc" else np.array_equal(x, y)
        return None if ok else f"array values {x.tolist()!r} != {y.tolist()!r}"
    if type(x) is not type(y):
        return f"type {type(x).__name__}({x!r}) != {type(y).__name__}({y!r})"
    if dataclasses.is_dataclass(x) and not isinstance(x, type):
        return same(
            [(f.name, getattr(x, f.name, "<unset>")) for f in dataclasses.fields(x)],
            [(f.name, getattr(y, f.name, "<unset>")) for f in dataclasses.fields(y)],
        )
    if isinstance(x, collections.OrderedDict):
        return same(list(x.items()), list(y.items()))
    if isinstance(x, (list, tuple)):
        if len(x) != len(y):
            return f"len {len(x)} != {len(y)}: {x!r} != {y!r}"
        for p, q in zip(x, y):
            r = same(p, q)
            if r:
                return r
        return None
    if isinstance(x, dict):
        kx = sorted(x, key=lambda v: (type(v).__name__, repr(v)))
        ky = sorted(y, key=lambda v: (type(v).__name__, repr(v)))
        r = same(kx, ky)
        if r:
            return f"dict keys: {r}"
        for p, q in zip(kx, ky):
            r = same(x[p], y[q])
            if r:
                return r
        return None
    if isinstance(x, (set, frozenset)):
        return same(sorted(x, key=lambda v: (type(v).__name__, repr(v))), sorted(y, key=lambda v: (type(v).__name__, repr(v))))
    if isinstance(x, (float, np.floating)):
        return None if (x == y and repr(x) == repr(y)) or (x != x and y != y) else f"{x!r} != {y!r}"
    if isinstance(x, slice):
        return same((x.start, x.stop, x.step), (y.start, y.stop, y.step))
    try:
        return None if x == y else f"{x!r} != {y!r}"
    except Exception as e:  # noqa: BLE001
        return f"comparison raised {e!r}"


