"""C06 -- dask.order.order is a total order consistent with dependencies (DESIGN 5/C06).  E4."""
from __future__ import annotations

import itertools

from mc.run import Hang
from mc.sched import deps_of, key_of

ID = "C06"
LEVEL = "exploration"
HANG_IS_VIOLATION = True
WATCHDOG_S = 10.0
NMAX = {"quick": 5, "thorough": 6}
ASSUMPTIONS = [
    "set-iteration order is owned: int keys hash to themselves, so the iteration order of every key set is a function of the labelling, "
    "and every labelling of every DAG is enumerated (all topologically labelled DAGs x both dict insertion orders x a reversed relabelling); "
    "string/tuple keys run under the fixed PYTHONHASHSEED=0 of ./check",
]


def inc(*a):
    return a


def RULE(tier):
    n = NMAX[tier]
    return (
        f"all DAGs on <= {n} nodes (2^(n(n-1)/2) edge sets) x node kinds per node (task / literal / alias (1 dep) / non-task list node) "
        f"(n={n}: kinds restricted to task + list-node + literal roots; quick additionally: all 6-node DAGs x kinds with >= 3 list nodes of > 1 dependency) x external-key references (none, one task referencing 1 or 2 keys outside the graph) x key style (int, reversed int "
        "labelling, (str,int) tuples, str) x dict insertion order; plus every cyclic variant obtained by adding one back edge or self loop. "
        "Oracle: keys(result)==keys(graph), priorities pairwise distinct ints, prio[k]>prio[dep] for every in-graph dependency, "
        "return_stats=True gives the same priorities, cyclic => RuntimeError. non-trivial = >= 3 nodes and >= 2 edges."
    )


def shards(tier):
    out = []
    for n in range(1, NMAX[tier] + 1):
        nmask = 1 << (n * (n - 1) // 2)
        step = max(1, nmask // 32)
        for lo in range(0, nmask, step):
            out.append((n, lo, min(nmask, lo + step)))
    if tier == "quick":
        # the 6-node family in which the peeling of non-task leaf nodes goes >= 3 layers deep (found a defect only the thorough tier saw):
        # all 6-node DAGs x kinds with >= 3 list nodes of > 1 dependency, int keys, no external references
        nmask = 1 << 15
        for lo in range(0, nmask, nmask // 32):
            out.append((6, lo, lo + nmask // 32, "lists"))
    return out


def kind_options(deps, n, tier):
    full = n < NMAX[tier] or (tier == "quick" and n <= 4)
    opts = []
    for d in deps:
        if not d:
            opts.append("td")
        elif len(d) == 1:
            opts.append("tal" if full else "tl")
        else:
            opts.append("tl")
    return itertools.product(*opts)


def build(n, mask, kinds, style, rev, ext, extra_edge=None):
    deps = deps_of(n, mask)
    if style == "rint":
        K = [n - 1 - i for i in range(n)]
    else:
        K = [key_of(style, i) for i in range(n)]
    EXT = [key_of("int" if style in ("int", "rint") else style, 90 + j) for j in range(2)]
    items = []
    dep_keys = {}
    for i in range(n):
        d = [K[j] for j in deps[i]]
        if extra_edge and extra_edge[0] == i:
            d = d + [K[extra_edge[1]]]
        c = kinds[i]
        e = []
        if ext and ext[0] == i and c in "tl":
            e = EXT[: ext[1]]
        if c == "t":
            v = (inc, *d, *e)
        elif c == "d":
            v = 1000 + i
        elif c == "a":
            v = d[0]
        else:
            v = list(d) + list(e)
        items.append((K[i], v))
        dep_keys[K[i]] = set(d)
    if rev:
        items.reverse()
    return dict(items), K, dep_keys


def cases_lists(shard):
    n, lo, hi, _ = shard
    for mask in range(lo, hi):
        deps = deps_of(n, mask)
        big = [i for i in range(n) if len(deps[i]) > 1]
        if len(big) < 3:
            continue
        opts = ["td" if not d else "tl" for d in deps]
        for kinds in itertools.product(*opts):
            if sum(1 for i in big if kinds[i] == "l") >= 3:
                yield ("dag", n, mask, "".join(kinds), "int", False, None, None)


def cases_of(shard, tier):
    if len(shard) == 4:
        yield from cases_lists(shard)
        return
    n, lo, hi = shard
    for mask in range(lo, hi):
        deps = deps_of(n, mask)
        for kinds in kind_options(deps, n, tier):
            kinds = "".join(kinds)
            exts = [None]
            cand = [i for i in range(n) if kinds[i] in "tl"]
            if cand and n <= 4:
                exts += [(i, k) for i in cand for k in (1, 2)]
            elif cand:
                exts += [(cand[-1], 1)]
            for ext in exts:
                styles = [("int", False), ("rint", False), ("int", True)]
                if ext is None and n <= 4:
                    styles += [("tup", False), ("str", True)]
                for style, rev in styles:
                    yield ("dag", n, mask, kinds, style, rev, ext, None)
        # cyclic variants: tasks only, one back edge i -> j (j >= i) that closes a cycle
        reach = [set() for _ in range(n)]  # ancestors
        for i in range(n):
            for j in deps[i]:
                reach[i] |= {j} | reach[j]
        for i in range(n):
            for j in range(i, n):
                if j == i or i in reach[j]:
                    yield ("cyc", n, mask, "t" * n, "int", False, None, (i, j))
                    yield ("cyc", n, mask, "t" * n, "str", True, None, (i, j))


def known_class(n, mask, kinds):
    """narrow input class of the recorded finding (all 567 failing 6-node (graph, kinds) pairs fall into it): >= 3 non-task list nodes
    with > 1 dependency, at least one of them built over another one, and a literal node shared by >= 2 of them"""
    deps = deps_of(n, mask)
    big = [i for i in range(n) if kinds[i] == "l" and len(deps[i]) > 1]
    stacked = any(j in big for i in big for j in deps[i])
    shared_lit = any(kinds[i] == "d" and sum(1 for k in big if i in deps[k]) >= 2 for i in range(n))
    if len(big) >= 3 and stacked and shared_lit:
        return ":>=3-list-nodes+stacked+shared-literal"
    return ""


def run_case(case, ctx):
    from dask.order import order

    kind, n, mask, kinds, style, rev, ext, extra = case
    dsk, K, dep_keys = build(n, mask, kinds, style, rev, ext, extra)
    nedges = sum(len(v) for v in dep_keys.values())
    ctx.case(case, nontrivial=n >= 3 and nedges >= 2, outcome=(kind, n, nedges))
    try:
        res = order(dict(dsk))
        exc = None
    except Hang:
        raise
    except BaseException as e:  # noqa: BLE001
        res, exc = None, e
    if kind == "cyc":
        if exc is None:
            ctx.violation("cyclic-graph-accepted", case, f"order returned {res!r} for a cyclic graph")
        elif not isinstance(exc, RuntimeError):
            ctx.violation(f"cyclic-graph:wrong-error:{type(exc).__name__}", case, repr(exc)[:300])
        return
    if exc is not None:
        ctx.violation(f"order-raises:{type(exc).__name__}{known_class(n, mask, kinds)}", case, repr(exc)[:300])
        return
    if set(res) != set(dsk):
        ctx.violation("wrong-key-set", case, f"result keys {sorted(map(repr, res))} graph keys {sorted(map(repr, dsk))}")
        return
    vals = list(res.values())
    if not all(type(v) is int for v in vals):
        ctx.violation("non-int-priority", case, repr(res))
        return
    if len(set(vals)) != len(vals):
        ctx.violation("duplicate-priorities", case, f"{res!r}")
        return
    for k, ds in dep_keys.items():
        for d in ds:
            if not res[k] > res[d]:
                ctx.violation("dependency-order", case, f"prio[{k!r}]={res[k]} <= prio[{d!r}]={res[d]}: {res!r}")
                return
    try:
        st = order(dict(dsk), return_stats=True)
        if {k: v.priority for k, v in st.items()} != res:
            ctx.violation("return_stats-differs", case, f"{st!r} vs {res!r}")
    except Hang:
        raise
    except BaseException as e:  # noqa: BLE001
        ctx.violation(f"return_stats-raises:{type(e).__name__}", case, repr(e)[:300])


def run_shard(shard, ctx):
    for case in cases_of(shard, ctx.tier):
        if ctx.out_of_time():
            return
        ctx.guard(case, run_case, case, ctx)


def replay(case, ctx):
    run_case(case, ctx)
