"""C21 -- array item assignment equals NumPy assignment (DESIGN 5/C21).  E4: exhaustive small scope.

For every enumerated (shape, chunking, index, value) the real ``Array.__setitem__`` is executed, the array is computed
block by block and compared with the same assignment on a NumPy copy; ``.chunks`` must be unchanged.
"""
from __future__ import annotations

import itertools

import numpy as np

from mc import arr, enums
from mc.run import Hang

ID = "C21"
LEVEL = "exploration"
WATCHDOG_S = 20.0
NMAX = {"quick": 5, "thorough": 7}
ASSUMPTIONS = [
    "sync scheduler; the array holds a seed-chosen permutation of distinct integers and assigned values are distinct and disjoint from "
    "them, so every cell is traceable to 'old' or to one value element",
    "the statement quantifies over broadcastable values and NumPy-legal indices only: a case on which NumPy itself raises is counted "
    "inapplicable (no oracle), it is never reported",
    "documented refusals are counted 'rejected' and never silently accepted: NotImplementedError (two array-like axes, scalar boolean / "
    "0-d array index), IndexError('Incorrect shape ... of integer indices') for an N-d NumPy boolean index, and the ValueError of the "
    "where() path for x[<dask bool array>] = <value with ndim > 0> (unknown result size, documented in Array.__setitem__)",
    "a value with ndim > 0 assigned through an all-integer index is excluded a priori: NumPy itself deprecates it",
]


def RULE(tier):
    n = NMAX[tier]
    q = tier == "quick"
    return (
        f"1-d: every length 0..{n} x EVERY chunking x every slice with start/stop in {{None}} U [-n-1,n+1], step in +-1..3|None, x value kinds: "
        + ("n<=3 ALL kinds {int/float scalar, 0-d dask, exact ndarray, length-1 ndarray, extra leading axis, dask value with EVERY chunking, value derived "
           "from the array itself}; n=4 {scalar, exact, dask value in 1-element chunks, self-derived}; n=5 exact ndarray" if q else
           "n<=5 ALL kinds {int/float scalar, 0-d dask, exact ndarray, length-1 ndarray, extra leading axis, dask value with EVERY chunking, value derived "
           "from the array itself}; n=6 common kinds; n=7 {scalar, exact, dask value, self-derived}")
        + "; every int in [-n-1,n] x {int, float, 0-d ndarray, 0-d dask}; every index vector over [-n,n) (duplicates included) as list (length <= 3"
        + (", n=5: <= 2" if q else ", n>=6: <= 2") + "), ndarray (length <= " + ("2" if q else "3") + ", n<=5) and dask int array (length <= "
        + ("2, n<=4" if q else "3, n<=5") + ", chunked by 1 and whole) x {scalar, exact, length-1, extra axis, dask value}; every boolean mask (n<="
        + ("5" if q else "6") + ") as list / ndarray (bare and in a tuple) / dask array (bare key = where() path and inside a tuple = setitem_array "
        "path, mask chunked like x, whole and by 1) / da.where(mask)[0] (unknown size). 2-d: shapes (2,3),(3,2)"
        + ("" if q else ",(3,4) and 3-d (2,2,2)") + " x EVERY chunking x every index tuple over per-axis alphabets {ints, slices that hit every "
        "chunk edge with both step signs, int list with duplicates, int ndarray, bool list, bool ndarray, dask int index, dask bool index}, "
        "plus the bare / Ellipsis / implicit-trailing-axis spellings and a small np.newaxis sub-alphabet, x value kinds {scalar, exact, length-1, "
        "row (fewer dims), size-1 axis, extra leading axis, dask value}" + (" (pairs in which neither axis is the full slice: {scalar, exact, row})" if q else "")
        + "; whole-array boolean masks (all 64 masks, dask; NumPy N-d masks must be refused). Oracle: blocks computed after the assignment "
        "assemble to the NumPy array after the same assignment (value + dtype), every block has its declared shape, .chunks unchanged, the "
        "wrapped source array is not modified. Thinned inside these bounds (see slice_mode / vec_plan / cases_of): index vectors on the larger n use "
        "{scalar, exact} values only, index tuples with two array-like axes (a documented refusal) are kept at one in seven, the 3-d alphabet uses "
        "every third slice. non-trivial = an assigned axis has >= 2 chunks and the selection is non-empty."
    )


# ----------------------------------------------------------------------------------------------- literals -> objects
def np_index(t):
    """literal -> NumPy-side index object"""
    if isinstance(t, tuple):
        k = t[0]
        if k == "s":
            return slice(t[1], t[2], t[3])
        if k in ("l", "a", "d"):
            return np.array(t[1], dtype=np.intp)
        if k in ("bl", "b", "db", "b2", "db2"):
            return np.array(t[1], dtype=bool)
        if k == "dw":
            return np.flatnonzero(np.array(t[1], dtype=bool))
        raise ValueError(t)
    if t == "...":
        return Ellipsis
    if t == "None":
        return None
    return t


def da_index(t):
    """literal -> index object handed to dask"""
    import dask.array as da

    if isinstance(t, tuple):
        k = t[0]
        if k == "s":
            return slice(t[1], t[2], t[3])
        if k == "l":
            return list(t[1])
        if k == "a":
            return np.array(t[1], dtype=np.intp)
        if k == "d":
            return da.from_array(np.array(t[1], dtype=np.intp), chunks=t[2])
        if k == "bl":
            return list(t[1])
        if k in ("b", "b2"):
            return np.array(t[1], dtype=bool)
        if k in ("db", "db2"):
            return da.from_array(np.array(t[1], dtype=bool), chunks=t[2])
        if k == "dw":
            return da.where(da.from_array(np.array(t[1], dtype=bool), chunks=t[2]))[0]
        raise ValueError(t)
    if t == "...":
        return Ellipsis
    if t == "None":
        return None
    return t


def is_arrayish(t):
    return isinstance(t, tuple) and t[0] in ("l", "a", "d", "bl", "b", "db", "dw", "b2", "db2")


def target_shape(shape, index):
    """shape of x[index] in NumPy, or None if NumPy raises"""
    ix = tuple(np_index(t) for t in index)
    try:
        return np.empty(shape, dtype="i1")[ix].shape
    except (IndexError, ValueError):
        return None


def value_kinds(tshape, mode, self_ok=False):
    """value-kind literals applicable to a selection of shape tshape.
    mode: 'nd' = exact ndarray only, 'scnd' = {scalar, exact}, 'lite' = {scalar, exact, dask value in 1-element chunks, self},
    'std' = the common kinds, 'full' = everything incl. a dask value with EVERY chunking"""
    if tshape is None:
        return ["sc"]
    if tshape == ():
        # all-integer index: only 0-d values (NumPy deprecates ndim > 0 values here)
        return ["sc", "f", "z0", "dz0"] if mode in ("std", "full") else ["sc"]
    if mode == "nd":
        return ["nd"]
    out = ["sc", "nd"]
    if mode == "scnd":
        return out
    nd = len(tshape)
    ones = tuple((1,) * s if s else (0,) for s in tshape)
    whole = tuple((s,) for s in tshape)
    if mode == "lite":
        out.append(("da", ones))
        if self_ok and nd == 1:
            out.append("self")
        return out
    out.append("b1")
    if 0 in tshape:
        # empty selection: nothing is assigned, one array kind per dimensionality is enough
        return out + (["x1"] if nd == 1 else [])
    out.append("x1")
    if nd >= 2:
        out.append("row")
        for ax in range(nd):
            if tshape[ax] >= 2:
                out.append(("bc", ax))
    if mode == "std":
        out.append(("da", ones))
    else:
        out.append("f")
        out.append("dz0")
        for chs in enums.chunkings(tshape):
            out.append(("da", tuple(chs)))
        if nd >= 2 and tshape[-1] >= 2:
            out.append(("dabc", nd - 1))
    if self_ok and nd == 1:
        out.append("self")
    return out


def make_value(vk, tshape, x, d):
    """-> (value for NumPy, value for dask)"""
    import dask.array as da

    if vk == "sc":
        return 99, 99
    if vk == "f":
        return 77.5, 77.5
    if vk == "z0":
        return np.array(98), np.array(98)
    if vk == "dz0":
        return np.array(97), da.from_array(np.array(97), chunks=())
    size = int(np.prod(tshape)) if tshape else 1
    exact = (np.arange(size) + 101).reshape(tshape)
    if vk == "nd":
        return exact, exact
    if vk == "b1":
        v = np.array([96])
        return v, v
    if vk == "x1":
        return exact[None], exact[None]
    if vk == "row":
        return exact[0], exact[0]
    if isinstance(vk, tuple) and vk[0] == "bc":
        v = exact.take([0], axis=vk[1])
        return v, v
    if isinstance(vk, tuple) and vk[0] == "da":
        return exact, da.from_array(exact, chunks=vk[1])
    if isinstance(vk, tuple) and vk[0] == "dabc":
        v = exact.take([0], axis=vk[1])
        return v, da.from_array(v, chunks=1)
    if vk == "self":
        m = tshape[0]
        return x[::-1][:m] * 1000, d[::-1][:m] * 1000
    raise ValueError(vk)


# ----------------------------------------------------------------------------------------------- enumeration
# Bounds per tier.  Dask-array indices cost 7-20 ms per case (several graph layers), NumPy indices ~1-2 ms: the dask-index
# alphabets are therefore smaller in the quick tier.  Everything inside a stated bound is enumerated exhaustively.
def slice_mode(n, tier):
    if tier == "quick":
        return "full" if n <= 3 else ("lite" if n == 4 else "nd")
    return "full" if n <= 5 else ("std" if n == 6 else "lite")


def vec_plan(n, vkind_, tier):
    """-> (max vector length, value mode) or None"""
    q = tier == "quick"
    if vkind_ == "l":
        if n <= 3:
            return 3, "std"
        if n == 4:
            return 3, ("scnd" if q else "std")
        if n == 5:
            return (2, "scnd") if q else (3, "lite")
        return 2, "lite"
    if vkind_ == "a":
        if n <= 3:
            return 2 if q else 3, "std"
        if n <= 5:
            return (2, "scnd") if q else (3, "scnd")
        return None
    if vkind_ == "d":
        if n <= 3:
            return 2 if q else 3, "lite"
        if n == 4:
            return (2, "scnd") if q else (3, "lite")
        if n == 5:
            return None if q else (2, "lite")
        return None
    raise ValueError(vkind_)


def shards(tier):
    n = NMAX[tier]
    out = []
    for k in range(0, n + 1):
        parts = 1 if k <= 2 else (4 if k == 3 else (16 if k <= 5 else 32))
        for p in range(parts):
            out.append(("slice1", k, p, parts))
        out.append(("int1", k))
    for k in range(1, n + 1):
        for kind in ("l", "a", "d"):
            if vec_plan(k, kind, tier) is None:
                continue
            parts = 1 if k <= 2 else (2 if k == 3 else 8)
            for p in range(parts):
                out.append(("vec1", k, kind, p, parts))
    for k in range(0, min(n, 6) + 1):
        parts = 1 if k <= 3 else (4 if k == 4 else 8)
        for p in range(parts):
            out.append(("mask1", k, p, parts))
    shapes = [(2, 3), (3, 2)] + ([(3, 4)] if tier == "thorough" else [])
    for shp in shapes:
        parts = 8 if shp != (3, 4) else 32
        for p in range(parts):
            out.append(("tuple2", shp, p, parts))
    for shp in [(2, 3), (3, 2)]:
        for p in range(4):
            out.append(("mask2", shp, p, 4))
    if tier == "thorough":
        for p in range(8):
            out.append(("tuple3", (2, 2, 2), p, 8))
    return out


def axis_alphabet(n, chunks, tier):
    """per-axis index alphabet hitting every chunk edge, both step signs"""
    edges = sorted({0, n} | set(np.cumsum(chunks).tolist()))
    ints = sorted({0, n - 1, -1, -n} & set(range(-n, n)))
    sls = {
        ("s", None, None, None),
        ("s", None, None, -1),
        ("s", 1, None, None),
        ("s", None, -1, None),
        ("s", None, None, 2),
        ("s", n, None, -2),
        ("s", None, None, -2),
        ("s", 1, 1, None),
    }
    for e in edges:
        sls.add(("s", e, None, None))
        sls.add(("s", None, e, None))
        sls.add(("s", e, None, -1))
        sls.add(("s", None, e, -1))
        if tier == "thorough":
            sls.add(("s", max(e - 1, 0), e + 1, None))
    alt = tuple(bool((i + 1) % 2) for i in range(n))  # True, False, True ...
    lists = [
        ("l", (n - 1, 0)),
        ("l", (0, 0, -1)),
        ("a", (-1, 0)),
        ("bl", alt),
        ("b", tuple(not b for b in alt)),
        ("d", (n - 1, 0), 1),
        ("db", alt, ((1,) * n,)),
    ]
    if tier == "thorough":
        lists.append(("db", alt, ((n,),)))
    return ints, sorted(sls, key=repr), lists


FULL = ("s", None, None, None)


def is_dask_item(t):
    return isinstance(t, tuple) and t[0] in ("d", "db", "dw", "db2")


def cases_of(shard, tier):
    kind = shard[0]
    q = tier == "quick"
    if kind == "slice1":
        n, part, nparts = shard[1], shard[2], shard[3]
        mode = slice_mode(n, tier)
        j = 0
        for ch in enums.compositions(n) if n else [(0,)]:
            for a, b, s in enums.slices(n):
                j += 1
                if j % nparts != part:
                    continue
                ix = (("s", a, b, s),)
                tshape = target_shape((n,), ix)
                for vk in value_kinds(tshape, mode, self_ok=True):
                    yield ("slice1", (n,), (ch,), ix, True, vk)
            # the implicit-tuple / Ellipsis spellings of the same assignment
            if part == 0:
                for ix in ((FULL,), ("...",), ("...", ("s", 1, None, None)), (("s", None, -1, None), "..."), (("s", None, None, -1), "...")):
                    tshape = target_shape((n,), ix)
                    for vk in value_kinds(tshape, "std"):
                        yield ("slice1", (n,), (ch,), ix, False, vk)
    elif kind == "int1":
        n = shard[1]
        for ch in enums.compositions(n) if n else [(0,)]:
            for i in range(-n - 1, n + 1):
                tshape = target_shape((n,), (i,))
                for vk in value_kinds(tshape, "full"):
                    yield ("int1", (n,), (ch,), (i,), True, vk)
    elif kind == "vec1":
        n, vkind_, part, nparts = shard[1], shard[2], shard[3], shard[4]
        maxlen, mode = vec_plan(n, vkind_, tier)
        j = 0
        for ch in enums.compositions(n):
            for v in enums.index_vectors(n, maxlen):
                j += 1
                if j % nparts != part:
                    continue
                if vkind_ == "d":
                    ixs = [("d", tuple(v), 1)] + ([("d", tuple(v), len(v))] if len(v) >= 2 and (n <= 3 or not q) else [])
                else:
                    ixs = [(vkind_, tuple(v))]
                for it in ixs:
                    ix = (it,)
                    tshape = target_shape((n,), ix)
                    for vk in value_kinds(tshape, mode):
                        yield ("vec1", (n,), (ch,), ix, True, vk)
    elif kind == "mask1":
        n, part, nparts = shard[1], shard[2], shard[3]
        small = n <= (4 if q else 5)
        j = 0
        for ch in enums.compositions(n) if n else [(0,)]:
            for m in enums.masks(n):
                j += 1
                if j % nparts != part:
                    continue
                m = tuple(m)
                forms = [(("bl", m), True, "std"), (("b", m), True, "std"), (("b", m), False, "std")]
                if n:
                    for mch in sorted({ch, (n,), (1,) * n}) if small else [ch]:
                        forms.append((("db", m, (mch,)), True, "scnd"))  # bare dask mask: where() path
                        forms.append((("db", m, (mch,)), False, "std" if small else "scnd"))  # in a tuple: setitem_array path
                    if small:
                        forms.append((("dw", m, (ch,)), True, "scnd"))
                for it, bare, mode in forms:
                    if it[0] == "bl" and n == 0:
                        continue  # x[[]] is an empty INTEGER index in NumPy
                    ix = (it,)
                    tshape = target_shape((n,), ix)
                    vks = value_kinds(tshape, mode)
                    if it[0] == "db" and bare:
                        vks = vks + ["z0", "b1"]  # where() path: 0-d array accepted, ndim > 0 refused
                    for vk in vks:
                        yield ("mask1", (n,), (ch,), ix, bare, vk)
    elif kind in ("tuple2", "tuple3"):
        shp, part, nparts = shard[1], shard[2], shard[3]
        j = 0
        for ch in enums.chunkings(shp):
            alph = []
            for n, c in zip(shp, ch):
                ints, sls, lists = axis_alphabet(n, c, tier)
                if kind == "tuple3":
                    sls = sls[::3]
                    lists = lists[:2] + lists[3:4] + lists[6:7]
                alph.append(ints + sls + lists)
            tuples = []  # (index, bare, value mode)
            if kind == "tuple2":
                for i0 in alph[0]:
                    m1 = "lite" if (q and is_dask_item(i0)) else "std"
                    tuples.append(((i0,), True, m1))
                    tuples.append(((i0,), False, m1))
                    tuples.append(((i0, "..."), False, m1))
                    tuples.append(((i0, FULL), False, m1))
                    for i1 in alph[1]:
                        if i1 == FULL:
                            continue
                        if not q:
                            mode = "std"
                        elif i0 == FULL:
                            mode = "lite" if is_dask_item(i1) else "std"
                        else:
                            mode = "scnd"
                        tuples.append(((i0, i1), False, mode))
                for i1 in alph[1]:
                    tuples.append((("...", i1), False, "lite" if (q and is_dask_item(i1)) else "std"))
                # np.newaxis in an assignment index (NumPy-legal): a small sub-alphabet
                for i1 in alph[1][:: max(1, len(alph[1]) // 6)]:
                    tuples.append((("None", 0, i1), False, "sc"))
                    tuples.append(((FULL, "None", i1), False, "sc"))
            else:
                for ix in itertools.product(*alph):
                    tuples.append((ix, False, "std" if sum(1 for t in ix if t == FULL) >= 1 else "scnd"))
                for i0 in alph[0]:
                    tuples.append(((i0, "...", 0), False, "std"))
                    tuples.append((("...", i0), False, "std"))
            for ix, bare, mode in tuples:
                j += 1
                if j % nparts != part:
                    continue
                if sum(1 for t in ix if is_arrayish(t)) > 1 and j % 7:
                    continue  # >= 2 array-like axes: documented refusal; keep a seventh of them to see that it does refuse
                tshape = target_shape(shp, ix)
                vks = ["sc"] if mode == "sc" else value_kinds(tshape, mode)
                if mode == "scnd" and tshape is not None and len(tshape) == 2 and tshape[0] >= 1 and 0 not in tshape:
                    vks = vks + ["row"]
                for vk in vks:
                    yield (kind, shp, tuple(ch), ix, bare, vk)
    elif kind == "mask2":
        shp, part, nparts = shard[1], shard[2], shard[3]
        j = 0
        for ch in enums.chunkings(shp):
            for flat in enums.masks(shp[0] * shp[1]):
                j += 1
                if j % nparts != part:
                    continue
                m = tuple(tuple(flat[r * shp[1] : (r + 1) * shp[1]]) for r in range(shp[0]))
                forms = [("db2", m, tuple(ch)), ("db2", m, tuple((s,) for s in shp))]
                if j % 8 == 0:
                    forms.append(("b2", m))  # N-d NumPy boolean index: refused with IndexError('Incorrect shape ...')
                for it in forms:
                    for vk in ("sc", "z0", "dz0", "f") + (("b1",) if j % 4 == 0 else ()):
                        yield ("mask2", shp, tuple(ch), (it,), True, vk)
    else:
        raise ValueError(kind)


# ----------------------------------------------------------------------------------------------- one case
NONBROADCAST = ("nd", "x1", "da", "self")
ARRAYVALUED = ("nd", "x1", "da", "self", "row", "bc", "dabc")


def vkind(vk):
    return vk if isinstance(vk, str) else vk[0]


def where_path(case):
    """x[<dask bool array with x's dimensionality>] = v is implemented with where(), not setitem_array"""
    kind, shp, ch, index, bare, vk = case
    return bare and len(index) == 1 and isinstance(index[0], tuple) and index[0][0] in ("db", "db2") and np.ndim(np_index(index[0])) == len(shp)


def expand(index, ndim):
    """per-array-axis index items: Ellipsis expanded, missing trailing axes filled with full slices, None dropped"""
    items = [t for t in index if t != "None"]
    k = ndim - sum(1 for t in items if t != "...")
    out = []
    for t in items:
        if t == "...":
            out.extend([FULL] * k)
        else:
            out.append(t)
    return out + [FULL] * (ndim - len(out))


def known_class(case):
    """narrow input classes of the recorded findings (C21.findings.json); the class replaces the case kind in the finding key,
    so any OTHER failure on the same inputs, and the same failure on other inputs, still has a different key"""
    kind, shp, ch, index, bare, vk = case
    vkd = vkind(vk)
    if "None" in index:
        return "newaxis-index"
    if where_path(case):
        if tuple(index[0][2]) != tuple(ch):
            return "where-path-mask-chunks-differ"
        return None
    tshape = target_shape(shp, index)
    if tshape is not None and 0 in tshape and vkd in ARRAYVALUED:
        for t, n in zip(expand(index, len(shp)), shp):
            if isinstance(t, tuple) and t[0] == "s" and t[3] is not None and t[3] < 0 and len(range(*slice(t[1], t[2], t[3]).indices(n))) == 0:
                return "empty-negstep-slice+empty-value"
        return "empty-selection+empty-value"
    ints = [i for i, t in enumerate(index) if isinstance(t, int)]
    if vkd == "x1" and ints:
        return "extra-leading-axis-value+int-index"
    negs = [i for i, t in enumerate(index) if isinstance(t, tuple) and t[0] == "s" and t[3] is not None and t[3] < 0]
    if ints and negs and min(ints) < max(negs):
        return "int-before-negstep-slice"
    arrs = [i for i, t in enumerate(index) if is_arrayish(t)]
    if ints and arrs and min(ints) < max(arrs) and vkd in ARRAYVALUED:
        return "int-before-index-array"
    if any(isinstance(t, tuple) and t[0] == "db" for t in index) and vkd in ("b1", "bc", "row", "dabc"):
        return "dask-bool-index+broadcast-value"
    return None


def refusal(e, case, v_da):
    """is this exception one of dask's documented refusals for this input?"""
    kind, shp, ch, index, bare, vk = case
    if isinstance(e, NotImplementedError):
        return True
    msg = str(e)
    if isinstance(e, IndexError) and msg.startswith("Incorrect shape") and any(isinstance(t, tuple) and t[0] == "b2" for t in index):
        return True
    if isinstance(e, (ValueError, TypeError)) and where_path(case) and np.ndim(v_da) > 0:
        # x[<dask bool array of x's dimensionality>] = value goes through where(); documented in Array.__setitem__: a value
        # with ndim > 0 raises because the number of selected cells is unknown ("valid in numpy but raises here")
        return True
    return False


def run_case(case, ctx):
    import dask.array as da

    kind, shp, ch, index, bare, vk = case
    x = arr.data(shp, ctx.seed)
    x0 = x.copy()
    d = da.from_array(x, chunks=ch)
    chunks0 = d.chunks
    nix = tuple(np_index(t) for t in index)
    if bare and len(nix) == 1:
        nix = nix[0]
    tshape = target_shape(shp, index)
    v_np, v_da = make_value(vk, tshape, x, d) if tshape is not None else (99, 99)

    ref = x.copy()
    np_exc = None
    try:
        ref[nix] = v_np
    except (IndexError, ValueError, TypeError) as e:
        np_exc = e

    assigned_axes = [ax for ax, t in enumerate(t for t in index if t != "None" and t != "...")]
    if "..." in index:
        assigned_axes = list(range(len(shp)))
    nontrivial = (
        np_exc is None
        and tshape is not None
        and (tshape == () or int(np.prod(tshape)) > 0)
        and any(len(ch[ax]) >= 2 for ax in assigned_axes if ax < len(ch))
    )

    sub = known_class(case)
    suffix = f":{sub}" if sub else ""
    if sub:
        kind = "setitem"
    got = problem = d_exc = None
    try:
        dix = tuple(da_index(t) for t in index)
        if bare and len(dix) == 1:
            dix = dix[0]
        d[dix] = v_da
        chunks1 = d.chunks
        got, problem = arr.compute_blocks(d)
    except Hang:
        raise
    except Exception as e:  # noqa: BLE001
        d_exc = e
    ctx.case(case, nontrivial=nontrivial, outcome=(tshape, type(np_exc).__name__, type(d_exc).__name__))
    if np_exc is not None:
        # outside the statement's quantifier (NumPy-illegal index / non-broadcastable value): no oracle
        ctx.count("both_raise" if d_exc is not None else "inapplicable")
        return
    if d_exc is not None:
        if refusal(d_exc, case, v_da):
            ctx.count("rejected")
            return
        ctx.violation(f"{kind}:dask-raises:{type(d_exc).__name__}{suffix}", case, f"dask raised {d_exc!r}; NumPy gives {ref!r}")
        return
    if chunks1 != chunks0:
        ctx.violation(f"{kind}:chunks-changed{suffix}", case, f"chunks {chunks0} -> {chunks1}")
        return
    if problem:
        ctx.violation(f"{kind}:lazy-metadata{suffix}", case, problem)
        return
    why = arr.equal(got, ref)
    if why:
        ctx.violation(f"{kind}:wrong-value{suffix}", case, why)
        return
    if not np.array_equal(x, x0):
        # the NumPy array wrapped by from_array is the "old" operand of the assignment; if it changed, ref (a copy taken
        # before) no longer describes the same experiment
        ctx.violation(f"{kind}:source-mutated{suffix}", case, f"the wrapped NumPy array changed: {x0!r} -> {x!r}")


def run_shard(shard, ctx):
    for case in cases_of(shard, ctx.tier):
        if ctx.out_of_time():
            return
        ctx.guard(case, run_case, case, ctx)


def replay(case, ctx):
    run_case(case, ctx)


def signature(case):
    """triage aid (not used by the check): coarse input class of a case"""
    kind, shp, ch, index, bare, vk = case
    pat = tuple((t[0] + ("-" if t[0] == "s" and t[3] is not None and t[3] < 0 else "")) if isinstance(t, tuple) else ("int" if isinstance(t, int) else t) for t in index)
    return (pat, bare, vk if isinstance(vk, str) else vk[0])
