"""C16 -- graph manipulation keeps values and changes only keys and ordering (DESIGN 5/C16).
E2 with deviation bound: clone / bind / wait_on / checkpoint on collections built from *recording* task functions;
the real collection-level compute is driven through get_async bound to the controlled executor, and the execution
log is judged in every explored completion order."""
from __future__ import annotations

import itertools

from mc import sched
from mc.explore import explore
from mc.run import Hang

ID = "C16"
LEVEL = "model_checking"
HANG_IS_VIOLATION = True
WATCHDOG_S = 60.0
BOUND = {"quick": 1, "thorough": 3}
ASSUMPTIONS = [
    "G3 (completion order is the only scheduling nondeterminism); executions are enumerated up to the stated number of deviations from FIFO completion, 3 workers",
    "user functions record (tag, first element) when they run; records made while building the graph (meta inference) are discarded when compute starts",
    "dataframe collections use the pyarrow stand-in (mc/shims)",
]

LOG = []


class Rec:
    """recording identity function, picklable by value (tag)"""

    def __init__(self, tag):
        self.tag = tag

    def __call__(self, x, *a, **k):
        LOG.append(self.tag)
        return x

    def __reduce__(self):
        return (Rec, (self.tag,))

    def __dask_tokenize__(self):
        return ("Rec", self.tag)


def RULE(tier):
    return (
        "collections {2-chunk array via map_blocks, 2-partition bag via map, delayed tree, 2-partition dataframe via map_partitions} built from recording functions; "
        "clone: every non-empty tuple of <= 2 collections (12 kind pairs + singles) x omit subsets x seed {None, 0} x assume_layers; bind: every ordered (child, parent) kind pair x "
        "omit {None, parent-as-dependency} x seed x assume_layers x split_every {None, 2}; wait_on / checkpoint: every kind and pair x split_every; default graph optimisation on and off. "
        f"Every construction is computed under EVERY completion order with <= {BOUND[tier]} deviations from FIFO (3 workers) through the real get_async. Oracle: values unchanged; "
        "clone output keys disjoint from the originals' (omit excepted); every child record after every parent record; checkpoint yields None after all records. "
        "non-trivial = >= 2 executions explored for the case."
    )


KINDS = ["array", "array2", "array3", "bag", "delayed", "frame"]


def make(kind, tag, dep=None):
    """-> collection whose chunks record `tag` when computed; dep: another collection it is derived from (same kind)"""
    import numpy as np

    if kind == "array":
        import dask.array as da

        base = dep if dep is not None else da.from_array(np.arange(4), chunks=2, name=f"src-{tag}")
        return base.map_blocks(Rec(tag), dtype=base.dtype, meta=np.array((), dtype=base.dtype))
    if kind == "array2":  # materialized (non-blockwise) layers: slicing + rechunk
        import dask.array as da

        base = dep if dep is not None else da.from_array(np.arange(4), chunks=2, name=f"src2-{tag}")
        return base.map_blocks(Rec(tag), dtype=base.dtype, meta=np.array((), dtype=base.dtype))[::-1].rechunk(((1, 3),))[::-1].rechunk(2)
    if kind == "array3":  # a contracting Blockwise layer with concatenate=True (map_blocks dropping a multi-chunk axis)
        import dask.array as da

        if dep is not None:
            return dep.map_blocks(Rec(tag), dtype=dep.dtype, meta=np.array((), dtype=dep.dtype))
        base = da.from_array(np.arange(8).reshape(2, 4), chunks=(1, 2), name=f"src3-{tag}")
        rec = base.map_blocks(Rec(tag), dtype=base.dtype, meta=np.array((), dtype=base.dtype))
        return rec.map_blocks(_rowsum, drop_axis=1, dtype=base.dtype, meta=np.array((), dtype=base.dtype))
    if kind == "bag":
        import dask.bag as db

        base = dep if dep is not None else db.from_sequence([1, 2, 3, 4], npartitions=2)
        return base.map_partitions(Rec(tag))
    if kind == "delayed":
        from dask import delayed

        if dep is not None:
            return delayed(Rec(tag), pure=True)(dep)
        return delayed(Rec(tag), pure=True)(delayed(Rec(tag + "0"), pure=True)(1), 2)
    if kind == "frame":
        from mc import dfh

        if dep is not None:
            return dep.map_partitions(Rec(tag), meta=dep._meta)
        import pandas as pd

        pdf = pd.DataFrame({"a": [1, 2, 3, 4]})
        base = dfh.build(pdf, (2, 2))
        return base.map_partitions(Rec(tag), meta=pdf.iloc[:0])
    raise ValueError(kind)


def _rowsum(b):
    import numpy as np

    return np.asarray(b).sum(axis=1)


def nrec(kind, dep=False):
    """number of records one full computation of a collection of this kind makes per tag"""
    if kind == "delayed":
        return 1
    if kind == "array3":
        return 2 if dep else 4
    return 2


def value_of(x):
    import numpy as np
    import pandas as pd

    if isinstance(x, np.ndarray):
        return ("nd", x.tolist())
    if isinstance(x, (pd.DataFrame, pd.Series)):
        return ("pd", x.to_dict())
    if isinstance(x, (list, tuple)):
        return (type(x).__name__, [value_of(i) for i in x])
    return x


def tags_of(kind, tag):
    return {tag, tag + "0"} if kind == "delayed" else {tag}


def controlled_get(chooser, nworkers=3):
    import dask.local as dlocal

    state = {}

    def get(dsk, keys, **kwargs):
        ex = sched.ControlledExecutor(nworkers)
        state["ex"] = ex
        with sched.Harness(ex, chooser):
            kwargs.pop("num_workers", None)
            return dlocal.get_async(ex.submit, nworkers, dsk, keys, **kwargs)

    return get, state


def compute_all(objs, bound, ctx, optimize_graph, judge):
    """compute `objs` together under every completion order within the bound; judge(log, values) -> problem|None"""
    import dask

    n = 0
    maxpend = 0
    first_problem = None

    import uuid

    def run(ch):
        get, st = controlled_get(ch)
        del LOG[:]
        # own the uuid source: dask names the finalize tasks of a compute call with uuid4(), and graph fusion iterates over
        # sets of these names -- with fresh random names every replay of the same schedule prefix would see another graph
        counter = itertools.count(1)
        real_uuid4 = uuid.uuid4
        uuid.uuid4 = lambda: uuid.UUID(int=next(counter))
        try:
            vals = dask.compute(*objs, scheduler=get, optimize_graph=optimize_graph)
            return ("ok", vals, list(LOG), st)
        except sched.Deadlock as e:
            return ("deadlock", e, list(LOG), st)
        except Hang:
            raise
        except Exception as e:  # noqa: BLE001
            return ("exc", e, list(LOG), st)
        finally:
            uuid.uuid4 = real_uuid4

    for ch, (status, vals, log, st) in explore(run, bound=bound):
        n += 1
        ex = st.get("ex")
        if ex is not None:
            maxpend = max(maxpend, ex.max_pending)
        ctx.transition(len(log) + 1)
        ctx.state((tuple(log),))
        if status != "ok":
            first_problem = (f"compute-{status}:{type(vals).__name__}", f"{vals!r} choices={ch.choices}"[:400])
            break
        p = judge(log, vals)
        if p:
            first_problem = (p[0], p[1] + f" log={log} choices={ch.choices}")
            break
    ctx.trace(n)
    return n, maxpend, first_problem


def keyset(c):
    from dask.core import flatten

    return set(flatten(c.__dask_keys__()))


def known_class(case):
    return None


def run_case(case, ctx):
    from dask.graph_manipulation import bind, checkpoint, clone, wait_on

    op = case[0]
    bound = BOUND[ctx.tier]
    suffix = ":frame" if "frame" in repr(case) else ""
    if op == "bind" and case[1] == case[2] == "array" and case[3] and case[4] and not case[6]:
        suffix = ":blockwise-child-omit-parent-assume_layers-false"

    def fail(key, detail):
        ctx.violation(f"{op}:{key}{suffix}", case, detail)

    try:
        if op == "clone":
            _, kinds, dep, omit, seed, assume_layers, optg = case
            a = make(kinds[0], "A")
            colls = [a]
            if len(kinds) == 2:
                b = make(kinds[1], "B", dep=a if dep else None)
                colls.append(b)
            ref = [value_of(v) for v in __import__("dask").compute(*colls, scheduler="sync")]
            # omit=(0,) means: clone only the derived collection b and leave its dependency a alone (clone(b, omit=a));
            # a collection that is both cloned and omitted has no defined meaning and is not enumerated
            if omit:
                targets, om = [colls[1]], colls[0]
                ref = ref[1:]
            else:
                targets, om = colls, None
            cl = clone(*targets, omit=om, seed=seed, assume_layers=assume_layers)
            cl = list(cl) if isinstance(cl, tuple) else [cl]
            for i, (c0, c1) in enumerate(zip(targets, cl)):
                shared = keyset(c0) & keyset(c1)
                if shared:
                    fail("output-keys-shared", f"collection {i}: clone shares output keys {sorted(map(repr, shared))[:4]} with the original")
                    return
            # an omitted collection that others depend on must not be cloned: its tasks run once
            def judge(log, vals):
                got = [value_of(v) for v in vals]
                if got != ref:
                    return ("wrong-value", f"clone computes {got!r}, originals {ref!r}")
                return None

            n, mp, prob = compute_all(cl, bound, ctx, optg, judge)
        elif op == "bind":
            _, kc, kp, dep, omit_parent, seed, assume_layers, split_every, optg = case
            p = make(kp, "P")
            c = make(kc, "C", dep=p if dep else None)
            ref = value_of(c.compute(scheduler="sync"))
            om = p if (omit_parent and dep) else None
            b = bind(c, p, omit=om, seed=seed, assume_layers=assume_layers, split_every=split_every)
            ptags, ctags = tags_of(kp, "P"), tags_of(kc, "C")

            def judge(log, vals):
                if value_of(vals[0]) != ref:
                    return ("wrong-value", f"bound child computes {value_of(vals[0])!r}, original {ref!r}")
                ppos = [i for i, t in enumerate(log) if t in ptags]
                cpos = [i for i, t in enumerate(log) if t in ctags]
                if not cpos or not ppos:
                    return ("nothing-recorded", f"parent records {len(ppos)}, child records {len(cpos)}")
                # the parents' own run: the LAST record of the first complete parent computation precedes every child record
                need = len(ptags) * nrec(kp)
                first_complete = ppos[need - 1] if len(ppos) >= need else None
                if first_complete is None or min(cpos) < first_complete:
                    return ("child-ran-before-parents-finished", f"child record at {min(cpos)} before all {need} parent records")
                return None

            n, mp, prob = compute_all([b], bound, ctx, optg, judge)
        elif op == "wait_on":
            _, kinds, split_every, optg = case
            colls = [make(k, "AB"[i]) for i, k in enumerate(kinds)]
            ref = [value_of(v) for v in __import__("dask").compute(*colls, scheduler="sync")]
            w = wait_on(*colls, split_every=split_every)
            w = list(w) if isinstance(w, tuple) else [w]
            down = [make(k, "XY"[i], dep=wi) for i, (k, wi) in enumerate(zip(kinds, w))]
            ptags = set().union(*[tags_of(k, "AB"[i]) for i, k in enumerate(kinds)])
            dtags = {"X", "Y"}

            def judge(log, vals):
                got = [value_of(v) for v in vals]
                if got != ref:
                    return ("wrong-value", f"{got!r} vs {ref!r}")
                ppos = [i for i, t in enumerate(log) if t in ptags]
                dpos = [i for i, t in enumerate(log) if t in dtags]
                if not dpos or not ppos:
                    return ("nothing-recorded", f"{log}")
                if min(dpos) < max(ppos):
                    return ("dependent-ran-before-all-inputs", f"downstream record at {min(dpos)}, last input record at {max(ppos)}")
                return None

            n, mp, prob = compute_all(down, bound, ctx, optg, judge)
        elif op == "checkpoint":
            _, kinds, split_every, optg = case
            from dask import delayed

            colls = [make(k, "AB"[i]) for i, k in enumerate(kinds)]
            cp = checkpoint(*colls, split_every=split_every)
            z = delayed(Rec("Z"))(cp)
            ptags = set().union(*[tags_of(k, "AB"[i]) for i, k in enumerate(kinds)])
            need = sum(len(tags_of(k, "x")) * nrec(k) for k in kinds)

            def judge(log, vals):
                if vals[0] is not None or vals[1] is not None:
                    return ("not-None", f"checkpoint computed to {vals!r}")
                ppos = [i for i, t in enumerate(log) if t in ptags]
                zpos = [i for i, t in enumerate(log) if t == "Z"]
                if len(ppos) != need:
                    return ("input-chunks-not-all-computed", f"{len(ppos)} input records, expected {need}")
                if not zpos or zpos[0] < max(ppos):
                    return ("finished-before-inputs", f"{log}")
                return None

            n, mp, prob = compute_all([cp, z], bound, ctx, optg, judge)
        else:
            raise ValueError(op)
    except Hang:
        raise
    except Exception as e:  # noqa: BLE001
        ctx.case(case, nontrivial=False)
        ctx.violation(f"{op}:build-raises:{type(e).__name__}{suffix}", case, repr(e)[:400])
        return
    ctx.case(case, nontrivial=n >= 2, n=n)
    ctx.counters["max_pending"] = max(ctx.counters.get("max_pending", 0), mp)
    if prob:
        fail(prob[0], prob[1])


def all_cases(tier):
    out = []
    for optg in (True, False):
        for k in KINDS:
            for seed in (None, 0):
                for al in (True, False):
                    out.append(("clone", (k,), False, (), seed, al, optg))
        for k1, k2 in itertools.product(KINDS, repeat=2):
            for dep in ((False, True) if k1 == k2 else (False,)):
                for omit in (((), (0,)) if dep else ((),)):
                    for seed in (None, 0):
                        out.append(("clone", (k1, k2), dep, omit, seed, True, optg))
        for kc, kp in itertools.product(KINDS, repeat=2):
            for dep in ((False, True) if kc == kp else (False,)):
                for omit_parent in ((False, True) if dep else (False,)):
                    for seed in (None, 0):
                        for al in (True, False):
                            for se in (None, 2):
                                out.append(("bind", kc, kp, dep, omit_parent, seed, al, se, optg))
        for r in (1, 2):
            for kinds in itertools.product(KINDS, repeat=r):
                for se in (None, 2, False):
                    out.append(("wait_on", kinds, se, optg))
                    out.append(("checkpoint", kinds, se, optg))
    return out


def shards(tier):
    n = len(all_cases(tier))
    return [("part", i, 48) for i in range(48)]


def run_shard(shard, ctx):
    _, part, nparts = shard
    for i, case in enumerate(all_cases(ctx.tier)):
        if i % nparts != part:
            continue
        if ctx.out_of_time():
            return
        ctx.guard(case, run_case, case, ctx)


def replay(case, ctx):
    run_case(case, ctx)
