"""C14 -- compute, persist and optimize preserve structure and values (DESIGN 5/C14).

E4: every nested template up to a depth bound over the container kinds the statement names, with leaves
{collection X, the same X again, collection Y, 1, 's', None, an opaque object}, X/Y of every collection kind,
passed through dask.compute / dask.persist / dask.optimize under every option combination.  Reference = a
structural map of the template that replaces each collection by its eager value.
"""
from __future__ import annotations

import collections
import dataclasses
import itertools
import warnings
from concurrent.futures import Executor, Future, ProcessPoolExecutor, ThreadPoolExecutor

import numpy as np

from mc import dfh  # noqa: F401  (pyarrow stand-in + dask.dataframe)
from mc.props._c1x import same
from mc.run import Hang

import pandas as pd  # noqa: E402

import dask  # noqa: E402
import dask.array as da  # noqa: E402
import dask.bag as db  # noqa: E402
import dask.dataframe as dd  # noqa: E402
from dask import delayed  # noqa: E402
from dask.base import is_dask_collection  # noqa: E402
from dask.delayed import Delayed  # noqa: E402

ID = "C14"
LEVEL = "exploration"
WATCHDOG_S = 30.0
NSHARDS = 48
ASSUMPTIONS = [
    "an iterator argument comes back as a list of its (mapped) items -- dask documents 'treat iterators like lists'",
    "templates whose plain-Python construction or whose eager reference raises (unhashable member of a set / dict key) are inapplicable",
    "the 'processes' scheduler is exercised (a) through dask.multiprocessing.get with an in-line executor (real pickling of every task and "
    "result) in the sweep and (b) with one real forked 2-process pool in a bounded conformance pass",
    "dataclasses with init=False fields are excluded a priori (how to rebuild them is undefined; dask.delayed documents them as unsupported)",
]

KINDS = ("dly", "dln", "arr", "bag", "item", "df", "ser", "sc")  # dln = Delayed with nout=2 (has a length, can be unpacked)
PAIRS_MAIN = (("dln", "dly"), ("arr", "bag"), ("bag", "dly"), ("dly", "arr"), ("df", "sc"), ("dly", "df"), ("item", "ser"), ("sc", "arr"))
CONTAINERS = ("list", "tuple", "set", "dict", "dictk", "odict", "dc", "dcf", "dckw", "nt", "iter")
SCHEDS = ("sync", "threads", "executor", "mp")


def RULE(tier):
    n = sum(1 for _ in all_cases(tier))
    d = 2 if tier == "quick" else 3
    return (
        f"{n} cases: every template of depth <= {d} over containers {CONTAINERS + ('args',)} (depth 1: all item tuples of length 1-2 over 7 leaves "
        "{X, X again, Y, 1, 's', None, opaque object}; deeper levels: every outer container x 4 arrangements x every inner container x 6 item tuples) "
        f"x 8 (X kind, Y kind) pairs over {KINDS} through dask.compute; core templates (every container x 4 item tuples) x ALL 64 kind pairs x "
        "traverse {T,F} x optimize_graph {T,F} x scheduler {sync, threads, ThreadPoolExecutor instance, multiprocessing.get with in-line pool}; "
        "every depth-1 template x 8 kind pairs x each single option flipped; dask.persist and dask.optimize on every depth-1 template and the "
        "core depth-2 templates (8 kind pairs) and the core templates (64 pairs): same structure, same collection type and metadata "
        "(array dtype/shape/chunks/_meta, bag npartitions, frame npartitions/divisions/columns/dtypes, Delayed length = nout, whose unpacking must "
        "still yield the elements), same computed values; INTERLEAVED templates (X, Y, Z[, W]) with Z a second distinct collection "
        "of X's kind and W of Y's kind, in list/tuple/dict/positional args (thorough: + OrderedDict/iterator, all 24 orders) and nested, all 64 kind pairs, compute x "
        "optimize_graph x scheduler, persist, optimize. non-trivial = the template holds >= 1 collection inside a container."
    )


# ====================================================================== container types that must survive
@dataclasses.dataclass
class DC1:
    p: object


@dataclasses.dataclass
class DC2:
    p: object
    q: object


@dataclasses.dataclass(frozen=True)
class DCF1:
    p: object


@dataclasses.dataclass(frozen=True)
class DCF2:
    p: object
    q: object


@dataclasses.dataclass(kw_only=True)
class DCK1:
    p: object


@dataclasses.dataclass(kw_only=True)
class DCK2:
    p: object
    q: object


NT1 = collections.namedtuple("NT1", ["p"])
NT2 = collections.namedtuple("NT2", ["p", "q"])


class Opaque:
    """a non-collection leaf that must come back as the identical object"""

    def __repr__(self):
        return "<opaque>"


OPAQUE = Opaque()


def inc(x):
    return x + 1


def pair(x):
    return (x, x + 1)


# ====================================================================== collections and their eager values
def make(kind, which):
    """-> (collection, eager value).  which in {'X', 'Y', 'Z', 'W'}: different data, so no two of them compute to equal values"""
    off = {"X": 0, "Y": 10, "Z": 20, "W": 30}[which]
    if kind == "dly":
        return delayed(inc, pure=True)(delayed(5 + off, name=f"five-{which}")), 6 + off
    if kind == "dln":
        return delayed(pair, pure=True, nout=2)(delayed(5 + off, name=f"five-{which}")), (5 + off, 6 + off)
    if kind == "arr":
        x = np.arange(4) + 1 + off
        return da.from_array(x, chunks=2) + 1, x + 1
    if kind == "bag":
        s = [1 + off, 2 + off, 3 + off]
        return db.from_sequence(s, npartitions=2).map(inc), [v + 1 for v in s]
    if kind == "item":
        s = [1 + off, 2 + off, 3 + off]
        return db.from_sequence(s, npartitions=2).sum(), sum(s)
    pdf = pd.DataFrame({"a": np.arange(4) + 1 + off, "b": [1.5, 2.5, 3.5, 4.5]})
    ddf = dd.from_pandas(pdf, npartitions=2)
    if kind == "df":
        return ddf, pdf
    if kind == "ser":
        return ddf["a"] + 1, pdf["a"] + 1
    if kind == "sc":
        return ddf["a"].sum(), pdf["a"].sum()
    raise ValueError(kind)


def meta_of(c):
    """the metadata persist/optimize must keep"""
    t = type(c).__name__
    if isinstance(c, da.Array):
        return (t, str(c.dtype), c.shape, c.chunks, type(c._meta).__name__, str(c._meta.dtype), c._meta.ndim)
    if isinstance(c, Delayed):
        try:
            return (t, len(c))  # a Delayed built with nout=k has length k
        except TypeError:
            return (t, None)
    if isinstance(c, db.Bag):
        return (t, c.npartitions)
    if isinstance(c, dd.DataFrame):
        return (t, c.npartitions, tuple(c.divisions), tuple(c.columns), tuple(map(str, c.dtypes)))
    if isinstance(c, dd.Series):
        return (t, c.npartitions, tuple(c.divisions), c.name, str(c.dtype))
    return (t,)


# ====================================================================== templates
# leaves: ("X",) ("X2",) ("Y",) ("O",) and the literals 1, "s", None.   containers: (kind, items)
# interleave templates additionally use ("Z",) = a second, DISTINCT collection of X's kind and ("W",) = a second one of Y's kind
COLL = ("X", "X2", "Y", "Z", "W")
SEQ_CONTAINERS = ("list", "tuple", "dict", "args")  # containers of arbitrary length (thorough adds odict, iter)
ITEMS_INTERLEAVED = ((("X",), ("Y",), ("Z",)), (("X",), ("Y",), ("Z",), ("W",)), (("X",), ("Y",), ("X2",), ("Z",)))
LEAVES = (("X",), ("X2",), ("Y",), 1, "s", None, ("O",))
CORE_ITEMS = ((("X",),), (("X",), ("Y",)), (("X",), ("X2",)), (1, ("X",)))
INNER_ITEMS = CORE_ITEMS + ((("X",), None), (("O",), ("X",)))


def is_leaf(t):
    return not isinstance(t, tuple) or len(t) == 1


def depth1():
    for c in CONTAINERS + ("args",):
        for n in (1, 2):
            for items in itertools.product(LEAVES, repeat=n):
                yield (c, items)


def core1():
    for c in CONTAINERS + ("args",):
        for items in CORE_ITEMS:
            yield (c, items)


def deeper(inner_templates):
    for c in CONTAINERS + ("args",):
        for inner in inner_templates:
            yield (c, (inner,))
            yield (c, (inner, ("X",)))
            yield (c, (("Y",), inner))
            yield (c, (inner, 1))


def depth2():
    return deeper([(c, items) for c in CONTAINERS for items in INNER_ITEMS])


def core2():
    return deeper([(c, items) for c in CONTAINERS for items in CORE_ITEMS[:2]])


def depth3():
    inner2 = [(c, (inner,) + extra) for c in CONTAINERS for inner in [(ci, items) for ci in CONTAINERS for items in CORE_ITEMS[:2]] for extra in ((), (("Y",),))]
    return deeper(inner2)


def construct(t, env):
    """template -> python object (raises TypeError for unhashable set members / dict keys)"""
    if is_leaf(t):
        if isinstance(t, tuple):
            return env["X" if t[0] == "X2" else t[0]]
        return t
    c, items = t
    vals = [construct(i, env) for i in items]
    if c == "list":
        return vals
    if c in ("tuple", "args"):
        return tuple(vals)
    if c == "set":
        return set(vals)
    if c == "dict":
        return {f"k{i}": v for i, v in enumerate(vals)}
    if c == "dictk":
        return {v: i for i, v in enumerate(vals)}
    if c == "odict":
        return collections.OrderedDict((f"k{len(vals) - i}", v) for i, v in enumerate(vals))
    if c in ("dc", "dcf", "nt"):
        cls = {("dc", 1): DC1, ("dc", 2): DC2, ("dcf", 1): DCF1, ("dcf", 2): DCF2, ("nt", 1): NT1, ("nt", 2): NT2}[(c, len(vals))]
        return cls(*vals)
    if c == "dckw":
        return (DCK1 if len(vals) == 1 else DCK2)(**dict(zip("pq", vals)))
    if c == "iter":
        return iter(vals)
    raise ValueError(c)


def expected(t, env):
    """what compute must return for the template: env maps X/Y to eager values; iterators become lists"""
    if not is_leaf(t) and t[0] == "iter":
        return [expected(i, env) for i in t[1]]
    if is_leaf(t):
        return construct(t, env)
    c, items = t
    return _assemble(c, [expected(i, env) for i in items])


def _assemble(c, vals):
    if c == "list":
        return list(vals)
    if c in ("tuple", "args"):
        return tuple(vals)
    if c == "set":
        return set(vals)
    if c == "dict":
        return {f"k{i}": v for i, v in enumerate(vals)}
    if c == "dictk":
        return {v: i for i, v in enumerate(vals)}
    if c == "odict":
        return collections.OrderedDict((f"k{len(vals) - i}", v) for i, v in enumerate(vals))
    if c in ("dc", "dcf", "nt"):
        cls = {("dc", 1): DC1, ("dc", 2): DC2, ("dcf", 1): DCF1, ("dcf", 2): DCF2, ("nt", 1): NT1, ("nt", 2): NT2}[(c, len(vals))]
        return cls(*vals)
    if c == "dckw":
        return (DCK1 if len(vals) == 1 else DCK2)(**dict(zip("pq", vals)))
    raise ValueError(c)


def holds_nested_collection(t, depth=0):
    if is_leaf(t):
        return depth >= 1 and isinstance(t, tuple) and t[0] in COLL
    return any(holds_nested_collection(i, depth + (0 if t[0] == "args" else 1)) for i in t[1])


def features(t):
    """container kinds used anywhere in the template"""
    if is_leaf(t):
        return set()
    out = {t[0]}
    for i in t[1]:
        out |= features(i)
    return out


def leaf_names(t):
    if is_leaf(t):
        return {t[0]} if isinstance(t, tuple) else set()
    out = set()
    for i in t[1]:
        out |= leaf_names(i)
    return out


# ====================================================================== structural walk for persist / optimize
def walk_collections(t, got, env, vals, path="$"):
    """got must mirror template t; collection leaves must be collections of the same type/meta computing to the eager value.
    -> (failure-class, reason) | None"""
    if is_leaf(t):
        if isinstance(t, tuple) and t[0] in COLL:
            name = "X" if t[0] == "X2" else t[0]
            orig = env[name]
            if not is_dask_collection(got):
                return ("leaf-not-collection", f"{path}: expected a {type(orig).__name__}, got {type(got).__name__} {got!r}"[:300])
            if type(got) is not type(orig):
                return ("type-changed", f"{path}: {type(orig).__name__} became {type(got).__name__}")
            if meta_of(got) != meta_of(orig):
                return ("meta-changed", f"{path}: meta {meta_of(orig)} became {meta_of(got)}")
            try:
                v = got.compute(scheduler="sync")
            except Hang:
                raise
            except Exception as e:  # noqa: BLE001
                return (f"result-compute-raises:{type(e).__name__}", f"{path}: returned {type(got).__name__} fails to compute: {e!r}"[:300])
            why = same(v, vals[name])
            if why:
                return ("wrong-value", f"{path}: returned {type(got).__name__} computes to a different value: {why}")
            if isinstance(orig, Delayed) and meta_of(orig)[1] is not None:  # nout: unpacking must still yield the elements
                try:
                    parts = dask.compute(*list(got), scheduler="sync")
                except Hang:
                    raise
                except Exception as e:  # noqa: BLE001
                    return (f"unpack-raises:{type(e).__name__}", f"{path}: unpacking the returned Delayed raised {e!r}"[:300])
                why = same(tuple(parts), tuple(vals[name]))
                if why:
                    return ("wrong-unpacked-value", f"{path}: unpacked elements differ: {why}")
            return None
        if isinstance(t, tuple):  # opaque
            return None if got is env["O"] else ("leaf-changed", f"{path}: opaque leaf is not the identical object: {got!r}")
        why = same(got, t)
        return ("leaf-changed", f"{path}: {why}") if why else None
    c, items = t
    if c == "iter":
        if not isinstance(got, list):
            got = list(got) if hasattr(got, "__next__") else got
        c = "list"
    want_type = {"list": list, "tuple": tuple, "args": tuple, "set": set, "dict": dict, "dictk": dict, "odict": collections.OrderedDict}.get(c)
    if want_type is None:
        n = len(items)
        want_type = {("dc", 1): DC1, ("dc", 2): DC2, ("dcf", 1): DCF1, ("dcf", 2): DCF2, ("dckw", 1): DCK1, ("dckw", 2): DCK2, ("nt", 1): NT1, ("nt", 2): NT2}[(c, n)]
    if type(got) is not want_type:
        return ("wrong-structure", f"{path}: expected {want_type.__name__}, got {type(got).__name__} {got!r}"[:300])
    if c in ("list", "tuple", "args", "nt"):
        children = [list(got)]
    elif c in ("dc", "dcf", "dckw"):
        children = [[getattr(got, f.name) for f in dataclasses.fields(got)]]
    elif c in ("dict", "odict"):
        keys = [f"k{i}" for i in range(len(items))] if c == "dict" else [f"k{len(items) - i}" for i in range(len(items))]
        if list(got.keys()) != keys and (c == "odict" or sorted(got.keys()) != sorted(keys)):
            return ("wrong-structure", f"{path}: keys {list(got.keys())!r} != {keys!r}")
        children = [[got[k] for k in keys]]
    elif c == "set":
        # X2 is the same object as X: the set holds it once
        distinct = []
        for i in items:
            k = ("X",) if i == ("X2",) else i
            if k not in distinct:
                distinct.append(k)
        items = tuple(distinct)
        if len(got) != len(items):
            return ("wrong-structure", f"{path}: set of {len(got)} members, expected {len(items)}")
        children = [list(p) for p in itertools.permutations(list(got))]
    elif c == "dictk":
        distinct = {}
        for idx, i in enumerate(items):
            distinct[("X",) if i == ("X2",) else i] = idx
        if len(got) != len(distinct):
            return ("wrong-structure", f"{path}: dict of {len(got)} keys, expected {len(distinct)}")
        items = tuple(distinct)
        want_vals = list(distinct.values())
        children = [list(p) for p in itertools.permutations(list(got.keys())) if [got[k] for k in p] == want_vals]
        if not children:
            return ("wrong-structure", f"{path}: dict values {list(got.values())!r} != {want_vals!r}")
    else:
        raise ValueError(c)
    first = None
    for ch in children:
        if len(ch) != len(items):
            return ("wrong-structure", f"{path}: {len(ch)} children, expected {len(items)}")
        bad = None
        for k, (ti, gi) in enumerate(zip(items, ch)):
            bad = walk_collections(ti, gi, env, vals, f"{path}.{c}[{k}]")
            if bad:
                break
        if bad is None:
            return None
        first = first or bad
    return first


# ====================================================================== cases
def all_cases(tier):
    """(api, template, kindX, kindY, traverse, optimize_graph, scheduler)"""
    T = tier == "thorough"
    pairs_all = tuple(itertools.product(KINDS, KINDS))
    d1, c1, d2, c2 = list(depth1()), list(core1()), list(depth2()), list(core2())
    leaves0 = [("args", (leaf,)) for leaf in LEAVES]
    # A: structure sweep through compute with default options
    for t in d1 + d2 + (list(depth3()) if T else []):
        for kx, ky in PAIRS_MAIN:
            yield ("compute", t, kx, ky, True, True, "sync")
    # B: core templates: ALL kind pairs x (every scheduler at default options + every traverse/optimize_graph combination at sync);
    #    the 8 main kind pairs get the full traverse x optimize_graph x scheduler product
    for t in c1 + (c2 if T else []):
        for kx, ky in pairs_all:
            main = (kx, ky) in PAIRS_MAIN
            for tr in (True, False):
                for og in (True, False):
                    for s in SCHEDS:
                        if (tr, og, s) == (True, True, "sync") and main:
                            continue  # already in A
                        if main or T or s == "sync" or (tr and og):
                            yield ("compute", t, kx, ky, tr, og, s)
    # C: every depth-1 template, each single option flipped
    for t in d1 + (d2 if T else []):
        for n, (kx, ky) in enumerate(PAIRS_MAIN):
            yield ("compute", t, kx, ky, False, True, "sync")
            yield ("compute", t, kx, ky, True, False, "sync")
            if T or n % 4 == 1:
                for s in SCHEDS[1:]:
                    yield ("compute", t, kx, ky, True, True, s)
    # D: persist / optimize
    for api in ("persist", "optimize"):
        for t in d1 + (d2 if T else []):
            for kx, ky in PAIRS_MAIN:
                yield (api, t, kx, ky, True, True, "sync")
        if not T:
            for t in c2:
                for kx, ky in PAIRS_MAIN[1::2]:
                    yield (api, t, kx, ky, True, True, "sync")
        for t in c1:
            for kx, ky in pairs_all:
                for tr in (True, False):
                    for og in (True, False) if api == "persist" else (True,):
                        if (tr, og) != (True, True) or (kx, ky) not in PAIRS_MAIN:
                            yield (api, t, kx, ky, tr, og, "sync")
        if api == "persist":
            for t in c1:
                for kx, ky in PAIRS_MAIN:
                    for s in SCHEDS[1:]:
                        yield (api, t, kx, ky, True, True, s)
    # E: INTERLEAVED kinds: two distinct collections of X's kind separated by one of Y's kind (and 4-tuples X, Y, Z, W), flat and nested,
    #    every ordered kind pair, compute (every optimize_graph x scheduler) / persist / optimize
    inter = [(c, items) for c in SEQ_CONTAINERS + (("odict", "iter") if T else ()) for items in ITEMS_INTERLEAVED]
    inter += [("list", (("X",), ("tuple", (("Y",),)), ("Z",))), ("args", (("list", (("X",),)), ("Y",), ("dict", (("Z",),))))]
    if T:
        inter += [(c, (("dc", (("X",), ("Y",))), ("Z",), ("W",))) for c in SEQ_CONTAINERS] + [(c, p) for c in ("list", "args") for p in itertools.permutations((("X",), ("Y",), ("Z",), ("W",)))]
    for t in inter:
        for kx, ky in pairs_all:
            for og in (True, False):
                for s in SCHEDS:
                    if T or s == "sync" or og:
                        yield ("compute", t, kx, ky, True, og, s)
                yield ("persist", t, kx, ky, True, og, "sync")
            yield ("optimize", t, kx, ky, True, True, "sync")
            if t[0] == "args":
                for api in ("compute", "persist", "optimize"):
                    yield (api, t, kx, ky, False, True, "sync")
    for t in leaves0:
        for api in ("compute", "persist", "optimize"):
            yield (api, t, "dly", "arr", False, True, "sync")


def shards(tier):
    k = NSHARDS if tier == "quick" else 4 * NSHARDS
    return [(i, k) for i in range(k)]


def cases_of(shard, tier):
    i, k = shard
    for idx, case in enumerate(all_cases(tier)):
        if idx % k == i:
            yield case


# ====================================================================== schedulers
class InlineExecutor(Executor):
    """runs each submitted batch immediately; passed as pool= to dask.multiprocessing.get, so every task and result is
    really serialised with cloudpickle exactly as for a process pool"""

    _max_workers = 2

    def submit(self, fn, *args, **kwargs):
        f = Future()
        try:
            f.set_result(fn(*args, **kwargs))
        except BaseException as e:  # noqa: BLE001
            f.set_exception(e)
        return f


_TPE = None


def sched_kwargs(s):
    global _TPE
    if s == "sync":
        return {"scheduler": "sync"}
    if s == "threads":
        return {"scheduler": "threads", "num_workers": 2}
    if s == "executor":
        if _TPE is None:
            _TPE = ThreadPoolExecutor(2)
        return {"scheduler": _TPE}
    if s == "mp":
        return {"scheduler": "processes", "pool": InlineExecutor()}
    raise ValueError(s)


# ====================================================================== finding classes
def used_kinds(case):
    """kinds of the DISTINCT collections held by the template (one entry per collection)"""
    _, t, kx, ky = case[:4]
    names = leaf_names(t)
    out = []
    if names & {"X", "X2"}:
        out.append(kx)
    if "Y" in names:
        out.append(ky)
    if "Z" in names:
        out.append(kx)
    if "W" in names:
        out.append(ky)
    return out


def known_class(case, failure, message):
    """-> full finding key of a recorded defect whose narrow input class AND failure signature this case matches, else None"""
    api, t = case[0], case[1]
    feats, used = features(t), used_kinds(case)
    if "dckw" in feats and failure == "raises:TypeError" and "positional argument" in message and "DCK" in message:
        return "raises:TypeError:dataclass-kw_only"
    if "iter" in feats and not used and failure in ("wrong-result", "wrong-structure"):
        return "items-lost:iterator-without-collections"
    if api == "optimize":
        if "sc" in used and failure == "raises:NotImplementedError":
            return "optimize:raises:NotImplementedError:dataframe-reduction"
        if len(used) >= 2 and {"df", "ser"} & set(used):
            if failure == "raises:TypeError" and "'<' not supported between instances of" in message:
                return "optimize:raises:TypeError:dataframe-among-other-collections"
            if failure == "wrong-value":
                return "optimize:wrong-value:dataframe-among-other-collections"
    return None


# ====================================================================== one case
def run_case(case, ctx, extra_sched=None):
    api, t, kx, ky, traverse, og, s = case
    with warnings.catch_warnings():
        warnings.simplefilter("ignore")
        X, vx = make(kx, "X")
        Y, vy = make(ky, "Y")
        env = {"X": X, "Y": Y, "O": OPAQUE}
        vals = {"X": vx, "Y": vy, "O": OPAQUE}
        if leaf_names(t) & {"Z", "W"}:
            env["Z"], vals["Z"] = make(kx, "Z")
            env["W"], vals["W"] = make(ky, "W")
        try:
            obj = construct(t, env)
            # reference for compute; also proves that the eager structure exists at all
            if traverse:
                want = expected(t, vals)
            else:
                # only top-level arguments that are collections are computed; everything else is returned as it is
                want = None
        except TypeError:
            ctx.count("inapplicable")
            return
        args = obj if t[0] == "args" else (obj,)
        targs = t[1] if t[0] == "args" else (t,)
        kw = dict(extra_sched or sched_kwargs(s))
        if api == "optimize":
            kw = {}
        else:
            kw["optimize_graph"] = og
        fn = {"compute": dask.compute, "persist": dask.persist, "optimize": dask.optimize}[api]
        try:
            got = fn(*args, traverse=traverse, **kw)
            exc = None
        except Hang:
            raise
        except Exception as e:  # noqa: BLE001
            got, exc = None, e
        nontrivial = holds_nested_collection(t)
        failure = reason = None
        if exc is not None:
            failure, reason = f"raises:{type(exc).__name__}", f"dask.{api} raised {exc!r}"[:500]
        elif not isinstance(got, tuple) or len(got) != len(args):
            failure, reason = "wrong-structure", f"returned {type(got).__name__} of length {len(got) if hasattr(got, '__len__') else '?'} for {len(args)} arguments"
        elif api == "compute":
            for k, (ti, ai, gi) in enumerate(zip(targs, args, got)):
                if traverse:
                    wi = want[k] if t[0] == "args" else want
                    why = same(gi, wi)
                    if why and not is_leaf(ti) and ti[0] == "iter" and hasattr(gi, "__next__"):
                        why = same(list(gi), wi)
                elif is_leaf(ti) and isinstance(ti, tuple) and ti[0] in COLL:
                    why = same(gi, vals["X" if ti[0] == "X2" else ti[0]])
                else:
                    why = None if gi is ai else f"traverse=False: argument {k} is not returned as the identical object: {gi!r}"[:300]
                if why:
                    failure, reason = "wrong-result", f"argument {k}: {why}"
                    break
        else:
            for k, (ti, ai, gi) in enumerate(zip(targs, args, got)):
                if traverse or (is_leaf(ti) and isinstance(ti, tuple) and ti[0] in COLL):
                    bad = walk_collections(ti, gi, env, vals, f"arg{k}")
                else:
                    bad = None if gi is ai else ("leaf-changed", f"traverse=False: argument {k} is not returned as the identical object")
                if bad:
                    failure, reason = bad
                    break
    ctx.case(case, nontrivial=nontrivial, outcome=(api, t[0], kx, ky, traverse, og, s, failure))
    if failure:
        key = known_class(case, failure, reason) or f"{api}:{failure}"
        ctx.violation(key, case, f"{reason}  [template {t!r}, X={kx}, Y={ky}, traverse={traverse}, optimize_graph={og}, scheduler={s}]")


def run_shard(shard, ctx):
    for case in cases_of(shard, ctx.tier):
        if ctx.out_of_time():
            return
        ctx.guard(case, run_case, case, ctx)


def replay(case, ctx):
    run_case(case, ctx)


# ====================================================================== conformance: one real process pool
def conformance(ctx):
    import multiprocessing as mp

    n = 0
    pool = ProcessPoolExecutor(2, mp_context=mp.get_context("fork"))
    try:
        for t in core1():
            for kx, ky in (("dly", "arr"), ("bag", "df"), ("sc", "item")):
                case = ("compute", t, kx, ky, True, True, "processes-real")
                ctx.guard(case, run_case, case, ctx, {"scheduler": "processes", "pool": pool})
                n += 1
    finally:
        pool.shutdown(wait=True, cancel_futures=True)
    return {"real_process_pool_cases": n, "violations": sorted(ctx.violations)}
