"""C25 -- lazy array metadata (.shape/.dtype/.chunks) matches the computed data (DESIGN 5/C25).

Exhaustive enumeration of PROGRAMS: every pipeline of unary steps (drawn from the operation families of C19-C24, C26, C27,
each with fixed small arguments) up to a depth, applied to every base array under EVERY chunking.  The invariant of the
statement is evaluated on the final node of every pipeline (prefixes are pipelines of their own, so every node of every
program tree is covered):

  * np.shape/np.dtype of ``d.compute()`` equal the lazy ``d.shape`` / ``d.dtype``  (NaN-declared extents are skipped),
  * every block computed ALONE (one ``to_delayed`` object at a time, and through ``d.blocks[idx]``) is an array whose shape
    is what ``d.chunks`` declares for that block index,
  * the separately computed blocks, placed by their block index, reassemble exactly ``d.compute()``.

NumPy runs the same pipeline next to dask only to decide applicability (NumPy raises -> the program is not an expression);
values are NOT compared with NumPy here (that is C19-C24/C26/C27's job, G4).
"""
from __future__ import annotations

import itertools
import warnings

import numpy as np

from mc import arr, enums
from mc.run import Hang

ID = "C25"
LEVEL = "exploration"
WATCHDOG_S = 30.0
ASSUMPTIONS = [
    "sync scheduler; base data are distinct positive integers (int64) wrapped with from_array",
    "extents that dask itself declares unknown (NaN chunks after boolean masks / unique / nonzero) are not compared; everything else of such nodes is",
    "a program on which the same NumPy pipeline raises is not an array expression (counted inapplicable); dask NotImplementedError and the "
    "documented 'chunk sizes are unknown' ValueError are refusals (counted rejected)",
    "a failure on a node whose immediate prefix node already violates the invariant is attributed to the prefix (which is a program of its "
    "own in the enumeration) and only counted (inherited_from_prefix)",
]

BASES = [(5,), (2, 3), (3, 2), (3, 4), (2, 2, 2)]


class ArrayLike:
    """minimal non-ndarray array-like (as h5py / zarr / netCDF variables are): from_array wraps it block by block with
    getter(arr, slices) tasks, which the array optimizer fuses with the slicing tasks built on top"""

    def __init__(self, a):
        self._a = a
        self.shape, self.dtype, self.ndim = a.shape, a.dtype, a.ndim

    def __getitem__(self, key):
        return self._a[key]


# ---------------------------------------------------------------------------------------------- index-tuple families
# real (non-None) index entries per axis: an int, ':', a slice starting inside the first block, a slice stopping inside the last
REAL4 = (0, ("s", None, None, None), ("s", 1, None, None), ("s", None, -1, None))
REAL3 = REAL4[:3]
AL_BASES = [(5,), (2, 3), (3, 2)]  # depth-1 programs on from_array(<non-ndarray array-like>)
IX_SPECS = [((2, 3), REAL4, 3), ((2, 2, 2), REAL3, 2)]  # (shape, real alphabet, max number of None entries)
IX2_BASES = [(2, 3), (3, 2)]


def index_tuples(ndim, reals, max_none):
    """EVERY index tuple with r <= ndim real entries (missing trailing axes are implicit ':') and k <= max_none np.newaxis
    entries, in every interleaving"""
    for r in range(ndim + 1):
        for k in range(max_none + 1):
            if r + k == 0:
                continue
            for where_none in itertools.combinations(range(r + k), k):
                for real in itertools.product(reals, repeat=r):
                    it = iter(real)
                    yield tuple("None" if i in where_none else next(it) for i in range(r + k))


def basic_tuples(ndim, reals):
    for r in range(1, ndim + 1):
        yield from itertools.product(reals, repeat=r)


def _getitem_op(ix):
    idx = tuple(arr.sl(t) for t in ix)
    return (lambda x: x[idx]), (lambda x: x[idx])


# ---------------------------------------------------------------------------------------------- step alphabet
def _need(x, ndim):
    if x.ndim < ndim:
        raise IndexError(f"step needs ndim >= {ndim}")


def _np_coarsen(x):
    _need(x, 1)
    if x.shape[0] < 2:
        # a priori: trim_excess would trim the whole axis; dask refuses to build the empty result ("Empty tuples are not
        # allowed in chunks") and NumPy has no coarsen that could contradict it
        raise ValueError("coarsening factor larger than the axis")
    k = x.shape[0] // 2
    return x[: 2 * k].reshape((k, 2) + x.shape[1:]).sum(axis=1)


def _setitem(x):
    y = x.copy()
    y[::2] = 0
    return y


def _np_tril(x):
    _need(x, 2)
    return np.tril(x)


def _np_rechunk_ax0(x):
    _need(x, 1)
    return x


def _np_map_overlap(x):
    _need(x, 1)
    return x * 2


def _double(b):
    return b * 2


def _da():
    import dask.array as da

    return da


def _posmask(xp, x):
    """boolean array of x's shape (and, for dask, x's chunks): False on the first two cells in C order, True elsewhere"""
    pos = np.arange(int(np.prod(x.shape))).reshape(x.shape) >= 2  # raises on unknown (NaN) shapes -> refusal class 'unknown chunks'
    return pos if xp is np else xp.from_array(pos, chunks=x.chunks)


# name -> (dask function, numpy function).  Both take the array only; arguments are fixed and small.
def _steps():
    da = _da()
    from numpy.lib.stride_tricks import sliding_window_view as np_swv

    from dask.array.lib.stride_tricks import sliding_window_view as da_swv
    from dask.array.overlap import overlap, trim_internal

    def both(f):
        return (lambda x: f(da, x)), (lambda x: f(np, x))

    S = {}
    # ---- C19 elementwise / broadcasting
    S["add1"] = both(lambda xp, x: x + 1)
    S["gt"] = both(lambda xp, x: x > 2)
    S["truediv"] = both(lambda xp, x: x / 2)
    S["astype_f4"] = both(lambda xp, x: x.astype("f4"))
    S["where"] = both(lambda xp, x: xp.where(x > 2, x, 0))
    S["bcast"] = both(lambda xp, x: x + x[..., :1])
    # ---- C20 indexing
    S["tail"] = both(lambda xp, x: x[1:])
    S["head"] = both(lambda xp, x: x[:-1])
    S["rev"] = both(lambda xp, x: x[::-1])
    S["step_last"] = both(lambda xp, x: x[..., ::2])
    S["int_last"] = both(lambda xp, x: x[..., 0])
    S["list0"] = both(lambda xp, x: x[[-1, 0]])
    # masks select by POSITION (all but the first two cells), not by value: which blocks become empty must not depend on the
    # seed-chosen permutation of the data, so that the enumerated space -- and the set of finding keys -- is seed-independent
    S["boolmask"] = both(lambda xp, x: x[_posmask(xp, x)])
    S["newaxis"] = both(lambda xp, x: x[:, None])
    # ---- C21 assignment
    S["setitem"] = both(lambda xp, x: _setitem(x))
    # ---- C22 reductions / scans
    S["sum0"] = both(lambda xp, x: x.sum(axis=0))
    S["sum_all"] = both(lambda xp, x: x.sum())
    S["mean_keep"] = both(lambda xp, x: x.mean(axis=-1, keepdims=True))
    S["cumsum0"] = both(lambda xp, x: xp.cumsum(x, axis=0))
    S["argmax_last"] = both(lambda xp, x: x.argmax(axis=-1))
    S["topk"] = (lambda x: da.topk(x, 2, axis=-1)), (lambda x: np.sort(x, axis=-1)[..., ::-1][..., :2])
    S["var0"] = both(lambda xp, x: x.var(axis=0))
    # ---- C23 rechunk
    S["rechunk2"] = (lambda x: x.rechunk(2)), (lambda x: x)
    S["rechunk_ax0"] = (lambda x: x.rechunk({0: -1})), _np_rechunk_ax0
    # ---- C24 structural
    S["ravel"] = both(lambda xp, x: x.reshape(-1))
    S["reshape2"] = both(lambda xp, x: x.reshape(-1, 2))
    S["T"] = both(lambda xp, x: x.T)
    S["concat"] = both(lambda xp, x: xp.concatenate([x, x[:1]], axis=0))
    S["stack"] = both(lambda xp, x: xp.stack([x, x], axis=-1))
    S["pad"] = both(lambda xp, x: xp.pad(x, 1, mode="edge"))
    S["tril"] = (lambda x: da.tril(x)), _np_tril
    S["diff"] = both(lambda xp, x: xp.diff(x, axis=-1))
    S["roll"] = both(lambda xp, x: xp.roll(x, 1, axis=0))
    S["repeat"] = both(lambda xp, x: xp.repeat(x, 2, axis=0))
    S["broadcast_to"] = both(lambda xp, x: xp.broadcast_to(x, (2,) + tuple(x.shape)))
    S["tile"] = both(lambda xp, x: xp.tile(x, 2))
    # ndim >= 1 a priori: np.take(<0-d>, [...], axis=-1) is accepted by NumPy only through its 0-d -> 1-d promotion quirk
    S["take"] = (lambda x: da.take(x, [0, 0, -1], axis=-1)), (lambda x: (_need(x, 1), np.take(x, [0, 0, -1], axis=-1))[1])
    S["squeeze"] = both(lambda xp, x: xp.squeeze(x))
    # ---- C26 overlap
    S["map_overlap"] = (lambda x: da.map_overlap(_double, x, depth=1, boundary="reflect")), _np_map_overlap
    S["overlap_trim"] = (
        lambda x: trim_internal(overlap(x, depth=1, boundary="none"), {i: 1 for i in range(x.ndim)}, boundary="none"),
        _np_rechunk_ax0,
    )
    S["sliding"] = (lambda x: da_swv(x, 2, axis=-1)), (lambda x: np_swv(x, 2, axis=-1))
    # ---- C27 routines
    S["unique"] = both(lambda xp, x: xp.unique(x))
    S["bincount"] = both(lambda xp, x: xp.bincount(x, minlength=3))
    S["flatnonzero"] = both(lambda xp, x: xp.flatnonzero(_posmask(xp, x)))
    S["histogram"] = both(lambda xp, x: xp.histogram(x, bins=3, range=(0, 12))[0])
    S["digitize"] = both(lambda xp, x: xp.digitize(x, np.array([2, 5])))
    S["isin"] = both(lambda xp, x: xp.isin(x, [1, 3]))
    S["count_nonzero"] = both(lambda xp, x: xp.count_nonzero(x > 2, axis=0))
    S["coarsen"] = (lambda x: da.coarsen(np.sum, x, {0: 2}, trim_excess=True)), _np_coarsen
    S["compress"] = both(lambda xp, x: xp.compress([True, False, True], x, axis=0))
    S["argwhere"] = both(lambda xp, x: xp.argwhere(_posmask(xp, x)))
    # a priori: steps that name an axis (or index one) need ndim >= 1.  NumPy accepts axis=0/-1 on 0-d input through its
    # 0-d -> 1-d promotion (np.sum(np.int64(3), axis=0), np.repeat(np.int64(3), 2, axis=0), np.int64(3)[np.True_]); dask
    # refuses them with AxisError/IndexError, which no statement forbids.
    for name in NEED_1D:
        S[name] = (S[name][0], _with_need(S[name][1], 1))
    return S


NEED_1D = [
    "boolmask", "sum0", "mean_keep", "cumsum0", "argmax_last", "topk", "var0", "roll", "repeat", "count_nonzero", "compress",
    "flatnonzero", "argwhere", "unique", "ravel", "reshape2", "tile", "pad", "stack",
]  # fmt: skip


def _with_need(f, ndim):
    def g(x):
        _need(x, ndim)
        return f(x)

    return g


_STEPS = None


def steps():
    global _STEPS
    if _STEPS is None:
        _STEPS = _steps()
    return _STEPS


ALL = [
    "add1", "gt", "truediv", "astype_f4", "where", "bcast",
    "tail", "head", "rev", "step_last", "int_last", "list0", "boolmask", "newaxis",
    "setitem",
    "sum0", "sum_all", "mean_keep", "cumsum0", "argmax_last", "topk", "var0",
    "rechunk2", "rechunk_ax0",
    "ravel", "reshape2", "T", "concat", "stack", "pad", "tril", "diff", "roll", "repeat", "broadcast_to", "tile", "take", "squeeze",
    "map_overlap", "overlap_trim", "sliding",
    "unique", "bincount", "flatnonzero", "histogram", "digitize", "isin", "count_nonzero", "coarsen", "compress", "argwhere",
]  # fmt: skip
# the sub-alphabet used where the full one does not fit the budget: one or two members of every family, preferring the
# steps that change the chunk structure
CORE = [
    "truediv", "bcast",
    "tail", "rev", "step_last", "int_last", "list0", "boolmask",
    "setitem",
    "sum0", "mean_keep", "cumsum0", "topk",
    "rechunk2",
    "reshape2", "T", "concat", "pad", "repeat",
    "map_overlap", "sliding",
    "coarsen",
]  # fmt: skip
QUICK2_BASES = [(5,), (2, 3), (3, 2), (2, 2, 2)]  # 40 chunkings
DEEP_BASES = [(5,), (2, 3)]  # 24 chunkings

# (alphabet per position, bases)
PLANS = {
    "quick": [((ALL,), BASES), ((CORE, CORE), QUICK2_BASES)],
    "thorough": [((ALL,), BASES), ((ALL, ALL), BASES), ((CORE, CORE, CORE), DEEP_BASES)],
}


def RULE(tier):
    if tier == "quick":
        prog = (
            f"every pipeline of depth 1 over the {len(ALL)}-step alphabet and every depth-2 pipeline over the {len(CORE)}-step core alphabet "
            f"(depth 2 on the bases {QUICK2_BASES}, 40 chunkings)"
        )
    else:
        prog = (
            f"every pipeline of depth <= 2 over the {len(ALL)}-step alphabet and every depth-3 pipeline over the {len(CORE)}-step core alphabet "
            f"(depth 3 on the bases {DEEP_BASES}, 24 chunkings)"
        )
    return (
        f"{prog} (steps: elementwise/broadcast, slicing/int/list/boolean-mask indexing, setitem, reductions/scans/topk, rechunk, reshape/"
        "transpose/concatenate/stack/pad/tril/diff/roll/repeat/tile/take/broadcast_to/squeeze, map_overlap/overlap+trim/sliding_window_view, "
        "unique/bincount/nonzero/histogram/digitize/isin/count_nonzero/coarsen/compress/argwhere) on from_array of shapes "
        f"{BASES} under EVERY chunking (16+8+8+32+8 = 72). Checked on the final node of every pipeline: computed shape/dtype == lazy shape/dtype; chunks sum "
        "to shape; every block computed alone (each to_delayed object; corner blocks also via .blocks[idx]"
        + ("; all blocks via .blocks" if tier == "thorough" else "")
        + ") has the declared chunk shape; blocks placed by index reassemble compute(). non-trivial = checked node has >= 2 blocks. "
        f"Plus (both tiers): the depth-1 programs on from_array(<non-ndarray array-like>) of {AL_BASES}; EVERY index tuple with <= ndim real entries "
        "from {int, ':', '1:', ':-1'} and up to 3 (2-d) / 2 (3-d, without ':-1') np.newaxis entries in every interleaving on (2,3) and (2,2,2); EVERY pair "
        f"of consecutive basic index tuples x[i1][i2] over the same entries on {IX2_BASES}; all under every chunking."
    )


def programs(tier):
    seen = set()
    for alphs, bases in PLANS[tier]:
        for prog in itertools.product(*alphs):
            if prog in seen:
                continue
            seen.add(prog)
            yield prog, bases


NSHARD = {"quick": 64, "thorough": 256}


def shards(tier):
    # simplest first: depth-1 programs come first inside every shard; shard = residue class of the program index
    return [("prog", i, NSHARD[tier]) for i in range(NSHARD[tier])]


def extra_cases():
    """the families that are the same in both tiers (cheap single/double getitem programs and the array-like base)"""
    for s in ALL:
        for shp in AL_BASES:
            for ch in enums.chunkings(shp):
                yield ("pa", shp, ch, (s,))
    for shp, reals, max_none in IX_SPECS:
        for ix in index_tuples(len(shp), reals, max_none):
            for ch in enums.chunkings(shp):
                yield ("ix", shp, ch, ix)
    for shp in IX2_BASES:
        for i1 in basic_tuples(len(shp), REAL4):
            for i2 in basic_tuples(len(shp), REAL4):
                for ch in enums.chunkings(shp):
                    yield ("ix2", shp, ch, i1, i2)


def cases_of(shard, tier):
    _, part, nparts = shard
    for pi, (prog, bases) in enumerate(programs(tier)):
        if pi % nparts != part:
            continue
        for shp in bases:
            for ch in enums.chunkings(shp):
                yield ("p", shp, ch, prog)
    for ci, case in enumerate(extra_cases()):
        if ci % nparts == part:
            yield case


# ---------------------------------------------------------------------------------------------- the invariant
def _shape_problem(got, lazy, what):
    if len(got) != len(lazy):
        return f"{what} {got} has a different ndim than lazy {lazy}"
    for g, l in zip(got, lazy):
        if isinstance(l, float) and np.isnan(l):
            continue
        if g != l:
            return f"{what} {got} != lazy {lazy}"
    return None


def _is_array(v):
    return isinstance(v, (np.ndarray, np.generic))


def check_node(d, all_via_blocks=False):
    """-> list of (failure-class, detail); also returns number of blocks.  Exceptions from compute propagate."""
    out = []
    lazy_shape, lazy_dtype, chunks = tuple(d.shape), d.dtype, d.chunks
    nb = tuple(len(c) for c in chunks)
    if nb != tuple(d.numblocks) or len(chunks) != len(lazy_shape):
        out.append(("chunks-vs-shape", f"chunks {chunks} inconsistent with shape {lazy_shape} / numblocks {d.numblocks}"))
        return out, nb
    for ax, (c, s) in enumerate(zip(chunks, lazy_shape)):
        tot = sum(c)
        if not (np.isnan(tot) and np.isnan(s)) and tot != s:
            out.append(("chunks-vs-shape", f"chunks {chunks} do not sum to shape {lazy_shape}"))
            return out, nb
    full = d.compute()
    if not _is_array(full):
        out.append(("result-not-array", f"compute() returned {type(full).__name__}: {full!r}"))
        return out, nb
    full = np.asanyarray(full)
    p = _shape_problem(full.shape, lazy_shape, "computed shape")
    if p:
        out.append(("shape", p))
    if full.dtype != lazy_dtype:
        out.append(("dtype", f"computed dtype {full.dtype} != lazy {lazy_dtype}"))
    # ---- every block alone
    dl = d.to_delayed()
    if tuple(dl.shape) != nb:
        out.append(("blocks-grid", f"to_delayed() grid {dl.shape} != numblocks {nb}"))
        return out, nb
    grid = np.empty(nb, dtype=object)
    idxs = list(itertools.product(*[range(k) for k in nb]))
    corners = {tuple(0 for _ in nb), tuple(k - 1 for k in nb)}
    bad_block = None
    for idx in idxs:
        v = dl[idx].compute() if nb else dl.item().compute()
        want = tuple(c[i] for c, i in zip(chunks, idx))
        if not _is_array(v):
            bad_block = bad_block or ("block-not-array", f"block {idx} computed alone is {type(v).__name__}: {v!r}")
            continue
        v = np.asanyarray(v)
        p = _shape_problem(v.shape, want, f"block {idx} computed alone: shape")
        if p and not bad_block:
            bad_block = ("block-shape", p + f"  [chunks={chunks}]")
        grid[idx] = v
        if all_via_blocks or idx in corners:
            w = d.blocks[idx].compute()
            if not _is_array(w) or np.asanyarray(w).shape != v.shape or arr.equal(w, v, exact_dtype=True):
                # the failure does not depend on the step that produced d -> keyed by the array's rank only
                cls = "not-an-array" if not _is_array(w) else "differs-from-block"
                out.append((f"{cls}:{'0-d' if d.ndim == 0 else 'n-d'}", f".blocks[{idx}] computes to {w!r}, the block's own key to {v!r}", "blocksview"))
    if bad_block:
        out.append(bad_block)
        return out, nb
    # ---- reassembly
    try:
        if grid.size == 0:
            asm = np.empty(full.shape, dtype=full.dtype) if full.size == 0 else None
        elif d.ndim == 0:
            asm = grid[()]
        else:
            asm = np.block(grid.tolist())
    except Exception as e:  # noqa: BLE001
        out.append(("reassemble", f"blocks do not tile: {e!r}"))
        return out, nb
    if asm is None:
        out.append(("reassemble", f"no blocks but compute() has shape {full.shape}"))
    else:
        why = arr.equal(asm, full, exact_dtype=False)
        if why:
            out.append(("reassemble", f"blocks placed by index != compute(): {why}"))
    return out, nb


def _refusal(e):
    if isinstance(e, NotImplementedError):
        return True
    if isinstance(e, ValueError):
        m = str(e).lower()
        return "chunk sizes are unknown" in m or "unknown chunk" in m or "unknown shape" in m or "unknown dimension" in m or "unknown length" in m
    return False


def _unknown_chunks(d):
    return any(isinstance(c, float) and np.isnan(c) for ax in d.chunks for c in ax)


def _has_empty_block(d, axis=0):
    """does the (already built) node d have a block of extent 0 along axis?  (computes the blocks; only used to classify a failure)"""
    try:
        for dl in d.to_delayed().ravel():
            v = np.asanyarray(dl.compute())
            if v.ndim > axis and v.shape[axis] == 0:
                return True
    except Hang:
        raise
    except Exception:  # noqa: BLE001
        return False
    return False


def known_class(step, failure, prev, y_prev):
    """narrow input classes of recorded findings (C25.findings.json); appended to the finding key.
    step = the step that failed, prev = its dask input, y_prev = its NumPy shadow input."""
    try:
        if step == "topk" and failure in ("shape", "block-shape") and y_prev.ndim >= 1:
            n_last = y_prev.shape[-1]
            if _unknown_chunks(prev):
                # the length dask really has (it can be shorter than NumPy's when an upstream step already lost data, e.g. the
                # recorded cumsum-over-an-empty-block defect): the class is about topk's OWN input
                n_last = np.asarray(prev.compute(scheduler="sync")).shape[-1]
            if n_last < 2:
                return "k>axis-length"
        if step == "bincount" and failure in ("shape", "block-shape") and y_prev.size and int(y_prev.max()) + 1 > 3:
            return "minlength<=max"
        if step == "cumsum0" and failure == "compute-raises:ValueError" and _has_empty_block(prev, 0):
            return "empty-block"
        if step == "argmax_last" and failure == "compute-raises:TypeError" and _unknown_chunks(prev) and prev.numblocks[-1] == 1:
            return "single-unknown-chunk"
        if step == "diff" and failure == "dask-raises:TypeError" and y_prev.dtype == bool:
            return "bool-input"
        if step == "sliding" and failure == "dask-raises:ValueError" and y_prev.ndim >= 2 and 0 in y_prev.shape[:-1] and y_prev.shape[-1] >= 2:
            return "zero-length-other-axis"
    except Hang:
        raise
    except Exception:  # noqa: BLE001
        return None
    return None


def _own(problems):
    """problems of the node itself (the .blocks view of a 0-d array is a defect of BlockView, not of the node)"""
    return [p for p in problems if not (len(p) > 2 and p[2] == "blocksview")]


def _healthy(node):
    """does the invariant hold on this (prefix) node?  Used only to attribute a failure: every prefix is a program of its
    own in the enumeration and is reported there, so a failure downstream of a violating prefix is a consequence, not a
    new finding (e.g. everything built on bincount's wrong lazy length)."""
    try:
        problems, _ = check_node(node)
        return not _own(problems)
    except Hang:
        raise
    except Exception:  # noqa: BLE001
        return False


def ops_of(case):
    """-> (shape, chunks, array-like base?, [(step name, dask fn, numpy fn)...])"""
    kind, shp, ch = case[0], case[1], case[2]
    if kind in ("p", "pa"):
        S = steps()
        return shp, ch, kind == "pa", [(s,) + tuple(S[s]) for s in case[3]]
    if kind == "ix":
        return shp, ch, False, [("getitem",) + _getitem_op(case[3])]
    if kind == "ix2":
        return shp, ch, False, [("getitem",) + _getitem_op(case[3]), ("getitem",) + _getitem_op(case[4])]
    raise ValueError(kind)


def run_case(case, ctx):
    da = _da()
    shp, ch, arraylike, ops = ops_of(case)
    prog = [o[0] for o in ops]
    x = arr.data(shp, ctx.seed)
    with warnings.catch_warnings():
        warnings.simplefilter("ignore")
        # NumPy shadow: applicability only
        try:
            ys = [x]
            for _, _, nfn in ops:
                y = nfn(ys[-1])
                if not _is_array(y):
                    raise TypeError("not an array")
                ys.append(y)
        except Hang:
            raise
        except Exception:  # noqa: BLE001
            ctx.count("inapplicable")
            return
        d = prev = da.from_array(ArrayLike(x) if arraylike else x, chunks=ch)
        last = prog[-1] if prog else "base"

        def inherited(node, depth):
            if depth >= 1 and not _healthy(node):
                ctx.count("inherited_from_prefix")
                return True
            return False

        for i, (s, dfn, _) in enumerate(ops):
            try:
                prev, d = d, dfn(d)
            except Hang:
                raise
            except Exception as e:  # noqa: BLE001
                if _refusal(e):
                    ctx.count("rejected")
                    return
                if _unknown_chunks(d):
                    # a priori: dask documents that operations which need the chunk sizes fail on arrays with unknown
                    # chunk sizes; the exception type/message of such a refusal is not part of any statement
                    ctx.count("rejected_unknown_chunks")
                    return
                if s in ("map_overlap", "overlap_trim") and isinstance(e, ValueError) and "larger than your array" in str(e) and any(n < 1 for n in d.shape):
                    # documented refusal of map_overlap (same rule as C26.too_small): depth 1 on every axis exceeds a zero-length axis
                    ctx.count("rejected_depth_exceeds_axis")
                    return
                if inherited(d, i):
                    return
                cls = f"dask-raises:{type(e).__name__}"
                sub = known_class(s, cls, d, ys[i])
                ctx.case(case, nontrivial=False, outcome=("build-raises", s, type(e).__name__))
                ctx.violation(f"{s}:{cls}" + (f":{sub}" if sub else ""), case, f"building step {i} ({s}) raised {e!r}; NumPy accepts the pipeline")
                return

        def key(op, cls):
            sub = known_class(last, cls, prev, ys[-2]) if (op == last and prog) else None
            return f"{op}:{cls}" + (f":{sub}" if sub else "")

        try:
            problems, nb = check_node(d, all_via_blocks=(ctx.tier == "thorough"))
        except Hang:
            raise
        except Exception as e:  # noqa: BLE001
            if _refusal(e):
                ctx.count("rejected")
                return
            if inherited(prev, len(prog) - 1):
                return
            ctx.case(case, nontrivial=False, outcome=("compute-raises", last, type(e).__name__))
            ctx.violation(key(last, f"compute-raises:{type(e).__name__}"), case, f"computing the node raised {e!r} (lazy shape {d.shape}, chunks {d.chunks})")
            return
        nblocks = int(np.prod(nb)) if nb else 1
        if _own(problems) and inherited(prev, len(prog) - 1):
            problems = [p for p in problems if p not in _own(problems)]
        ctx.case(case, nontrivial=nblocks >= 2, outcome=(tuple(len(c) for c in d.chunks), str(d.dtype), tuple(p[0] for p in problems)))
        for cls, detail, *op in problems:
            ctx.violation(key(op[0] if op else last, cls), case, f"{detail}  [lazy shape={d.shape} dtype={d.dtype} chunks={d.chunks}]")


def run_shard(shard, ctx):
    for case in cases_of(shard, ctx.tier):
        if ctx.out_of_time():
            return
        ctx.guard(case, run_case, case, ctx)


def replay(case, ctx):
    run_case(case, ctx)
