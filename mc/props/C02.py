"""C02 -- each needed task runs exactly once and only after its dependencies finished (DESIGN 5/C02); shares the exhaustive completion-order sweep of C01."""
from mc.props import _sweep

ID = "C02"
LEVEL = "model_checking"
HANG_IS_VIOLATION = True
WATCHDOG_S = 20.0
ENTRIES = ("async", "threaded", "mp", "mp_noopt", "executor", "sync")
NMAX = {"quick": 4, "thorough": 5}
ASSUMPTIONS = [
    "G3: the only scheduling nondeterminism of the local schedulers is the dequeue order of submitted batches "
    "(workers touch no scheduler state); checked by the thread-affinity conformance pass, not assumed",
    "task bodies are structural (return their evaluation tree); values are compared with an independent recursive evaluator",
]


def RULE(tier):
    return (
        f"all DAGs on <= {NMAX[tier]} topologically labelled nodes x node kinds (task, literal, alias, list-node, nested list/tuple "
        "argument; at most one non-plain kind per graph at the largest n) x key styles (int / tuple / str, both insertion orders on the "
        "smaller graphs) x requests (every non-empty key subset as flat list, every single key, two nestings) x entry points "
        f"{ENTRIES} x (num_workers, chunksize) in {_sweep.CONFIGS} x EVERY completion order (stateless DFS, no bound). "
        "plus, for get_async/threaded/sync, literal nodes removed from the graph and supplied through a pre-populated cache= instead (every single literal, and all of them). A case is one (graph, request, entry, config); evaluations counts complete executions; non-trivial = at least two batches were "
        "pending simultaneously in some execution of the case."
    )


def shards(tier):
    return _sweep.shards_for(tier, ENTRIES, NMAX[tier])


def cases_of(shard, tier):
    entry, n, lo, hi = shard
    for mask, kinds, style, rev in _sweep.graph_space(tier, n):
        if not (lo <= mask < hi):
            continue
        if entry == "mp" and "m" in kinds:
            continue  # dict arguments + legacy fuse: judged under C09 (known finding fuse:*:dict-arg)
        for req in _sweep.request_forms(n):
            configs = [(1, 1)] if entry == "sync" else _sweep.CONFIGS
            for nw, cs in configs:
                yield (entry, n, mask, kinds, style, rev, req, nw, cs, ())
            # pre-populated cache= (values = the reference values of those keys): every single node, and the whole request
            if entry in ("async", "threaded", "sync") and style == "int" and not rev and req != [] and req != [[]]:
                lits = [i for i in range(n) if kinds[i] == "d"]
                if not lits:
                    continue
                pcs = [(i,) for i in lits] + [tuple(lits)]
                for pc in dict.fromkeys(pcs):
                    for nw, cs in ([(1, 1)] if entry == "sync" else [(2, 1), (3, 2)]):
                        yield (entry, n, mask, kinds, style, rev, req, nw, cs, (("cache", pc),))


def run_shard(shard, ctx):
    for case in cases_of(shard, ctx.tier):
        if ctx.out_of_time():
            return
        ctx.guard(case, _sweep.run_case, ID, case, ctx)


def replay(case, ctx):
    _sweep.run_case(ID, case, ctx)


conformance = _sweep.conformance
