"""C23 -- chunk normalization and rechunking are exact (DESIGN 5/C23).  E4: exhaustive small scope.

Part A drives the real ``normalize_chunks`` (and through it ``auto_chunks``) over every chunk spec of a small scope and
judges the statement's invariants; part B rechunks every (source, target) chunking pair with the real ``rechunk`` /
``plan_rechunk`` and compares chunks and values.
"""
from __future__ import annotations

import itertools
import math

import numpy as np

from mc import arr, enums
from mc.run import Hang

ID = "C23"
LEVEL = "exploration"
WATCHDOG_S = 20.0
HANG_IS_VIOLATION = True  # "normalize_chunks always returns"; rechunk must yield a result
ASSUMPTIONS = [
    "sync scheduler; array values are a seed-chosen permutation of distinct integers",
    "'within the byte limit whenever a single element fits' is judged where it is achievable: itemsize * (largest block of the axes "
    "whose chunks the caller fixed explicitly) <= limit; the bound is the limit itself without previous_chunks and "
    "limit * array.chunk-size-tolerance (documented config, enumerated as 1.0 and the default 1.25) with previous_chunks",
    "documented refusals are counted 'rejected': ValueError('Only one consistent value of limit or chunk is allowed') when a byte-string "
    "spec contradicts limit=",
    "method='p2p' needs the absent `distributed` package: the checked methods are 'tasks' and None (= the p2p-unavailable fallback)",
]


def RULE(tier):
    q = tier == "quick"
    return (
        "normalize_chunks: 1-d lengths 0.." + ("9" if q else "10") + " x every spec in {1..n+1, -1, None, 'auto', EVERY composition, byte strings} "
        "x spelling {bare, tuple, list, dict} x itemsize {1,8} x limit {None,1,7,8,16,64} x previous_chunks in {None} U EVERY chunking x "
        "chunk-size-tolerance {1.25, 1.0}; 2-d shapes " + ("(2,3),(3,4),(4,6)" if q else "(2,3),(3,4),(4,6),(6,6)") + " and 3-d (2,3,4) x every pair/triple of per-axis "
        "specs from {1,2,-1,'auto','16B', first/last composition} (3-d: {2,-1,'auto','16B'}) x the same grids x EVERY previous chunking. Oracle: tuple of tuples of "
        "ints, each axis positive (or the single (0,) for an empty axis) and summing to the shape, explicit axes as documented, auto blocks "
        "within the byte limit, and the call returns. rechunk: EVERY (source, target) chunking pair of 1-d n <= " + ("7 (n = 7: default setting only)" if q else "9 (n = 9: default and method=tasks only)") + ", 2-d "
        + ("(2,3),(3,2),(3,4),(4,4) ((4,4): 3 of the 5 settings)" if q else "(2,3),(3,2),(3,4),(4,4),(2,6),(3,5),(4,5) ((4,5): 3 of the 5 settings)") + " and 3-d (2,2,3) x settings {default, method='tasks', threshold=1 with block_size_limit in "
        "{1,16,32} bytes (forces multi-stage plans), balance=True}, sources/targets with zero-length chunks for n <= 4, spec targets "
        "(int, -1, dict, 'auto' with a limit), unknown-size (NaN) source axes; JOINT evaluation: for every source chunking of 1-d n <= " + ("5" if q else "6") + " and "
        + ("(2,3),(3,2),(3,4)" if q else "(2,3),(3,2),(3,4),(2,2,3)") + " EVERY pair of distinct target chunkings (and all targets at once) rechunked from the SAME source and evaluated "
        "together -- all blocks from one merged optimized graph (= dask.compute(y1, y2)) and inside one expression y1 + 10*y2" + (" (pairs of (3,4): merged graph only)" if q else "") + " -- each against "
        "the requested chunks, declared block shapes and source values; plan_rechunk directly over every chunking pair of (2,3),(3,4),(2,2,3),(4,4)" + ("" if q else ",(3,5)") + " x itemsize {1,8} x "
        "threshold {1,2,4} x block_size_limit {1,16,64,None}: every stage sums to the shape and the last is the target. Oracle: result "
        "chunks == requested, every computed block has its declared shape, assembled values == source. non-trivial = source != target "
        "(rechunk) / an 'auto' axis (normalize)."
    )


DT = {1: "u1", 8: "i8"}
LIMITS = (None, 1, 7, 8, 16, 64)


# ----------------------------------------------------------------------------------------------- enumeration
def shards(tier):
    q = tier == "quick"
    out = []
    nmax = 9 if q else 10
    for n in range(0, nmax + 1):
        parts = 1 if n <= 4 else (2 if n <= 6 else (8 if n <= 8 else 16))
        for p in range(parts):
            out.append(("norm1", n, p, parts))
    for shp in [(2, 3), (3, 4), (4, 6)] + ([] if q else [(6, 6)]):
        parts = {(2, 3): 1, (3, 4): 2, (4, 6): 8, (6, 6): 32}[shp]
        for p in range(parts):
            out.append(("norm2", shp, p, parts))
    for p in range(4):
        out.append(("norm2", (2, 3, 4), p, 4))
    for n in range(0, (7 if q else 9) + 1):
        parts = 1 if n <= 4 else (2 if n == 5 else (8 if n == 6 else (16 if n <= 8 else 32)))
        for p in range(parts):
            out.append(("re1", n, p, parts))
    for n in range(1, 5):
        out.append(("re1z", n))
    for shp in [(2, 3), (3, 2), (3, 4), (2, 2, 3), (4, 4)] + ([] if q else [(2, 6), (3, 5), (4, 5)]):
        parts = {(2, 3): 1, (3, 2): 1, (3, 4): 8, (2, 2, 3): 4, (4, 4): 32, (2, 6): 32, (3, 5): 32, (4, 5): 64}[shp]
        for p in range(parts):
            out.append(("re2", shp, p, parts))
    for shp in [(2, 3), (3, 4), (2, 2, 3), (4, 4)] + ([] if q else [(3, 5)]):
        parts = {(2, 3): 1, (3, 4): 4, (2, 2, 3): 2, (4, 4): 16, (3, 5): 16}[shp]
        for p in range(parts):
            out.append(("plan", shp, p, parts))
    for n in range(1, 6):
        out.append(("respec1", n))
    for shp in [(2, 3), (3, 4)]:
        out.append(("respec2", shp))
    out.append(("renan", (3, 4)))
    # JOINT evaluation: several rechunks of the SAME source inside one graph
    for n in range(2, (5 if q else 6) + 1):
        parts = 1 if n <= 3 else (2 if n == 4 else (8 if n == 5 else 32))
        for p in range(parts):
            out.append(("joint", (n,), p, parts))
    for shp in [(2, 3), (3, 2), (3, 4)] + ([] if q else [(2, 2, 3)]):
        parts = {(2, 3): 2, (3, 2): 2, (3, 4): 32, (2, 2, 3): 32}[shp]
        for p in range(parts):
            out.append(("joint", shp, p, parts))
    return out


def axis_specs(n):
    """the full per-axis spec alphabet of a length-n axis"""
    out = list(range(1, n + 2)) + [-1, None, "auto", "8B", "16B"]
    out += [c for c in enums.compositions(n)] if n else [(0,)]
    return out


def small_axis_specs(n):
    comps = list(enums.compositions(n))
    out = [1, 2, -1, "auto", "16B", comps[0]]
    if len(comps) > 1:
        out.append(comps[-1])
    return out


def is_auto(s):
    return isinstance(s, str)


def limits_for(spec):
    """limit= values enumerated with a spec: the full grid for 'auto'; for byte-string specs None, one equal and one
    contradicting value (the contradiction is a documented ValueError)"""
    if any(is_auto(s) and s != "auto" for s in spec):
        return (None, 8, 16)
    if any(is_auto(s) for s in spec):
        return LIMITS
    return (None, 8) if len(spec) == 1 else (None,)


def cases_of(shard, tier):
    kind = shard[0]
    if kind == "norm1":
        n, part, nparts = shard[1], shard[2], shard[3]
        prevs = [None] + [(c,) for c in (enums.compositions(n) if n else [(0,)])]
        j = 0
        for s in axis_specs(n):
            forms = ["tuple", "list", "dict"]
            if not (isinstance(s, tuple) and len(s) == 1) and s is not None:
                forms.append("bare")  # chunks=None means "no chunks given" (documented ValueError), not a spec  # a bare 1-tuple (k,) IS the int spec k: not a different spelling
            for form in forms:
                for isz in (1, 8):
                    for lim in limits_for((s,)):
                        for prev in prevs if is_auto(s) else (None,):
                            for tol in (None, 1.0) if (is_auto(s) and prev is not None) else (None,):
                                j += 1
                                if j % nparts == part:
                                    yield ("norm", (n,), form, (s,), isz, lim, prev, tol)
    elif kind == "norm2":
        shp, part, nparts = shard[1], shard[2], shard[3]
        per = [small_axis_specs(n) if len(shp) == 2 else [2, -1, "auto", "16B"] for n in shp]
        prevs = [None] + [tuple(c) for c in enums.chunkings(shp)]
        j = 0
        for spec in itertools.product(*per):
            anyauto = any(is_auto(s) for s in spec)
            for form in ("tuple", "dict") + (("bare",) if len(set(map(repr, spec))) == 1 and not isinstance(spec[0], tuple) else ()):
                for isz in (1, 8):
                    for lim in limits_for(spec):
                        for prev in prevs if anyauto else (None,):
                            for tol in (None, 1.0) if (anyauto and prev is not None) else (None,):
                                j += 1
                                if j % nparts == part:
                                    yield ("norm", shp, form, tuple(spec), isz, lim, prev, tol)
    elif kind == "re1":
        n, part, nparts = shard[1], shard[2], shard[3]
        comps = list(enums.compositions(n)) if n else [(0,)]
        j = 0
        for src in comps:
            for tgt in comps:
                for setting in (("default",), ("tasks",), ("thr1", 1), ("balance",)) if n <= (6 if tier == "quick" else 8) else ((("default",),) if tier == "quick" else (("default",), ("tasks",))):
                    j += 1
                    if j % nparts == part:
                        yield ("re", (n,), (src,), (tgt,), setting)
    elif kind == "re1z":
        n = shard[1]
        zs = [c for c in enums.compositions_with_zeros(n, 3)]
        for src in zs:
            for tgt in zs:
                if 0 not in src and 0 not in tgt:
                    continue
                for setting in (("default",), ("thr1", 1)):
                    yield ("re", (n,), (src,), (tgt,), setting)
    elif kind == "re2":
        shp, part, nparts = shard[1], shard[2], shard[3]
        chs = [tuple(c) for c in enums.chunkings(shp)]
        j = 0
        for src in chs:
            for tgt in chs:
                full = shp != (4, 5) and (tier == "thorough" or shp != (4, 4))
                for setting in (("default",), ("thr1", 1), ("thr1", 16), ("thr1", 32), ("balance",)) if full else (("default",), ("thr1", 1), ("thr1", 32)):
                    j += 1
                    if j % nparts == part:
                        yield ("re", shp, src, tgt, setting)
    elif kind == "plan":
        shp, part, nparts = shard[1], shard[2], shard[3]
        chs = [tuple(c) for c in enums.chunkings(shp)]
        j = 0
        for src in chs:
            for tgt in chs:
                j += 1
                if j % nparts != part:
                    continue
                for isz in (1, 8):
                    for thr in (1, 2, 4):
                        for bsl in (1, 16, 64, None):
                            yield ("plan", shp, src, tgt, isz, thr, bsl)
    elif kind == "respec1":
        n = shard[1]
        for src in enums.compositions(n):
            for s in list(range(1, n + 2)) + [-1, "auto", "8B", "16B"]:
                for form in ("bare", "tuple", "dict"):
                    for bsl in (None, 8, 16, 64) if s == "auto" else (None,):
                        yield ("respec", (n,), (src,), form, (s,), bsl)
    elif kind == "respec2":
        shp = shard[1]
        per = [[1, 2, -1, "auto", None] for _ in shp]
        for src in enums.chunkings(shp):
            for spec in itertools.product(*per):
                for form in ("tuple", "dict"):
                    for bsl in (None, 16, 64) if "auto" in spec else (None,):
                        yield ("respec", shp, tuple(src), form, tuple(spec), bsl)
    elif kind == "renan":
        shp = shard[1]
        for src in enums.chunkings(shp):
            for mask in enums.masks(shp[0]):
                for tgt1 in enums.compositions(shp[1]):
                    yield ("renan", shp, tuple(src), tuple(mask), tgt1)
    elif kind == "joint":
        shp, part, nparts = shard[1], shard[2], shard[3]
        chs = [tuple(c) for c in enums.chunkings(shp)]
        big = shp in ((3, 4), (2, 2, 3))
        j = 0
        for src in chs:
            j += 1
            if j % nparts == part:
                # every target chunking of this source at once
                yield ("jointall", shp, src, "compute")
                yield ("jointall", shp, src, "expr")
            for a, t1 in enumerate(chs):
                for b, t2 in enumerate(chs):
                    if a == b:
                        continue
                    j += 1
                    if j % nparts != part:
                        continue
                    if a < b:
                        yield ("joint", shp, src, (t1, t2), "compute")  # symmetric in (t1, t2)
                    if not (big and tier == "quick"):
                        yield ("joint", shp, src, (t1, t2), "expr")  # y1 + 10*y2: ordered pairs
    else:
        raise ValueError(kind)


# ----------------------------------------------------------------------------------------------- oracles
def spell(form, spec):
    """the chunks= argument in the requested spelling"""
    if form == "bare":
        return spec[0]
    if form == "tuple":
        return tuple(spec)
    if form == "list":
        return [list(s) if isinstance(s, tuple) else s for s in spec]
    if form == "dict":
        return {i: s for i, s in enumerate(spec)}
    raise ValueError(form)


def axis_problem(ax, n):
    """statement: positive sizes (or a single zero for an empty dimension) adding up to the shape"""
    if not isinstance(ax, tuple):
        return f"axis chunks {ax!r} is not a tuple"
    if not all(type(c) is int for c in ax):
        return f"axis chunks {ax!r} are not all ints"
    if sum(ax) != n:
        return f"axis chunks {ax!r} do not add up to {n}"
    if n == 0:
        return None if ax == (0,) else f"empty axis has chunks {ax!r}, expected (0,)"
    if not all(c > 0 for c in ax):
        return f"axis chunks {ax!r} not all positive"
    return None


def expected_explicit(s, n):
    """documented result for a non-auto per-axis spec"""
    if s is None or s == -1:
        return (n,)
    if isinstance(s, tuple):
        return s
    if n == 0:
        return (0,)
    return (s,) * (n // s) + ((n % s,) if n % s else ())


def byte_limit(spec_limit, specs):
    import dask
    from dask.utils import parse_bytes

    lims = {parse_bytes(s) for s in specs if isinstance(s, str) and s != "auto"}
    if spec_limit is not None:
        lims.add(spec_limit)
    if len(lims) > 1:
        return "conflict"
    if lims:
        return max(1, lims.pop())
    return parse_bytes(dask.config.get("array.chunk-size"))


def run_norm(case, ctx):
    import dask
    from dask.array.core import normalize_chunks

    _, shp, form, spec, isz, lim, prev, tol = case
    anyauto = any(is_auto(s) for s in spec)
    dtype = np.dtype(DT[isz])
    eff = byte_limit(lim, spec)
    cfg = {"array.chunk-size-tolerance": tol} if tol is not None else {}
    exc = out = None
    try:
        with dask.config.set(cfg):
            tolv = dask.config.get("array.chunk-size-tolerance")
            out = normalize_chunks(spell(form, spec), shape=shp, limit=lim, dtype=dtype, previous_chunks=prev)
    except Hang:
        raise
    except Exception as e:  # noqa: BLE001
        exc = e
    ctx.case(case, nontrivial=anyauto, outcome=(repr(out)[:80], type(exc).__name__))
    k = "norm-auto" if anyauto else "norm"
    if exc is not None:
        if eff == "conflict" and isinstance(exc, ValueError) and "Only one consistent value" in str(exc):
            ctx.count("rejected")
            return
        ctx.violation(f"{k}:dask-raises:{type(exc).__name__}{norm_class(case)}", case, f"normalize_chunks raised {exc!r}")
        return
    if eff == "conflict":
        ctx.count("inapplicable")
        return
    if not isinstance(out, tuple) or len(out) != len(shp):
        ctx.violation(f"{k}:bad-structure{norm_class(case)}", case, f"returned {out!r} for shape {shp}")
        return
    for i, (ax, n) in enumerate(zip(out, shp)):
        why = axis_problem(ax, n)
        if why:
            ctx.violation(f"{k}:bad-chunks{norm_class(case)}", case, f"axis {i}: {why}; returned {out!r}")
            return
    for i, (ax, n, s) in enumerate(zip(out, shp, spec)):
        if not is_auto(s) and ax != expected_explicit(s, n):
            ctx.violation(f"{k}:explicit-axis-changed{norm_class(case)}", case, f"axis {i}: spec {s!r} on length {n} gave {ax!r}; returned {out!r}")
            return
    if anyauto:
        fixed = math.prod(max(ax) for ax, s in zip(out, spec) if not is_auto(s))
        if isz * max(fixed, 1) <= eff and all(n > 0 for n in shp):
            block = isz * math.prod(max(ax) for ax in out)
            bound = eff * (tolv if prev is not None else 1.0)
            if block > bound * (1 + 1e-12):
                ctx.violation(
                    f"{k}:over-limit{norm_class(case)}", case, f"largest block {block} B > limit {eff} B (tolerance {tolv if prev is not None else 1}); returned {out!r}"
                )


def norm_class(case):
    """narrow input classes of recorded findings (C23.findings.json)"""
    return ""


def re_class(case):
    return ""


def setting_kwargs(setting):
    if setting[0] == "default":
        return {}
    if setting[0] == "tasks":
        return {"method": "tasks"}
    if setting[0] == "thr1":
        return {"threshold": 1, "block_size_limit": setting[1]}
    if setting[0] == "balance":
        return {"balance": True}
    raise ValueError(setting)


def chunks_problem(chunks, shp, allow_zero=False):
    for i, (ax, n) in enumerate(zip(chunks, shp)):
        if allow_zero:
            if not (isinstance(ax, tuple) and all(type(c) is int and c >= 0 for c in ax) and sum(ax) == n and len(ax) >= 1):
                return f"axis {i}: {ax!r} is not a chunking of {n}"
        else:
            why = axis_problem(ax, n)
            if why:
                return f"axis {i}: {why}"
    return None


def compare_values(ctx, key, case, y, x, want_chunks):
    if want_chunks is not None and y.chunks != want_chunks:
        ctx.violation(f"{key}:wrong-chunks{re_class(case)}", case, f"result chunks {y.chunks} != requested {want_chunks}")
        return False
    try:
        got, problem = arr.compute_blocks(y)
    except Hang:
        raise
    except Exception as e:  # noqa: BLE001
        ctx.violation(f"{key}:compute-raises:{type(e).__name__}{re_class(case)}", case, f"computing the rechunked array raised {e!r}")
        return False
    if problem:
        ctx.violation(f"{key}:lazy-metadata{re_class(case)}", case, problem)
        return False
    why = arr.equal(got, x)
    if why:
        ctx.violation(f"{key}:wrong-value{re_class(case)}", case, why)
        return False
    return True


def run_re(case, ctx):
    import warnings

    import dask.array as da
    from dask.array.rechunk import plan_rechunk

    _, shp, src, tgt, setting = case
    x = arr.data(shp, ctx.seed)
    d = da.from_array(x, chunks=src)
    kw = setting_kwargs(setting)
    haszero = any(0 in ax for ax in src + tgt) and all(shp)
    nstages = 1
    if d.chunks != src:
        ctx.count("harness_source_chunks_differ")
        return
    exc = y = None
    try:
        with warnings.catch_warnings():
            warnings.simplefilter("ignore")
            y = d.rechunk(tgt, **kw)
            if setting[0] == "thr1" and all(shp):
                nstages = len(plan_rechunk(src, tgt, x.dtype.itemsize, 1, setting[1]))
    except Hang:
        raise
    except Exception as e:  # noqa: BLE001
        exc = e
    key = "rechunk-zero" if haszero else ("rechunk-balance" if setting[0] == "balance" else "rechunk")
    ctx.case(case, nontrivial=src != tgt, outcome=(None if y is None else y.chunks, type(exc).__name__))
    if nstages > 1:
        ctx.count("multistage")
    if exc is not None:
        ctx.violation(f"{key}:dask-raises:{type(exc).__name__}{re_class(case)}", case, f"rechunk raised {exc!r}")
        return
    if setting[0] == "balance":
        # balance=True documents that dask picks different (more even) chunk sizes: only validity + values are required
        why = chunks_problem(y.chunks, shp)
        if why:
            ctx.violation(f"{key}:bad-chunks{re_class(case)}", case, f"{why}; result chunks {y.chunks}")
            return
        compare_values(ctx, key, case, y, x, None)
        return
    want = tgt
    if all(s == 0 for s in shp):
        want = None  # documented: an empty array is returned as is
    compare_values(ctx, key, case, y, x, want)


def run_plan(case, ctx):
    from dask.array.rechunk import plan_rechunk

    _, shp, src, tgt, isz, thr, bsl = case
    exc = steps = None
    try:
        steps = plan_rechunk(src, tgt, isz, thr, bsl)
    except Hang:
        raise
    except Exception as e:  # noqa: BLE001
        exc = e
    ctx.case(case, nontrivial=src != tgt, outcome=(None if steps is None else len(steps), type(exc).__name__))
    if exc is not None:
        ctx.violation(f"plan:dask-raises:{type(exc).__name__}{re_class(case)}", case, f"plan_rechunk raised {exc!r}")
        return
    if len(steps) > 1:
        ctx.count("multistage")
    if not steps or tuple(steps[-1]) != tgt:
        ctx.violation(f"plan:last-stage-not-target{re_class(case)}", case, f"plan {steps!r}")
        return
    for st in steps:
        why = None if (isinstance(st, tuple) and len(st) == len(shp)) else f"stage {st!r} has wrong dimensionality"
        why = why or chunks_problem(tuple(tuple(int(c) if float(c).is_integer() else c for c in ax) for ax in st), shp)
        if why:
            ctx.violation(f"plan:bad-stage{re_class(case)}", case, f"{why}; plan {steps!r}")
            return


def run_respec(case, ctx):
    import dask
    import dask.array as da
    from dask.utils import parse_bytes

    _, shp, src, form, spec, bsl = case
    x = arr.data(shp, ctx.seed)
    d = da.from_array(x, chunks=src)
    anyauto = any(is_auto(s) for s in spec)
    exc = y = None
    try:
        y = d.rechunk(spell(form, spec), block_size_limit=bsl)
    except Hang:
        raise
    except Exception as e:  # noqa: BLE001
        exc = e
    ctx.case(case, nontrivial=True, outcome=(None if y is None else y.chunks, type(exc).__name__))
    eff = byte_limit(bsl, spec)
    if exc is not None:
        if eff == "conflict" and isinstance(exc, ValueError) and "Only one consistent value" in str(exc):
            ctx.count("rejected")
            return
        ctx.violation(f"respec:dask-raises:{type(exc).__name__}{re_class(case)}", case, f"rechunk raised {exc!r}")
        return
    why = chunks_problem(y.chunks, shp)
    if why:
        ctx.violation(f"respec:bad-chunks{re_class(case)}", case, f"{why}; result chunks {y.chunks}")
        return
    for i, (ax, n, s, old) in enumerate(zip(y.chunks, shp, spec, src)):
        if is_auto(s):
            continue
        # rechunk documents None (tuple/dict spelling) as "keep this axis' chunks"
        want = old if s is None else expected_explicit(s, n)
        if ax != want:
            ctx.violation(f"respec:wrong-chunks{re_class(case)}", case, f"axis {i}: spec {s!r} gave {ax!r}, requested {want!r}")
            return
    if anyauto and eff != "conflict":
        tolv = dask.config.get("array.chunk-size-tolerance")
        fixed = math.prod(max(ax) for ax, s in zip(y.chunks, spec) if not is_auto(s))
        isz = x.dtype.itemsize
        if isz * max(fixed, 1) <= eff:
            block = isz * math.prod(max(ax) for ax in y.chunks)
            if block > eff * tolv * (1 + 1e-12):
                ctx.violation(f"respec:over-limit{re_class(case)}", case, f"largest block {block} B > limit {eff} B x tolerance {tolv}; chunks {y.chunks}")
                return
    compare_values(ctx, "respec", case, y, x, None)


def run_renan(case, ctx):
    """source with an unknown-size (NaN) axis 0 (boolean row selection); rechunk axis 1 only"""
    import dask.array as da

    _, shp, src, mask, tgt1 = case
    x = arr.data(shp, ctx.seed)
    d = da.from_array(x, chunks=src)
    m = np.array(mask, dtype=bool)
    z = d[da.from_array(m, chunks=(src[0],))]
    want = x[m]
    exc = y = None
    try:
        y = z.rechunk({1: tgt1})
    except Hang:
        raise
    except Exception as e:  # noqa: BLE001
        exc = e
    ctx.case(case, nontrivial=src[1] != tgt1, outcome=(type(exc).__name__,))
    if exc is not None:
        ctx.violation(f"renan:dask-raises:{type(exc).__name__}", case, f"rechunk raised {exc!r}")
        return
    if y.chunks[1] != tgt1 or len(y.chunks[0]) != len(src[0]):
        ctx.violation("renan:wrong-chunks", case, f"result chunks {y.chunks}; requested axis 1 = {tgt1}")
        return
    try:
        got, problem = arr.compute_blocks(y)
    except Hang:
        raise
    except Exception as e:  # noqa: BLE001
        ctx.violation(f"renan:compute-raises:{type(e).__name__}", case, f"computing the rechunked array raised {e!r}")
        return
    if problem:
        ctx.violation("renan:lazy-metadata", case, problem)
        return
    why = arr.equal(got, want)
    if why:
        ctx.violation("renan:wrong-value", case, why)


def joint_blocks(arrays):
    """all blocks of several arrays computed from ONE merged, optimized graph (what dask.compute(*arrays) executes)
    -> list of (assembled ndarray | None, problem | None) per array"""
    import dask
    from dask.base import collections_to_expr
    from dask.core import flatten

    # the same merge + optimization dask.compute(*arrays) performs, stopped before the per-array finalization so that the
    # individual blocks stay observable
    dsk = collections_to_expr(list(arrays), optimize_graph=True).optimize().__dask_graph__()
    flats = [list(flatten(a.__dask_keys__())) for a in arrays]
    vals = dask.get(dsk, flats)
    out = []
    for a, vs in zip(arrays, vals):
        grid = np.empty(a.numblocks, dtype=object)
        problem = None
        for idx, v in zip(itertools.product(*[range(k) for k in a.numblocks]), vs):
            v = np.asanyarray(v)
            want = tuple(c[i] for c, i in zip(a.chunks, idx))
            if v.shape != want:
                problem = problem or f"block {idx} has shape {v.shape}, declared {want}"
            grid[idx] = v
        try:
            whole = np.block(grid.tolist())
        except Exception as e:  # noqa: BLE001
            whole, problem = None, problem or f"blocks do not tile: {e!r}"
        out.append((whole, problem))
    return out


def run_joint(case, ctx):
    """two (joint) or all (jointall) rechunks of one source evaluated together: in one compute call / in one expression"""
    import dask.array as da

    if case[0] == "joint":
        _, shp, src, tgts, mode = case
    else:
        _, shp, src, mode = case
        tgts = tuple(tuple(c) for c in enums.chunkings(shp))
    x = arr.data(shp, ctx.seed)
    d = da.from_array(x, chunks=src)
    key = "joint-" + mode
    exc = None
    res = ys = z = None
    try:
        ys = [d.rechunk(t) for t in tgts]
        if mode == "compute":
            res = joint_blocks(ys)
        else:
            # one expression over differently chunked views of the same array: sum_k 10**k * y_k (elementwise ops unify the
            # chunks, i.e. rechunk again inside the same graph)
            z = ys[0]
            for k, y in enumerate(ys[1:3], start=1):
                z = z + (10**k) * y
            if len(ys) > 3:
                z = z + da.stack([y.sum() for y in ys]).sum() * 0
            res = arr.compute_blocks(z)
    except Hang:
        raise
    except Exception as e:  # noqa: BLE001
        exc = e
    ctx.case(case, nontrivial=len({src, *tgts}) >= 3, outcome=(mode, type(exc).__name__))
    if exc is not None:
        ctx.violation(f"{key}:dask-raises:{type(exc).__name__}{re_class(case)}", case, f"raised {exc!r}")
        return
    for y, t in zip(ys, tgts):
        if y.chunks != t:
            ctx.violation(f"{key}:wrong-chunks{re_class(case)}", case, f"result chunks {y.chunks} != requested {t}")
            return
    if mode == "compute":
        for t, (got, problem) in zip(tgts, res):
            if problem:
                ctx.violation(f"{key}:lazy-metadata{re_class(case)}", case, f"target {t}: {problem}")
                return
            why = arr.equal(got, x)
            if why:
                ctx.violation(f"{key}:wrong-value{re_class(case)}", case, f"target {t}: {why}")
                return
    else:
        got, problem = res
        if problem:
            ctx.violation(f"{key}:lazy-metadata{re_class(case)}", case, problem)
            return
        want = x * sum(10**k for k in range(min(len(ys), 3)))
        why = arr.equal(got, want)
        if why:
            ctx.violation(f"{key}:wrong-value{re_class(case)}", case, why)


RUN = {"joint": run_joint, "jointall": run_joint, "norm": run_norm, "re": run_re, "plan": run_plan, "respec": run_respec, "renan": run_renan}


def run_case(case, ctx):
    RUN[case[0]](case, ctx)


def run_shard(shard, ctx):
    for case in cases_of(shard, ctx.tier):
        if ctx.out_of_time():
            return
        ctx.guard(case, run_case, case, ctx, hang_key=f"{case[0]}:HANG")


def replay(case, ctx):
    run_case(case, ctx)
