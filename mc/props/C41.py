"""C41 -- known divisions always describe the partitions truthfully (DESIGN 5/C41).  E4: exhaustive small scope.

A case is a small PROGRAM: an origin with naturally known divisions (from_pandas / from_array / from_dict; never
user-asserted divisions) followed by a chain of <= 2 operations drawn from the construction paths of the statement
(filtering, loc, repartition, set_index, partition selection, index-aligned merge/join/concat/arithmetic, blockwise and
window operations).  Whenever the resulting collection REPORTS known divisions, the report is compared with the
partitions actually produced (to_delayed(), i.e. the optimised graph a user's map_partitions would see).
"""
from __future__ import annotations

import itertools

import mc.dfh as dfh  # FIRST: installs the pyarrow stand-in
import numpy as np
import pandas as pd

import dask

from mc import enums
from mc.props import _c4x
from mc.run import Hang

ID = "C41"
LEVEL = "exploration"
WATCHDOG_S = 30.0
ASSUMPTIONS = [
    "sync scheduler; origins get their divisions from dask itself (from_pandas sort=True, from_array, from_dict) -- user-asserted divisions (from_delayed(divisions=), set_index(sorted=True) on unsorted data) are excluded as origins",
    "set_index(divisions=b) is only used with b spanning the column's values; repartition(divisions=) with any legal vector (refusals are counted)",
    "only the divisions report is judged: a program that raises while it is built or computed is COUNTED (build_raises / compute_raises), not judged here (C36/C39/C44 judge values and exceptions); a program reporting unknown divisions is counted as such",
    "a violation is attributed to the SHORTEST failing prefix of the program, so one defect gives one key however many later operations inherit it",
]

A = 4  # index alphabet size
SEQ_LEN = {"quick": 4, "thorough": 5}
DEPTH2_ORIGINS = {"quick": "the 10 length-4 sequences (0,x,y,3) x from_pandas(npartitions=3)", "thorough": "every length-4 sequence x from_pandas(npartitions 2|3)"}


def RULE(tier):
    return (
        f"origins: every sorted index sequence of length 1..{SEQ_LEN[tier]} over {A} int values (float/str/datetime for length <= 2) x from_pandas("
        "npartitions 1..3 | chunksize 2), + from_array / from_dict; depth 1: EVERY operation of the alphabet (all row-masks, all loc slices/"
        "labels/label pairs over the alphabet, repartition npartitions 1..6 / every legal division vector x force / partition_size, set_index over 3 columns x "
        "{auto, npartitions 1..3, given divisions, sorted}, partition selections, merge/join/concat/arithmetic against 6 differently partitioned frames, "
        f"blockwise/window/index operations); depth 2 (origins: {DEPTH2_ORIGINS[tier]}): every division-changing first operation x every second operation. "
        "Oracle (only when known divisions are reported): npartitions == len(divisions)-1 == number of produced partitions, divisions non-decreasing, every "
        "partition's index inside [div[i], div[i+1]) (last closed). non-trivial = known divisions reported with >= 2 partitions."
    )


# ---------------------------------------------------------------------------------------------- frames
def frame_of(kind, seq, seed, cols=("a", "g", "r", "f")):
    n = len(seq)
    rng = np.random.RandomState(seed)
    a = (rng.permutation(n) * 3 + 1).astype("int64")
    data = {
        "a": a,
        "g": np.array([0, 1, 0, 2, 1, 0, 2, 2][:n], dtype="int64"),
        "r": (np.arange(n) * 2 + 1).astype("int64"),
        "f": np.array([1.5, np.nan, 2.0, -3.0, np.nan, 4.25, 0.5, 8.0][:n], dtype="float64"),
    }
    return pd.DataFrame({c: data[c] for c in cols}, index=_c4x.index_of(kind, seq, A + 4, seed))


def other_seq(seq, how):
    if how == "same":
        return tuple(seq)
    if how == "shift":
        return tuple(min(i + 1, A - 1) for i in seq)
    if how == "sub":
        return tuple(seq[::2])
    if how == "above":  # strictly above every index value of the first frame: indices A..A+3 of the (A+4)-alphabet
        return tuple(i + A for i in seq)
    raise ValueError(how)


def make_other(kind, seq, how, k2, seed):
    pdf2 = frame_of(kind, other_seq(seq, how), seed, cols=("a", "f")).rename(columns={"a": "a2", "f": "f2"})
    pdf2["a2"] = pdf2["a2"] * 100 + 7
    return dfh.dd.from_pandas(pdf2, npartitions=k2, sort=True)


def make_origin(kind, seq, origin, seed):
    pdf = frame_of(kind, seq, seed)
    if origin[0] == "fp":
        kw = {"npartitions": origin[2]} if origin[1] == "n" else {"chunksize": origin[2]}
        return pdf, dfh.dd.from_pandas(pdf, sort=True, **kw)
    if origin[0] == "fa":
        n = len(seq)
        arr = np.stack([pdf["a"].values, pdf["g"].values, pdf["r"].values], axis=1)
        return pdf, dfh.dd.from_array(arr, chunksize=origin[1], columns=["a", "g", "r"]).assign(f=1.5)
    if origin[0] == "fd":
        return pdf, dfh.dd.from_dict({c: pdf[c].tolist() for c in pdf.columns}, npartitions=origin[1])
    raise ValueError(origin)


# ---------------------------------------------------------------------------------------------- operation alphabet
BLOCK_OPS = [("col",), ("cols",), ("add1",), ("assign",), ("mp",), ("fillna",), ("dropna",), ("cumsum",), ("shift",), ("rolling",), ("index",), ("idxser",),
             ("idxmap",), ("resetset",), ("head", 2), ("toframe",)]
OTHERS = {"quick": [("same", 1), ("shift", 2), ("sub", 1), ("sub", 2)], "thorough": [(how, k2) for how in ("same", "shift", "sub") for k2 in (1, 2)]}
REP_D_QUICK = [(0, 3), (0, 2, 3), (0, 1, 2, 3), (0, 1, 3, 3), (1, 2), (0, 2), (1, 3, 3), (0, 0)]


def unary_ops(n, tier="thorough"):
    ops = list(BLOCK_OPS)
    ops += [("filter", bits) for bits in range(1 << n)] if n <= 4 else [("filter", bits) for bits in range(0, 1 << n, 3)]
    ops += [("ifilter", t) for t in range(A)]
    vals = [None] + list(range(A))
    ops += [("loc", lo, hi) for lo in vals for hi in vals]
    ops += [("loc1", x) for x in range(A)]
    ops += [("loclist", (x, y)) for x in range(A) for y in range(x + 1, A)]
    ops += [("rep_n", k) for k in range(1, 7)]
    if tier == "quick":
        ops += [("rep_d", b, True) for b in REP_D_QUICK]  # C44 sweeps every vector x force with the same layout oracle
    else:
        ops += [("rep_d", b, force) for b in _c4x.division_vectors(A) for force in (False, True)]
    ops += [("rep_s", 30), ("rep_s", 100)]
    ops += [("setidx", col, mode) for col in ("a", "g", "r") for mode in ("auto", "n1", "n2", "n3", "div")] + [("setidx", "r", "sorted")]
    ops += [("parts", sel) for sel in (("i", 0), ("i", -1), ("s", 1, None), ("s", 0, -1), ("l", (0, -1)), ("l", (-1,)))]
    return ops


def binary_ops(tier="thorough"):
    ops = []
    for o in OTHERS[tier]:
        ops.append(("add2", o))
        ops += [("merge", o, how) for how in ("inner", "outer", "left")]
        ops += [("join", o, how) for how in ("left", "outer")]
        ops += [("concat1", o, j) for j in ("outer", "inner")]
        ops.append(("concat0i", o))
    ops += [("concat0", k2) for k2 in (1, 2)]
    return ops


def first_ops(n):
    """division-changing first operations of the depth-2 programs"""
    masks = sorted({1, (1 << n) - 2, ((1 << n) - 1) & 0b0101, (1 << n) - 1 - (1 << (n // 2))} & set(range(1 << n)))
    ops = [("filter", b) for b in masks]
    ops += [("loc", 1, None), ("loc", None, 2), ("loc", 1, 2), ("loc1", 1)]
    ops += [("rep_n", 1), ("rep_n", 2), ("rep_n", 5), ("rep_d", (0, 2, 3), True), ("rep_d", (0, 1, 3, 3), True)]
    ops += [("setidx", "a", "auto"), ("setidx", "g", "n2"), ("parts", ("s", 1, None)), ("parts", ("l", (0, -1)))]
    ops += [("merge", ("shift", 2), "outer"), ("concat1", ("sub", 2), "outer"), ("add2", ("shift", 1)), ("concat0", 2), ("cumsum",), ("resetset",)]
    return ops


def second_ops(n):
    ops = [op for op in unary_ops(n) if op[0] not in ("rep_d", "filter", "loc")]  # thorough alphabet minus the three big families
    skip = {("cols",), ("fillna",), ("assign",), ("rep_s", 100), ("parts", ("l", (-1,))), ("parts", ("i", 0)), ("loclist", (0, 1)), ("loclist", (1, 2)), ("loclist", (2, 3)),
            ("setidx", "a", "n1"), ("setidx", "g", "n1"), ("setidx", "r", "n1")}
    ops = [op for op in ops if op not in skip]
    ops += [("filter", b) for b in sorted({1, (1 << n) - 2, ((1 << n) - 1) & 0b1010})]
    ops += [("loc", lo, hi) for lo, hi in ((1, None), (None, 2), (1, 2), (0, 3), (2, 1))]
    ops += [("rep_d", b, True) for b in ((0, 3), (0, 2, 3), (0, 1, 2, 3), (0, 1, 3, 3), (1, 2))]
    ops += [op for op in binary_ops("quick") if op[1] in (("shift", 2), ("sub", 1), 2)]
    return ops


def apply_op(d, op, kind, seq, pdf, seed):
    """-> new collection (lazy).  Index-valued parameters are alphabet indices, so the seed moves the concrete labels."""
    dd = dfh.dd
    al = _c4x.alphabet(kind, A + 4, seed)
    k = op[0]
    isframe = hasattr(d, "columns") and d.ndim == 2
    if k == "col":
        return d[d.columns[0]] if isframe else d
    if k == "cols":
        return d[list(d.columns[::-1])] if isframe else d
    if k == "add1":
        return d + 1 if not isframe else d[[c for c in d.columns if c != "s"]] + 1
    if k == "assign":
        return d.assign(z=1) if isframe else d
    if k == "mp":
        return d.map_partitions(lambda x: x.iloc[::-1].iloc[::-1])
    if k == "fillna":
        return d.fillna(0)
    if k == "dropna":
        return d.dropna()
    if k == "cumsum":
        return d.cumsum()
    if k == "shift":
        return d.shift(1)
    if k == "rolling":
        return d.rolling(2).sum()
    if k == "index":
        return d.index
    if k == "idxser":
        return d.index.to_series()
    if k == "idxmap":
        if kind not in ("int", "float"):
            raise Inapplicable("index.map(x*2) needs a numeric index")
        return d.index.map(lambda x: x * 2, is_monotonic=True)
    if k == "resetset":
        if not isframe:
            raise Inapplicable("frame only")
        name = d.index.name or "index"
        return d.reset_index().set_index(name)
    if k == "head":
        return d.head(op[1], npartitions=-1, compute=False)
    if k == "toframe":
        return d.to_frame() if not isframe else d[d.columns[0]].to_frame()
    if k == "filter":
        if not isframe or "a" not in d.columns:
            raise Inapplicable("needs column a")
        keep = [int(v) for i, v in enumerate(pdf["a"].values) if op[1] >> i & 1]
        return d[d["a"].isin(keep)]
    if k == "ifilter":
        return d[d.index.to_series() >= al[op[1]]]
    if k == "loc":
        lo = None if op[1] is None else al[op[1]]
        hi = None if op[2] is None else al[op[2]]
        return d.loc[lo:hi]
    if k == "loc1":
        return d.loc[al[op[1]]]
    if k == "loclist":
        return d.loc[[al[i] for i in op[1]]]
    if k == "rep_n":
        return d.repartition(npartitions=op[1])
    if k == "rep_d":
        return d.repartition(divisions=[al[i] for i in op[1]], force=op[2])
    if k == "rep_s":
        return d.repartition(partition_size=op[1])
    if k == "setidx":
        col, mode = op[1], op[2]
        if not isframe or col not in d.columns:
            raise Inapplicable("needs the column")
        cur = d[col].compute()  # the column as it is NOW (earlier operations may have changed values, order or introduced nulls)
        if cur.isna().any():
            raise Inapplicable("null keys: dask documents that nulls in the index are not supported")
        if len(cur) == 0:
            raise Inapplicable("no rows")
        if mode == "auto":
            return d.set_index(col)
        if mode in ("n1", "n2", "n3"):
            return d.set_index(col, npartitions=int(mode[1]))
        if mode == "sorted":
            if not cur.is_monotonic_increasing:
                raise Inapplicable("sorted=True on unsorted data would be a false user assertion")
            return d.set_index(col, sorted=True)
        vals = sorted(set(cur.tolist()))
        b = [vals[0]] + ([vals[len(vals) // 2]] if 0 < len(vals) // 2 < len(vals) - 1 else []) + [vals[-1]]
        return d.set_index(col, divisions=b)
    if k == "parts":
        sel = op[1]
        npart = d.npartitions
        chosen = [sel[1]] if sel[0] == "i" else (list(range(npart))[sel[1] : sel[2]] if sel[0] == "s" else list(sel[1]))
        chosen = [c + npart if c < 0 else c for c in chosen]
        if not chosen or len(set(chosen)) != len(chosen) or chosen != sorted(chosen) or max(chosen) >= npart:
            raise Inapplicable("empty, repeated or out-of-range partition selection: the user would be asking for that layout")
        if sel[0] == "i":
            return d.partitions[sel[1]]
        if sel[0] == "s":
            return d.partitions[sel[1] : sel[2]]
        return d.partitions[list(sel[1])]
    if k in ("add2", "merge", "join", "concat1", "concat0i"):
        o = make_other(kind, seq, op[1][0], op[1][1], seed)
        if k == "add2":
            left = d["a"] if isframe and "a" in d.columns else (d[d.columns[0]] if isframe else d)
            return left + o["a2"]
        if not isframe:
            d = d.to_frame(name="v") if hasattr(d, "to_frame") else d
        if k == "merge":
            return d.merge(o, left_index=True, right_index=True, how=op[2])
        if k == "join":
            return d.join(o, how=op[2])
        if k == "concat1":
            return dd.concat([d, o], axis=1, join=op[2])
        return dd.concat([d, o], axis=0, interleave_partitions=True)
    if k == "concat0":
        o = make_other(kind, seq, "above", op[1], seed)
        if not isframe:
            raise Inapplicable("frame only")
        return dd.concat([d, o], axis=0)
    raise ValueError(op)


class Inapplicable(Exception):
    pass


# ---------------------------------------------------------------------------------------------- shards / cases
def origins_of(seq, tier):
    n = len(seq)
    if tier == "quick":
        return [("fp", "n", 1), ("fp", "n", 2), ("fp", "n", 3)] if n <= 2 else [("fp", "n", 2), ("fp", "n", 3), ("fp", "c", 2)]
    return [("fp", "n", 1), ("fp", "n", 2), ("fp", "n", 3), ("fp", "c", 2)]


def depth2_origins(tier):
    """quick: the 10 sorted length-4 sequences spanning the whole alphabet (0, x, y, 3), 3 partitions asked"""
    for seq in itertools.combinations_with_replacement(range(A), 4):
        if tier == "quick":
            if seq[0] == 0 and seq[-1] == A - 1:
                yield seq, ("fp", "n", 3)
        else:
            yield seq, ("fp", "n", 2)
            yield seq, ("fp", "n", 3)


def shards(tier):
    out = []
    L = SEQ_LEN[tier]
    for n in range(1, L + 1):
        nseq = len(list(itertools.combinations_with_replacement(range(A), n)))
        np_ = 16 if n >= 4 else (6 if n == 3 else 2)
        for part in range(np_):
            out.append(("d1", "int", n, part, np_))
    for kind in ("float", "str", "dt"):
        out.append(("d1", kind, 2, 0, 1))
    out.append(("d1-other-origins",))
    for part in range(24):
        out.append(("d2", part, 24))
    return out


def cases_of(shard, tier):
    fam = shard[0]
    if fam == "d1":
        _, kind, n, part, nparts = shard
        lens = (n,) if kind == "int" else ((2,) if tier == "quick" else (1, 2))
        i = 0
        for m in lens:
            for seq in itertools.combinations_with_replacement(range(A), m):
                for origin in origins_of(seq, tier) if kind == "int" or tier != "quick" else [("fp", "n", 2)]:
                    i += 1
                    if i % nparts != part:
                        continue
                    yield ("p", kind, seq, origin, ())
                    for op in unary_ops(m, tier) + binary_ops(tier):
                        yield ("p", kind, seq, origin, (op,))
    elif fam == "d1-other-origins":
        for n in (1, 3, 4):
            seq = tuple(range(n))  # from_array / from_dict produce a RangeIndex: positions ARE the alphabet indices 0..n-1
            for origin in (("fa", 1), ("fa", 2), ("fa", 3), ("fd", 1), ("fd", 2), ("fd", 3)):
                yield ("p", "range", seq, origin, ())
                for op in unary_ops(n, tier) + binary_ops(tier):
                    yield ("p", "range", seq, origin, (op,))
    elif fam == "d2":
        _, part, nparts = shard
        i = 0
        for seq, origin in depth2_origins(tier):
            for op1 in first_ops(4):
                i += 1
                if i % nparts != part:
                    continue
                for op2 in second_ops(4):
                    yield ("p", "int", seq, origin, (op1, op2))
    else:
        raise ValueError(fam)


# ---------------------------------------------------------------------------------------------- judging
ROW_SELECTING = ("filter", "ifilter", "loc", "loc1", "loclist", "dropna", "head")
CONCATS = ("concat0", "concat1", "concat0i", "merge", "join")
FAMILY = {"projection-after-concat-or-merge": "project", "row-selection-after-set_index": "select"}
PROJECTING = ("col", "cols", "toframe", "add2", "index", "idxser", "idxmap")


def context(op, prev, src, cls):
    """the third part of a finding key: the narrow input class of a recorded finding (C41.findings.json) when there is one,
    else the preceding operation.  op = operation of the shortest failing prefix, src = the collection it was applied to."""
    try:
        if cls == "npartitions-attr":
            if op[0] == "rep_n" and src.known_divisions and op[1] > src.npartitions and not isinstance(src.divisions[0], str):
                return "known-numeric-divisions-upsample"  # same defect as C44's finding of that name
            if op[0] == "setidx" and op[2] in ("n2", "n3"):
                return "explicit-npartitions"
        if prev is not None and prev[0] in CONCATS and (op[0] in PROJECTING or op[0] == "setidx"):
            # the projection (set_index projects its key column) removes the aligned operand and the partitioning reverts to the
            # first frame's, while the report still describes the aligned layout
            return "projection-after-concat-or-merge"
        if cls == "report-differs-from-optimized" and prev is not None:
            if op[0] in ROW_SELECTING and prev[0] in ("setidx", "resetset"):
                return "row-selection-after-set_index"  # the filter is pushed below set_index, divisions are recomputed on other data
            if op[0] == "setidx" and op[2] in ("auto", "n1", "n2", "n3"):
                return "quantile-divisions-on-derived-frame"  # divisions are computed twice on differently simplified expressions
    except Exception:  # noqa: BLE001
        pass
    return f"after-{prev[0]}" if prev is not None else "on-origin"


def examine(e):
    """-> ('unknown'|'ok'|'ok-decreasing'|'bad', info).  Raises whatever dask raises."""
    div = tuple(e.divisions)
    if all(d is None for d in div):
        return "unknown", len(div) - 1
    if any(d is None for d in div):
        return "bad", ("untruthful", f"divisions {div!r} mix None with values")
    npart = e.npartitions
    if npart != len(div) - 1:
        return "bad", ("npartitions-attr", _c4x.truth_problem(npart, div, [])[1])
    parts = list(dask.compute(*e.to_delayed()))
    # the statement does not order the divisions themselves: a decreasing vector is only wrong through a non-empty partition
    bad = _c4x.truth_problem(npart, div, parts, demand_sorted=False)
    if bad:
        cls = "untruthful"
        try:
            odiv = tuple(e.optimize().divisions)
            if odiv != div and not any(d is None for d in odiv) and _c4x.truth_problem(len(odiv) - 1, odiv, parts, demand_sorted=False) is None:
                cls = "report-differs-from-optimized"
                bad = (bad[0], bad[1] + f"; the optimised expression has divisions {odiv!r}, which do describe the partitions")
        except Hang:
            raise
        except Exception:  # noqa: BLE001
            pass
        return "bad", (cls, f"[{bad[0]}] {bad[1]}")
    try:
        if any(b < a for a, b in zip(div, div[1:])):
            return "ok-decreasing", len(parts)
    except TypeError:
        pass
    return "ok", len(parts)


def run_case(case, ctx):
    _, kind, seq, origin, ops = case
    ikind = "int" if kind == "range" else kind
    try:
        pdf, d = make_origin(ikind, seq, origin, ctx.seed)
        exprs = [d]
        for op in ops:
            exprs.append(apply_op(exprs[-1], op, ikind, seq, pdf, ctx.seed))
    except Hang:
        raise
    except Inapplicable:
        ctx.count("inapplicable")
        return
    except Exception as e:  # noqa: BLE001
        ctx.case(case, nontrivial=False, outcome=("build-exc", type(e).__name__))
        ctx.count("build_raises")
        ctx.count(f"build_raises:{ops[len(exprs) - 1][0] if len(exprs) - 1 < len(ops) else '?'}:{type(e).__name__}")
        return
    try:
        verdict, info = examine(exprs[-1])
    except Hang:
        raise
    except Exception as e:  # noqa: BLE001
        # the report could not be compared with the partitions.  If a PREFIX already lies about its partition count that is
        # the cause (e.g. compute() of an expression whose npartitions attribute is wrong) and it is reported below.
        verdict, info = "raised", e
    if verdict == "unknown":
        ctx.case(case, nontrivial=False, outcome=("unknown", info))
        ctx.count("unknown_divisions")
        return
    if verdict == "ok-decreasing":
        ctx.count("decreasing_divisions_all_partitions_empty")
        verdict = "ok"
    if verdict == "ok":
        ctx.case(case, nontrivial=info >= 2, outcome=("known", info, tuple(o[0] for o in ops)))
        return
    # attribute to the shortest failing prefix
    for j, e in enumerate(exprs):
        try:
            v, inf = examine(e)
        except Hang:
            raise
        except Exception as ex:  # noqa: BLE001
            v, inf = "raised", ex
        if v == "bad":
            opk = ops[j - 1][0] if j else origin[0]
            ctxpart = context(ops[j - 1], ops[j - 2] if j >= 2 else None, exprs[j - 1], inf[0]) if j else "origin"
            ctx.case(case, nontrivial=True, outcome=("bad", opk, inf[0]))
            ctx.violation(f"{FAMILY.get(ctxpart, opk)}:{inf[0]}:{ctxpart}", case, f"{describe(kind, seq, origin, ops[:j], ctx.seed)}: {inf[1]}")
            return
    ctx.case(case, nontrivial=False, outcome=("compute-exc", type(info).__name__))
    ctx.count("compute_raises")
    ctx.count(f"compute_raises:{ops[-1][0] if ops else origin[0]}:{type(info).__name__}")


def describe(kind, seq, origin, ops, seed):
    al = _c4x.alphabet("int" if kind == "range" else kind, A + 4, seed)
    idx = list(range(len(seq))) if kind == "range" else [al[i] for i in seq]
    return f"index={idx!r} labels={al[:A]!r} origin={origin!r} ops={ops!r}"


def run_shard(shard, ctx):
    for case in cases_of(shard, ctx.tier):
        if ctx.out_of_time():
            return
        ctx.guard(case, run_case, case, ctx)


def replay(case, ctx):
    run_case(case, ctx)
