"""C52 -- local diagnostics report every executed task faithfully (DESIGN 5/C52).
(a) Profiler inside the exhaustive completion-order sweep (incl. failing tasks and repeated gets under one profiler);
(b) Cache callback: all histories of <= 2 (3) get calls sharing keys, values drawn from an alphabet with key-like / task-like values."""
from __future__ import annotations

import itertools

from mc import sched
from mc.explore import Chooser, explore
from mc.props import _sweep
from mc.run import Hang
from mc.sched import build_graph, deps_of, flat, needed, ref_values, req_keys, run_entry

ID = "C52"
LEVEL = "model_checking"
HANG_IS_VIOLATION = True
WATCHDOG_S = 30.0
ENTRIES = ("async", "threaded", "sync")
NMAX = {"quick": 4, "thorough": 5}
NGETS = {"quick": 2, "thorough": 3}
CONFIGS = [(2, 1), (3, 1), (3, 2), (3, -1)]
ASSUMPTIONS = [
    "G3 for part (a)",
    "part (b) uses a 20-line stand-in for the absent `cachey` package (nbytes + a dict-backed cache object); dask/cache.py itself runs unmodified",
    "within one Cache, equal keys denote equal computations (the graphs of one history share their task definitions)",
]

VALS = [1, "k0", "k2", ("t", 1), ["k1"], None]


def RULE(tier):
    return (
        f"(a) all DAGs <= {NMAX[tier]} nodes (plain + <=1 special kind) x (no failure | every single failing task) x requests (full list, each single key) x entries "
        f"{ENTRIES} x configs {CONFIGS} x EVERY completion order, with one Profiler active (alternately passed as callbacks= and entered as a context manager, i.e. through the global callback registry); then a second get (sub-request) under the SAME profiler. Oracle: one "
        "profiler entry per task that reached posttask (keys as a multiset), start<=end, failing runs keep completed tasks' entries. "
        f"(b) all histories of <= {NGETS[tier]} get calls under one Cache over 3 graph shapes on keys k0,k1,k2 x values in {VALS!r} per task (key-like strings, "
        "task-like tuples, lists of keys) x every request subset; oracle: each get returns the cache-free reference value. non-trivial: (a) >= 2 pending, (b) history of >= 2 gets sharing a key."
    )


def shards(tier):
    out = [("cache", s, v0) for s in range(3) for v0 in range(len(VALS))]
    out += [("prof",) + s for s in _sweep.shards_for(tier, ENTRIES, NMAX[tier])]
    return out


# ------------------------------------------------------------------ (a) profiler
def prof_cases(shard, tier):
    entry, n, lo, hi = shard
    for mask, kinds, style, rev in _sweep.graph_space(tier, n):
        if not (lo <= mask < hi) or style != "int" or rev:
            continue
        fails = [()] + list(_sweep.failsets(n, mask, kinds, 1, "V"))
        reqs = [list(range(n))] + list(range(n))
        for fail in fails:
            for req in reqs:
                for nw, cs in ([(1, 1)] if entry == "sync" else CONFIGS):
                    yield (entry, n, mask, kinds, "int", False, req, nw, cs, fail)


def run_prof_case(case, ctx):
    from dask.diagnostics import Profiler

    entry, n, mask, kinds, style, rev, req_form, nw, cs, fail = case
    found = []
    nexec = 0
    maxpend = 0

    use_context = (mask + n + nw) % 2 == 1  # half of the cases activate the profiler as a context manager (global callbacks) instead of callbacks=

    def expected_keys(K, status, log, rec):
        """ground truth that does NOT go through the callback machinery when the call succeeded: every needed non-literal node
        finished exactly once; for a failing call the recorder's posttask events are used"""
        if status == "ok":
            need = needed(n, mask, flat(req_form))
            return [repr(K[i]) for i in need if kinds[i] != "d"]
        return [repr(k) for kind, k, _ in rec.events if kind == "post"]

    def one_get(prof, dsk, keys, ch):
        rec = sched.Recorder()
        if use_context:
            from dask.callbacks import add_callbacks

            with add_callbacks(rec.tuple):
                status, value, ex, h = run_entry(entry, dsk, keys, nw, cs, ch, callbacks=None)
        else:
            status, value, ex, h = run_entry(entry, dsk, keys, nw, cs, ch, callbacks=[prof._callback, rec.tuple])
        return status, ex, rec

    def run(ch):
        dsk, K = build_graph(n, mask, kinds, style, rev, dict(fail))
        prof = Profiler()
        prof.clear()
        if use_context:
            prof.__enter__()
        try:
            status, ex, rec = one_get(prof, dsk, req_keys(req_form, K), ch)
            posts = expected_keys(K, status, list(sched.LOG), rec)
            # a second get under the same (still open) profiler: the first requested key alone (shares keys with the first call)
            dsk2, K2 = build_graph(n, mask, kinds, style, rev, dict(fail))
            first = flat(req_form)[0]
            saved = (req_form,)
            status2, ex2, rec2 = one_get(prof, dsk2, K2[first], Chooser(()))
            if status2 == "ok":
                need2 = needed(n, mask, [first])
                posts += [repr(K2[i]) for i in need2 if kinds[i] != "d"]
            else:
                posts += [repr(k) for kind, k, _ in rec2.events if kind == "post"]
        finally:
            if use_context:
                prof.__exit__(None, None, None)
        return status, prof, posts, ex.max_pending, K

    for ch, (status, prof, posts, mp, K) in explore(run):
        nexec += 1
        maxpend = max(maxpend, mp)
        got = sorted(repr(r.key) for r in prof.results)
        if got != sorted(posts):
            found.append(("profiler:entries-differ-from-executed-tasks", f"profiler keys {got}, tasks that reached posttask {sorted(posts)}; status={status} choices={ch.choices}"))
        elif any(not (r.start_time <= r.end_time) for r in prof.results):
            found.append(("profiler:start-after-end", f"choices={ch.choices}"))
        elif prof._results:
            found.append(("profiler:stale-internal-entries", f"{list(prof._results)!r}"))
        ctx.transition(len(posts) + 1)
        ctx.state((case[1:5], tuple(sorted(posts))))
        if found:
            break
    ctx.trace(nexec)
    ctx.case(case, nontrivial=maxpend >= 2, n=nexec)
    for key, detail in found[:1]:
        ctx.violation(key, case, detail)


# ------------------------------------------------------------------ (b) cache
SHAPES = [
    {0: (), 1: (0,), 2: (1,)},  # chain
    {0: (), 1: (), 2: (0, 1)},  # fan-in
    {0: (), 1: (0,), 2: (0, 1)},  # triangle
]


class Const:
    def __init__(self, i, v):
        self.i, self.v = i, v

    def __call__(self, *deps):
        return (self.v, deps) if deps else self.v

    def __repr__(self):
        return f"Const({self.i},{self.v!r})"


def cache_graph(shape, vals):
    dsk = {}
    for i, deps in SHAPES[shape].items():
        dsk[f"k{i}"] = (Const(i, VALS[vals[i]]), *[f"k{j}" for j in deps])
    return dsk


def cache_ref(shape, vals):
    out = {}
    for i in range(3):
        deps = SHAPES[shape][i]
        v = VALS[vals[i]]
        out[f"k{i}"] = (v, tuple(out[f"k{j}"] for j in deps)) if deps else v
    return out


def value_class(vals):
    kinds = []
    for v in vals:
        x = VALS[v]
        kinds.append("keylike" if isinstance(x, str) else ("tasklike" if isinstance(x, tuple) else ("listlike" if isinstance(x, list) else "plain")))
    return kinds


def run_cache_case(case, ctx):
    import dask
    from dask.cache import Cache
    from mc.shims import cachey_stub

    cachey_stub.install()
    _, shape, vals, reqs = case
    ref = cache_ref(shape, vals)
    cache = Cache(cachey_stub.Cache())
    shared = len(reqs) >= 2
    ctx.case(case, nontrivial=shared)
    ctx.state(case[:3])
    for gi, req in enumerate(reqs):
        ctx.transition()
        keys = [f"k{i}" for i in req]
        dsk = cache_graph(shape, vals)
        try:
            with cache:
                got = dask.get(dsk, keys)
        except Hang:
            raise
        except Exception as e:  # noqa: BLE001
            kinds = sorted(set(value_class(vals)) - {"plain"})
            ctx.violation(f"cache:get-raises:{type(e).__name__}:{'+'.join(kinds) or 'plain'}", case, f"get #{gi} {keys} raised {e!r}")
            return
        want = tuple(ref[k] for k in keys)
        if got != want:
            bad = [value_class(vals)[i] for i in range(3)]
            kinds = sorted(set(bad) - {"plain"})
            ctx.violation(f"cache:wrong-value:{'+'.join(kinds) or 'plain'}", case, f"get #{gi} {keys}: with Cache {got!r}, without {want!r}")
            return


def cache_cases(shard, tier):
    _, shape, v0 = shard
    subsets = [s for r in range(1, 4) for s in itertools.combinations(range(3), r)]
    for v1 in range(len(VALS)):
        for v2 in range(len(VALS)):
            vals = (v0, v1, v2)
            for L in range(1, NGETS[tier] + 1):
                for reqs in itertools.product(subsets, repeat=L):
                    yield ("cache", shape, vals, reqs)


def run_shard(shard, ctx):
    if shard[0] == "cache":
        for case in cache_cases(shard, ctx.tier):
            if ctx.out_of_time():
                return
            ctx.guard(case, run_cache_case, case, ctx)
        return
    for case in prof_cases(shard[1:], ctx.tier):
        if ctx.out_of_time():
            return
        ctx.guard(case, run_prof_case, case, ctx)


def replay(case, ctx):
    if case[0] == "cache":
        run_cache_case(case, ctx)
    else:
        run_prof_case(case, ctx)
