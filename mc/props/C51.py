"""C51 -- term-rewrite matching is sound and complete (DESIGN 5/C51).  E4 against a brute-force matcher."""
from __future__ import annotations

import itertools

from mc.run import Hang

ID = "C51"
LEVEL = "exploration"
HANG_IS_VIOLATION = True
WATCHDOG_S = 20.0
ASSUMPTIONS = [
    "reference = brute-force structural matcher: a variable binds consistently, a task pattern matches a task with the same head and the SAME number of arguments, a constant matches itself",
    "variables are the strings 'x','y' declared in vars; constants are 'a' and 1; heads f,g are used with arity 1 and 2",
]


def f(*a):
    return ("f",) + a


def g(*a):
    return ("g",) + a


def m0(*a):
    return ("m0",) + a


def m1(*a):
    return ("m1",) + a


def m2(*a):
    return ("m2",) + a


HEADS = {"f": f, "g": g}
MARK = [m0, m1, m2]


def RULE(tier):
    return (
        "terms: ALL terms of depth <= 2 over heads {f,g} (arity 1 and 2) and constants {'a',1} (422 terms), and the same again over the falsy constants {'',0}; rules: ALL left-hand sides of depth <= 2 "
        "over the same grammar with variables {x,y} (repeats allowed; 3964 patterns) as single-rule sets, and ALL unordered pairs (+ selected triples in thorough) of the 44 "
        "patterns of depth <= 1 as multi-rule sets. Oracle: multiset of (rule, subs) from iter_matches == brute-force matches; top-level rewrite "
        "applies a matching rule iff one exists; bottom_up rewrite == reference bottom-up application for single rules. non-trivial = pattern contains a variable and term is a task."
    )


def gen(atoms, depth):
    """literal encoding: atom | ('f'|'g', t1[, t2])"""
    cur = list(atoms)
    for _ in range(depth):
        new = list(atoms)
        for h in "fg":
            for t in cur:
                new.append((h, t))
            for t1 in cur:
                for t2 in cur:
                    new.append((h, t1, t2))
        cur = new
    return cur


def build(t):
    if isinstance(t, tuple):
        return (HEADS[t[0]],) + tuple(build(a) for a in t[1:])
    return t


VARS = ("x", "y")


def ref_match(p, t, subs):
    if isinstance(p, str) and p in VARS:
        if p in subs:
            return subs if subs[p] == t else None
        s2 = dict(subs)
        s2[p] = t
        return s2
    if isinstance(p, tuple):
        if not isinstance(t, tuple) or t[0] != p[0] or len(t) != len(p):
            return None
        for a, b in zip(p[1:], t[1:]):
            subs = ref_match(a, b, subs)
            if subs is None:
                return None
        return subs
    return subs if (p == t and type(p) is type(t)) else None


def arity_mismatch(p, t):
    if isinstance(p, tuple) and isinstance(t, tuple):
        if p[0] == t[0] and len(p) != len(t):
            return True
        return any(arity_mismatch(a, b) for a, b in zip(p[1:], t[1:]))
    return False


def vars_of(p):
    if isinstance(p, tuple):
        out = []
        for a in p[1:]:
            out += vars_of(a)
        return out
    return [p] if p in VARS else []


def shards(tier):
    out = [("single", i, 48) for i in range(48)]
    out += [("pairs", i, 16) for i in range(16)]
    # the same single-rule sweep with the legal but FALSY constants '' and 0 (a binding that is falsy must still be a binding)
    out += [("single0", i, 48) for i in range(48)]
    return out


TERMS = None
PATS2 = None
PATS1 = None
TERMS0 = None
PATS2_0 = None


def setup():
    global TERMS, PATS2, PATS1, TERMS0, PATS2_0
    TERMS = gen(["a", 1], 2)
    PATS2 = gen(["a", 1, "x", "y"], 2)
    PATS1 = gen(["a", 1, "x", "y"], 1)
    TERMS0 = gen(["", 0], 2)
    PATS2_0 = gen(["", 0, "x", "y"], 2)


def check_ruleset(pats, ctx, case_prefix, terms=None):
    from dask.rewrite import RewriteRule, RuleSet

    terms = TERMS if terms is None else terms

    rules = []
    for i, p in enumerate(pats):
        vs = tuple(sorted(set(vars_of(p))))
        rules.append(RewriteRule(build(p), (MARK[i],) + vs, VARS))
    try:
        rs = RuleSet(*rules)
    except Hang:
        raise
    except Exception as e:  # noqa: BLE001
        ctx.violation(f"RuleSet-raises:{type(e).__name__}", (case_prefix, pats), repr(e))
        return
    has_var = any(vars_of(p) for p in pats)
    for ti, t in enumerate(terms):
        case = (case_prefix, pats, t)
        ctx.case(case, nontrivial=has_var and isinstance(t, tuple))
        bt = build(t)
        want = []
        for i, p in enumerate(pats):
            s = ref_match(p, t, {})
            if s is not None:
                want.append((i, tuple(sorted((k, repr(build(v))) for k, v in s.items()))))
        try:
            got_raw = list(rs.iter_matches(bt))
        except Hang:
            raise
        except Exception as e:  # noqa: BLE001
            ctx.violation(f"iter_matches-raises:{type(e).__name__}", case, repr(e)[:300])
            continue
        got = []
        for rule, sd in got_raw:
            i = rules.index(rule)
            got.append((i, tuple(sorted((k, repr(v)) for k, v in sd.items()))))
        if sorted(got) != sorted(want):
            spurious = [x for x in got if x not in want]
            missing = [x for x in want if x not in got]
            if spurious:
                cls = "arity-mismatch" if all(arity_mismatch(pats[i], t) for i, _ in spurious) else "other"
                ctx.violation(f"spurious-match:{cls}", case, f"iter_matches yields {spurious!r} but lhs with these bindings is not the term")
            if missing:
                ctx.violation("missing-match", case, f"brute force finds {missing!r}; iter_matches gave {got!r}")
            if not spurious and not missing:
                ctx.violation("duplicate-match", case, f"{got!r} vs {want!r}")
            continue
        # top-level rewrite
        try:
            r = rs.rewrite(bt, strategy="top_level")
        except Hang:
            raise
        except Exception as e:  # noqa: BLE001
            ctx.violation(f"rewrite-raises:{type(e).__name__}", case, repr(e)[:300])
            continue
        if not want:
            if r != bt:
                ctx.violation("rewrite-changes-unmatched-term", case, f"{r!r}")
        else:
            cands = []
            for i, p in enumerate(pats):
                s = ref_match(p, t, {})
                if s is not None:
                    cands.append((MARK[i],) + tuple(build(s[v]) for v in sorted(set(vars_of(p)))))
            if r not in cands:
                ctx.violation("rewrite-result-not-from-a-matching-rule", case, f"{r!r} not in {cands!r}")


def run_shard(shard, ctx):
    kind, part, nparts = shard
    if kind == "single":
        for i, p in enumerate(PATS2):
            if i % nparts != part:
                continue
            if ctx.out_of_time():
                return
            ctx.guard(("single", (p,)), check_ruleset, (p,), ctx, "single")
    elif kind == "single0":
        for i, p in enumerate(PATS2_0):
            if i % nparts != part:
                continue
            if ctx.out_of_time():
                return
            ctx.guard(("single0", (p,)), check_ruleset, (p,), ctx, "single0", TERMS0)
    else:
        combos = list(itertools.combinations(range(len(PATS1)), 2))
        if ctx.tier == "thorough":
            combos += [(a, b, c) for a, b, c in itertools.combinations(range(0, len(PATS1), 3), 3)]
        for ci, combo in enumerate(combos):
            if ci % nparts != part:
                continue
            if ctx.out_of_time():
                return
            pats = tuple(PATS1[i] for i in combo)
            ctx.guard(("multi", pats), check_ruleset, pats, ctx, "multi")


def replay(case, ctx):
    setup()
    terms = [case[2]] if len(case) == 3 else (TERMS0 if case[0] == "single0" else TERMS)
    check_ruleset(tuple(case[1]), ctx, case[0], terms)
