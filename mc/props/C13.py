"""C13 -- collections computed together give the same values as computed alone (DESIGN 5/C13).

E4: a fixed universe of small, deliberately NEAR-IDENTICAL collections (same bytes in another layout / dtype,
same strings split differently, same arguments in another order or container kind, frames equal up to dtype /
index / column order / block placement).  Every pair (thorough: also both orders and every triple inside a
family group) is computed alone and together; each descriptor is also evaluated eagerly with NumPy / pandas /
plain Python.  Everything is a literal descriptor, so a case replays from its repr.
"""
from __future__ import annotations

import itertools
import operator
import warnings
import zlib

import numpy as np

from mc import dfh  # noqa: F401  (installs the pyarrow stand-in and imports dask.dataframe)
from mc.run import Hang

import pandas as pd  # noqa: E402

import dask  # noqa: E402
import dask.array as da  # noqa: E402
import dask.bag as db  # noqa: E402
import dask.dataframe as dd  # noqa: E402
from dask import delayed  # noqa: E402
from dask.utils import key_split  # noqa: E402

ID = "C13"
LEVEL = "exploration"
WATCHDOG_S = 30.0
NSHARDS = 48
ASSUMPTIONS = [
    "sync scheduler; collections are built fresh for every case from a literal descriptor",
    "explicit names are never reused for different data (delayed(v, name=...) / dask_key_name are documented as the caller's "
    "responsibility); all colliding keys found are therefore produced by dask's own naming",
    "unseeded random arrays have no eager reference; they are only compared alone vs together on the same object",
]


def RULE(tier):
    u = universe(tier)
    groups = {}
    for fam, _ in u:
        groups[group_of(fam)] = groups.get(group_of(fam), 0) + 1
    extra = (
        "every unordered pair i<=j (i==j = two independent builds of the same descriptor)"
        if tier == "quick"
        else "every ORDERED pair, plus every unordered triple inside one family group"
    )
    extra += (
        "; plus INTERLEAVED-KIND tuples over 5 kinds (array, bag, delayed, dataframe, bag Item) x 3 distinct members: (x_i, y, x_j) for every "
        "ordered kind pair, every ordered pair of distinct members i != j and every y; 4-tuples (x_i, y_a, x_j, y_b) and three-kind 4-tuples"
    )
    return (
        f"universe of {len(u)} near-identical collections {groups} (from_array over dtype/layout/shape/chunk/object-string/record-dtype variants (same buffer, other field names/order/types) and their "
        "field access, 2- and 9-step linear pipelines of identical long-named steps over different inputs (bag map/filter, pure delayed, map_blocks), "
        "elementwise/unary/binary/map_blocks results, bags from sequences differing in nesting/partitioning/element type, pure delayed "
        "calls/objects/operators differing in argument order, container kind, scalar type, nested-delayed order, pandas frames equal up "
        f"to dtype/index/column order/block placement, unseeded random arrays); {extra}; each tuple computed with dask.compute(...) under "
        "optimize_graph in {True, False} and compared with .compute() of every member alone and with the eager NumPy/pandas/Python value "
        "(type- and dtype-strict). non-trivial = the members' graphs share >= 1 key prefix."
    )


# ====================================================================== value encodings
# scalars (int, float, bool, str, bytes, None) are literal; everything else is tagged:
#   ("L", items) list  ("T", items) tuple  ("S", items) set  ("D", ((k, v), ...)) dict  ("s", a, b, c) slice
#   ("np", cells, shape, dtype, layout) ndarray   ("obj", items) 1-d object ndarray   ("np0", dtype, v) numpy scalar
#   ("rec", fields, cells) record array: the int32 buffer `cells` viewed with the structured dtype `fields`
#   ("d", name) named delayed leaf   ("dl", descriptor) nested delayed collection (lazy) / its eager value
DVALS = {"a": 1, "b": 2, "c": (1, 2), "l": [3, 4]}


def np_value(cells, shape, dtype, layout):
    cells = list(cells)
    n = int(np.prod(shape))
    assert len(cells) == n or layout == "bc"

    def cast(a):
        if dtype.startswith(("M8", "m8")):
            return a.astype("i8").astype(dtype)
        if dtype in ("S1", "U1"):
            return np.array([chr(96 + int(c)) for c in a.ravel()]).reshape(a.shape).astype(dtype)
        if dtype == "bool":
            return (a % 2).astype(bool)
        return a.astype(dtype)

    if layout == "C":
        return np.ascontiguousarray(cast(np.array(cells).reshape(shape)))
    if layout == "F":
        return np.asfortranarray(cast(np.array(cells).reshape(shape)))
    if layout == "T":  # the buffer holds `cells` in order, viewed transposed: same bytes as "C", other value
        return np.ascontiguousarray(cast(np.array(cells).reshape(shape[::-1]))).T
    if layout == "rev":  # value == C, negative strides
        return np.ascontiguousarray(cast(np.array(cells[::-1]).reshape(shape)))[::-1] if len(shape) == 1 else None
    if layout == "step":  # value == C, every other element of a longer buffer
        buf = np.zeros(2 * n, dtype="i8")
        buf[::2] = cells
        return cast(buf)[::2].reshape(shape)
    if layout == "bc":  # stride 0
        return np.broadcast_to(cast(np.array(cells[:1])), shape)
    raise ValueError(layout)


def dec(e, lazy):
    """encoded value -> python object; lazy=True keeps Delayed objects inside, lazy=False substitutes their values"""
    if not isinstance(e, tuple):
        return e
    tag = e[0]
    if tag == "L":
        return [dec(x, lazy) for x in e[1]]
    if tag == "T":
        return tuple(dec(x, lazy) for x in e[1])
    if tag == "S":
        return {dec(x, lazy) for x in e[1]}
    if tag == "D":
        return {dec(k, lazy): dec(v, lazy) for k, v in e[1]}
    if tag == "s":
        return slice(dec(e[1], lazy), dec(e[2], lazy), dec(e[3], lazy))
    if tag == "np":
        return np_value(*e[1:])
    if tag == "obj":
        out = np.empty(len(e[1]), dtype=object)
        for i, x in enumerate(e[1]):
            out[i] = x
        return out
    if tag == "np0":
        return np.dtype(e[1]).type(e[2])
    if tag == "rec":  # structured (record) view of one little-endian int32 buffer: ("rec", fields, cells)
        return np.array(e[2], dtype="<i4").view(np.dtype([tuple(f) for f in e[1]])).copy()
    if tag == "d":
        return delayed(DVALS[e[1]], name=e[1]) if lazy else DVALS[e[1]]
    if tag == "dl":
        return build(e[1]) if lazy else eager(e[1])
    raise ValueError(f"bad encoding {e!r}")


# ====================================================================== functions used by the programs
def tup(*args, **kwargs):
    return (args, sorted(kwargs.items()))


def inc(x):
    return x + 1


def odd(x):
    return x % 2 == 1


def fingerprint(k):
    return zlib.crc32(repr(np.asarray(k).tolist()).encode()) % 997


def addfp(x, k=None):
    return x + fingerprint(k)


# ---- long linear pipelines: the same steps (long function names -> over-long fused key names) applied to different inputs
def pipeline_step_add_three_to_every_value(x):
    return x + 3


def pipeline_step_double_every_single_value(x):
    return x * 2


def pipeline_step_subtract_one_from_value(x):
    return x - 1


def pipeline_step_square_each_of_the_values(x):
    return x * x


def pipeline_step_negate_all_of_the_values(x):
    return -x


def pipeline_step_add_ten_to_every_value(x):
    return x + 10


def pipeline_step_triple_every_single_value(x):
    return x * 3


def pipeline_step_subtract_seven_from_value(x):
    return x - 7


def pipeline_predicate_keep_values_above_eight(x):
    return x > 8


CHAIN_STEPS = [
    pipeline_step_add_three_to_every_value,
    pipeline_step_double_every_single_value,
    pipeline_predicate_keep_values_above_eight,  # bags: filter; delayed / arrays: skipped
    pipeline_step_subtract_one_from_value,
    pipeline_step_square_each_of_the_values,
    pipeline_step_negate_all_of_the_values,
    pipeline_step_add_ten_to_every_value,
    pipeline_step_triple_every_single_value,
    pipeline_step_subtract_seven_from_value,
]


def build_chain(kind, x, n):
    for f in CHAIN_STEPS[:n]:
        pred = f is pipeline_predicate_keep_values_above_eight
        if kind == "bag":
            x = x.filter(f) if pred else x.map(f)
        elif pred:
            continue
        elif kind == "dly":
            x = delayed(f, pure=True)(x)
        else:
            x = x.map_blocks(f, dtype=x.dtype)
    return x


def eager_chain(kind, x, n):
    for f in CHAIN_STEPS[:n]:
        pred = f is pipeline_predicate_keep_values_above_eight
        if kind == "bag":
            x = [v for v in x if f(v)] if pred else [f(v) for v in x]
        elif not pred:
            x = f(x)
    return x


BINOPS = {"add": operator.add, "sub": operator.sub, "mul": operator.mul, "getitem": operator.getitem, "truediv": operator.truediv}
FUNCS = {"tup": tup, "inc": inc}


# ====================================================================== collections: build (dask) and eager (reference)
def build_frame(fd):
    how = fd[0]
    if how == "dict":
        _, cols, idx = fd
        pdf = pd.DataFrame({name: pd.Series(list(vals), dtype=dt) for name, dt, vals in cols})
    elif how == "dictorder":  # built in another column order, then re-ordered: other block placement, same value
        _, cols, idx, order = fd
        pdf = pd.DataFrame({name: pd.Series(list(vals), dtype=dt) for name, dt, vals in cols})[list(order)]
    elif how == "nd":  # from a 2-d ndarray: the block is the transposed (F-ordered) view of the input
        _, cells, shape, dt, names, idx = fd
        pdf = pd.DataFrame(np.array(cells).reshape(shape).astype(dt), columns=list(names))
    else:
        raise ValueError(how)
    if idx is not None:
        vals, name, dt = idx
        pdf.index = pd.Index(list(vals), name=name, dtype=dt)
    return pdf


def _apply_dfop(op, x):
    if op == "a":
        return x["a"]
    if op == "a+1":
        return x["a"] + 1
    if op == "sum":
        return x.sum()
    if op == "gt":
        return x[x[x.columns[0]] > 2]
    if op == "assign_i":
        return x.assign(z=1)
    if op == "assign_f":
        return x.assign(z=1.0)
    if op == "index":
        return x.index
    raise ValueError(op)


def build(d):
    k = d[0]
    if k == "fa":
        return da.from_array(dec(d[1], True), chunks=d[2])
    if k == "ew":
        a = build(d[2])
        other = build(d[3][1]) if d[3][0] == "c" else dec(d[3][1], True)
        return BINOPS[d[1]](a, other)
    if k == "un":
        a = build(d[2])
        return {"neg": lambda: -a, "T": lambda: a.T, "rev": lambda: a[::-1], "sum": lambda: a.sum(), "sum0": lambda: a.sum(axis=0)}[d[1]]()
    if k == "fld":
        return build(d[2])[d[1]]
    if k == "chain":
        return build_chain(d[1], build(d[2]) if d[1] != "dly" else dec(d[2], True), d[3])
    if k == "mb":
        a = build(d[1])
        return da.map_blocks(addfp, a, k=dec(d[2], True), dtype=a.dtype)
    if k == "bag":
        return db.from_sequence(d[1], **{("npartitions" if d[2][0] == "np" else "partition_size"): d[2][1]})
    if k == "bop":
        b = build(d[2])
        return _apply_bop(d[1], b, True)
    if k == "call":
        _, pure, fname, args, kwargs = d
        f = delayed(FUNCS[fname], pure=pure)
        return f(*[dec(a, True) for a in args], **{kk: dec(v, True) for kk, v in kwargs})
    if k == "dobj":
        return delayed(dec(d[2], True), pure=d[1])
    if k == "dop":
        a, b = dec(d[2], True), dec(d[3], True)
        return BINOPS[d[1]](a, b)
    if k == "dmeth":
        _, pure, a, meth, args = d
        return getattr(dec(a, True), meth)(*[dec(x, True) for x in args], pure=pure)
    if k == "df":
        return dd.from_pandas(build_frame(d[1]), npartitions=d[2], sort=d[3])
    if k == "dfop":
        return _apply_dfop(d[1], build(d[2]))
    if k == "rand":
        kind = d[1]
        if kind == "random":
            return da.random.random((4,), chunks=2)
        if kind == "normal":
            return da.random.normal(size=(4,), chunks=2)
        if kind == "rs":
            return da.random.RandomState().random_sample((4,), chunks=2)
        if kind == "rng":
            return da.random.default_rng().random((4,), chunks=2)
        if kind == "impure":
            return delayed(tup, pure=False)(1, 2)
    raise ValueError(f"bad descriptor {d!r}")


def _apply_bop(op, b, lazy):
    if lazy:
        return {
            "inc": lambda: b.map(inc),
            "str": lambda: b.map(str),
            "odd": lambda: b.filter(odd),
            "sum": lambda: b.sum(),
            "count": lambda: b.count(),
            "flatten": lambda: b.flatten(),
            "pluck0": lambda: b.pluck(0),
            "max": lambda: b.max(),
        }[op]()
    return {
        "inc": lambda: [inc(x) for x in b],
        "str": lambda: [str(x) for x in b],
        "odd": lambda: [x for x in b if odd(x)],
        "sum": lambda: sum(b),
        "count": lambda: len(b),
        "flatten": lambda: [y for x in b for y in x],
        "pluck0": lambda: [x[0] for x in b],
        "max": lambda: max(b),
    }[op]()


NOREF = object()


def eager(d):
    k = d[0]
    if k == "fa":
        return np.array(dec(d[1], False))
    if k == "ew":
        a = eager(d[2])
        other = eager(d[3][1]) if d[3][0] == "c" else dec(d[3][1], False)
        return BINOPS[d[1]](a, other)
    if k == "un":
        a = eager(d[2])
        return {"neg": lambda: -a, "T": lambda: a.T, "rev": lambda: a[::-1], "sum": lambda: a.sum(), "sum0": lambda: a.sum(axis=0)}[d[1]]()
    if k == "fld":
        return eager(d[2])[d[1]]
    if k == "chain":
        return eager_chain(d[1], eager(d[2]) if d[1] != "dly" else dec(d[2], False), d[3])
    if k == "mb":
        return addfp(eager(d[1]), k=dec(d[2], False))
    if k == "bag":
        return list(d[1])
    if k == "bop":
        return _apply_bop(d[1], eager(d[2]), False)
    if k == "call":
        _, pure, fname, args, kwargs = d
        return FUNCS[fname](*[dec(a, False) for a in args], **{kk: dec(v, False) for kk, v in kwargs})
    if k == "dobj":
        return dec(d[2], False)
    if k == "dop":
        return BINOPS[d[1]](dec(d[2], False), dec(d[3], False))
    if k == "dmeth":
        _, pure, a, meth, args = d
        return getattr(dec(a, False), meth)(*[dec(x, False) for x in args])
    if k == "df":
        pdf = build_frame(d[1])
        return pdf.sort_index() if d[3] else pdf
    if k == "dfop":
        return _apply_dfop(d[1], eager(d[2]))
    if k == "rand":
        return NOREF
    raise ValueError(f"bad descriptor {d!r}")


from mc.props._c1x import same  # noqa: E402,F401  (type-strict structural equality)


# ====================================================================== the universe
C4 = (1, 2, 3, 4)


def NP(cells=C4, shape=(4,), dtype="i8", layout="C"):
    return ("np", tuple(cells), tuple(shape), dtype, layout)


def group_of(fam):
    return fam.split("-")[0]


_UNIVERSE = {}


def universe(tier):
    if tier in _UNIVERSE:
        return _UNIVERSE[tier]
    T = tier == "thorough"
    U = []

    def add(fam, d):
        U.append((fam, d))

    # ---- arrays: from_array over value variants
    one_d = [NP(dtype=dt) for dt in ("i8", "i4", "u8", "f8", "f4", "<i2", ">i2", "bool", "M8[s]", "M8[D]", "m8[s]", "S1", "U1")]
    one_d += [NP(layout=lay) for lay in ("rev", "step")] + [NP(cells=(1,), layout="bc"), NP(cells=(1, 1, 1, 1))]
    one_d += [NP(cells=(4, 3, 2, 1)), NP(cells=(1, 2, 4, 3)), NP(cells=(256, 512, 768, 1024), dtype=">i2"), NP(cells=(4, 3, 2, 1), layout="rev")]
    two_d = [NP(shape=(2, 2), layout=lay) for lay in ("C", "F", "T")] + [NP(cells=(1, 3, 2, 4), shape=(2, 2)), NP(shape=(1, 4)), NP(shape=(4, 1))]
    two_d += [NP(cells=(1, 3, 2, 4), shape=(2, 2), layout="T"), NP(shape=(2, 2), dtype="f8"), NP(shape=(2, 2), dtype="f8", layout="T")]
    objs = [
        ("obj", ("a-b", "c")),
        ("obj", ("a", "b-c")),
        ("obj", ("a", "b", "c")),
        ("obj", ("a-b-c",)),
        ("obj", (b"a-b", b"c")),
        ("obj", (b"a", b"b-c")),
        ("obj", ("a", "b", None)),
        ("obj", (1, 2)),
        ("obj", ("1", "2")),
        ("obj", ("a", "b-c", "")),
        ("obj", ("a-b", "c-")),
        ("obj", ("a", "-b", "c")),
        ("obj", ("a", "", "b", "c")),
    ]
    if T:
        one_d += [NP(cells=c) for c in ((2, 1, 3, 4), (1, 2, 3, 5), (0, 2, 3, 4))] + [NP(dtype=dt) for dt in ("i2", "u4", "c16", "M8[ms]", "m8[D]", "i1", "u1")]
        two_d += [NP(shape=(2, 2), dtype=dt, layout=lay) for dt in ("i4", "bool") for lay in ("C", "T")]
        objs += [("obj", ("a--b", "c")), ("obj", ("a", "-b-c")), ("obj", ("ab", "c")), ("obj", ("a", "bc")), ("obj", (b"a", "b-c"))]
    for v in one_d:
        add("arr-fa", ("fa", v, (4,)))
    for v in one_d[:4] + (one_d[13:15] + one_d[4:13] if T else []):
        add("arr-fa", ("fa", v, (2, 2)))
    if T:
        for v in one_d[:2]:
            add("arr-fa", ("fa", v, (1, 3)))
            add("arr-fa", ("fa", v, (3, 1)))
    for v in two_d:
        add("arr-fa", ("fa", v, tuple(v[2])))
    for v in two_d[: 4 if T else 2]:
        add("arr-fa", ("fa", v, (1, 2)))
    for v in objs:
        add("arr-faobj", ("fa", v, (len(v[1]),)))
    for v in objs[:3]:
        add("arr-faobj", ("fa", v, (1,)))
    # ---- arrays: record (structured) dtypes -- same buffer, same itemsize, other field names / order / types
    c12 = tuple(range(1, 13))
    recs = [
        ("rec", (("a", "<i4"), ("b", "<i4")), c12),
        ("rec", (("b", "<i4"), ("a", "<i4")), c12),
        ("rec", (("a", "<i4"), ("b", "<f4")), c12),
        ("rec", (("a", "<i8"),), c12),
        ("rec", (("a", "<i4"), ("c", "<i4")), c12),
        ("rec", (("a", "<i4"), ("b", "<i4")), c12[::-1]),
    ]
    for v in recs:
        add("arr-farec", ("fa", v, (3, 3)))
        add("arr-farec", ("ew", "mul", ("fld", "a", ("fa", v, (3, 3))), ("v", 2)))
    for v in recs[:3]:
        add("arr-farec", ("fa", v, (6,)))
    # ---- arrays: elementwise / unary / binary results on a core subset
    A = ("fa", NP(), (2, 2))
    Af = ("fa", NP(dtype="f8"), (2, 2))
    Ar = ("fa", NP(cells=(4, 3, 2, 1)), (2, 2))
    M, Mt = ("fa", NP(shape=(2, 2)), (2, 2)), ("fa", NP(shape=(2, 2), layout="T"), (2, 2))
    O1, O2 = ("fa", objs[0], (2,)), ("fa", objs[1], (2,))
    for base in (A, Af):
        for arg in (1, 1.0, True, ("np0", "i8", 1), ("np0", "i1", 1), 2):
            add("arr-ew", ("ew", "add", base, ("v", arg)))
        add("arr-ew", ("ew", "mul", base, ("v", 1)))
        add("arr-ew", ("ew", "sub", base, ("v", -1)))
        for u in ("neg", "rev", "sum"):
            add("arr-un", ("un", u, base))
    for x, y in ((A, Ar), (Ar, A), (M, Mt), (Mt, M)):
        add("arr-ew2", ("ew", "sub", x, ("c", y)))
        add("arr-ew2", ("ew", "add", x, ("c", y)))
    add("arr-ew2", ("ew", "add", O1, ("c", O2)))  # ONE collection made of two near-identical inputs
    add("arr-ew2", ("ew", "add", O2, ("c", O1)))
    add("arr-ew2", ("ew", "add", O1, ("c", O1)))
    for v in (NP(shape=(2, 2)), NP(shape=(2, 2), layout="T"), NP(cells=(1, 3, 2, 4), shape=(2, 2)), NP(shape=(2, 2), layout="F")):
        add("arr-ewnp", ("ew", "add", M, ("v", v)))  # numpy operand of an elementwise op
        add("arr-mb", ("mb", A, v))  # numpy keyword argument of map_blocks
    for v in objs[:3]:
        add("arr-mb", ("mb", A, v))
    for u in ("T", "sum0"):
        add("arr-un", ("un", u, M))
        add("arr-un", ("un", u, Mt))

    # ---- bags
    seqs = [
        [1, 2, 3, 4],
        [4, 3, 2, 1],
        [1.0, 2.0, 3.0, 4.0],
        [True, 2, 3, 4],
        ["1", "2", "3", "4"],
        [[1, 2], [3, 4]],
        [(1, 2), (3, 4)],
        [[1], [2, 3, 4]],
        ["12", "34"],
        ["1", "234"],
        ["ab", "c"],
        ["a", "bc"],
        [[1, 2, 3, 4]],
        [1, 2, 3, 4, 4],
    ]
    for s in seqs:
        add("bag-seq", ("bag", s, ("np", 2)))
    for s in seqs[:2] + seqs[5:7]:
        add("bag-seq", ("bag", s, ("np", 1)))
    add("bag-seq", ("bag", seqs[0], ("np", 4)))
    add("bag-seq", ("bag", seqs[0], ("ps", 2)))
    add("bag-seq", ("bag", seqs[0], ("ps", 3)))
    for s, part in ((seqs[0], ("np", 2)), (seqs[2], ("np", 2)), (seqs[0], ("np", 1))):
        for op in ("inc", "str", "odd", "sum", "count", "max"):
            add("bag-op", ("bop", op, ("bag", s, part)))
    for s in (seqs[5], seqs[6], seqs[7]):
        for op in ("flatten", "pluck0", "count"):
            add("bag-op", ("bop", op, ("bag", s, ("np", 2))))

    # ---- delayed: pure calls differing in argument order / container kind / scalar type
    a, b = ("d", "a"), ("d", "b")
    argsets = [
        ((1, 2), ()),
        ((2, 1), ()),
        ((("T", (1, 2)),), ()),
        ((("L", (1, 2)),), ()),
        ((("S", (1, 2)),), ()),
        ((("L", (2, 1)),), ()),
        ((1, 2.0), ()),
        ((1.0, 2.0), ()),
        ((True, 2), ()),
        (("1", 2), ()),
        ((b"1", 2), ()),
        (("1, 2",), ()),
        (("12",), ()),
        ((12,), ()),
        ((None,), ()),
        (("None",), ()),
        ((), ()),
        ((("T", ()),), ()),
        ((("L", ()),), ()),
        ((), (("a", 1), ("b", 2))),
        ((), (("a", 2), ("b", 1))),
        ((), (("b", 2), ("a", 1))),
        ((1,), (("b", 2),)),
        ((("D", (("a", 1), ("b", 2))),), ()),
        ((("D", (("a", 2), ("b", 1))),), ()),
        ((("L", (("T", ("a", 1)), ("T", ("b", 2)))),), ()),
        ((("D", ((1, "x"), ("1", "y"))),), ()),
        ((("D", ((1, "y"), ("1", "x"))),), ()),
        ((("s", 1, 2, None),), ()),
        ((("s", None, 1, 2),), ()),
        ((("T", (1, 2, None)),), ()),
        ((("np0", "i8", 1), 2), ()),
        ((("np0", "f8", 1.0), 2), ()),
        ((a, b), ()),
        ((b, a), ()),
        ((("L", (a, b)),), ()),
        ((("L", (b, a)),), ()),
        ((("T", (a, b)),), ()),
        ((("T", (b, a)),), ()),
        ((("D", (("x", a), ("y", b))),), ()),
        ((("D", (("x", b), ("y", a))),), ()),
        ((), (("x", a), ("y", b))),
        ((), (("x", b), ("y", a))),
        ((("s", a, b, None),), ()),
        ((("s", b, a, None),), ()),
        ((1, a), ()),
        ((a, 1), ()),
        ((NP(shape=(2, 2)),), ()),
        ((NP(shape=(2, 2), layout="T"),), ()),
        ((NP(shape=(2, 2), layout="F"),), ()),
        ((NP(cells=(1, 3, 2, 4), shape=(2, 2)),), ()),
        ((NP(),), ()),
        ((NP(dtype="f8"),), ()),
        ((("L", C4),), ()),
        ((objs[0],), ()),
        ((objs[1],), ()),
    ]
    for args, kw in argsets:
        add("dly-call", ("call", True, "tup", args, kw))
    for v in recs[:4]:
        add("dly-call", ("call", True, "tup", (v,), ()))
        add("dly-obj", ("dobj", True, v))
    add("dly-call", ("call", True, "inc", (1,), ()))
    add("dly-call", ("call", True, "inc", (1.0,), ()))
    add("dly-call", ("call", True, "inc", (a,), ()))
    # ---- delayed objects (pure names are content hashes)
    objvals = [
        1,
        1.0,
        True,
        "1",
        ("L", (1, 2)),
        ("T", (1, 2)),
        ("L", (2, 1)),
        ("S", (1, 2)),
        ("D", (("a", 1),)),
        ("L", (a, b)),
        ("L", (b, a)),
        ("T", (a, b)),
        ("T", (b, a)),
        ("S", (a, b)),
        ("D", (("x", a), ("y", b))),
        ("D", (("x", b), ("y", a))),
        ("D", ((a, "x"), (b, "y"))),
        ("D", ((a, "y"), (b, "x"))),
        ("L", (a, ("L", (b,)))),
        ("L", (("L", (a,)), b)),
        ("L", (a, 1)),
        ("L", (1, a)),
        ("L", (a, a)),
        ("L", (a,)),
        ("s", a, b, None),
        ("s", b, a, None),
        NP(shape=(2, 2)),
        NP(shape=(2, 2), layout="T"),
        objs[0],
        objs[1],
    ]
    for v in objvals:
        add("dly-obj", ("dobj", True, v))
    for v in (("L", (a, b)), ("L", (b, a)), 1) if T else (("L", (a, b)),):
        add("dly-obj", ("dobj", False, v))
    # a single program that contains two near-identical sub-collections
    lab, lba = ("dl", ("dobj", True, ("L", (a, b)))), ("dl", ("dobj", True, ("L", (b, a))))
    add("dly-call", ("call", True, "tup", (lab, lba), ()))
    add("dly-call", ("call", True, "tup", (lba, lab), ()))
    add("dly-call", ("call", True, "tup", (lab, lab), ()))
    # ---- delayed operators / item access / methods
    c, l = ("d", "c"), ("d", "l")
    for op, x, y in (
        ("add", a, b),
        ("add", b, a),
        ("sub", a, b),
        ("sub", b, a),
        ("sub", a, 2),
        ("sub", 2, a),
        ("add", a, 1),
        ("add", a, 1.0),
        ("add", a, True),
        ("getitem", c, 0),
        ("getitem", c, 1),
        ("getitem", c, -1),
        ("getitem", l, 0),
        ("getitem", l, ("s", 0, 1, None)),
        ("getitem", l, ("s", 1, None, None)),
        ("getitem", l, a),
        ("truediv", a, b),
        ("truediv", b, a),
    ):
        add("dly-op", ("dop", op, x, y))
    for pure in (True, False):
        add("dly-op", ("dmeth", pure, l, "index", (3,)))
        add("dly-op", ("dmeth", pure, l, "index", (4,)))
        add("dly-op", ("dmeth", pure, l, "count", (3,)))

    # ---- dataframes
    i8a, i8b = ("a", "i8", C4), ("b", "i8", (5, 6, 7, 8))
    frames = [
        ("dict", (i8a, i8b), None),
        ("dict", (("a", "f8", C4), i8b), None),
        ("dict", (("a", "i4", C4), i8b), None),
        ("dict", (i8b, i8a), None),
        ("dict", (("a", "i8", (5, 6, 7, 8)), ("b", "i8", C4)), None),
        ("dictorder", (i8b, i8a), None, ("a", "b")),
        ("dict", (i8a, i8b), ((0, 1, 2, 3), None, "i8")),
        ("dict", (i8a, i8b), ((1, 2, 3, 4), None, "i8")),
        ("dict", (i8a, i8b), ((0, 1, 2, 3), "a", "i8")),
        ("dict", (i8a, i8b), ((0.0, 1.0, 2.0, 3.0), None, "f8")),
        ("dict", (i8a, i8b), ((3, 2, 1, 0), None, "i8")),
        ("dict", (("a", "i8", (1, 2)), ("b", "i8", (3, 4))), None),
        ("nd", C4, (2, 2), "i8", ("a", "b"), None),
        ("dict", (("a", "i8", (1, 3)), ("b", "i8", (2, 4))), None),
        ("dict", (("a", "i8", (1, 2)), ("f", "f8", (1.5, 2.5)), ("b", "i8", (3, 4))), None),
        ("dict", (("a", "i8", (1, 2)), ("f", "i8", (3, 4)), ("b", "f8", (1.5, 2.5))), None),
        ("dict", (("a", "object", ("x-y", "z")), ("b", "i8", (3, 4))), None),
        ("dict", (("a", "object", ("x", "y-z")), ("b", "i8", (3, 4))), None),
    ]
    for fd in frames:
        add("df-fp", ("df", fd, 1, True))
    for fd in frames[:5] + frames[10:11]:
        add("df-fp", ("df", fd, 2, True))
    add("df-fp", ("df", frames[10], 1, False))
    add("df-fp", ("df", frames[0], 2, False))
    for fd in (frames[0], frames[1], frames[4]) if T else (frames[0], frames[4]):
        for op in ("a", "a+1", "sum", "gt", "assign_i", "assign_f", "index"):
            add("df-op", ("dfop", op, ("df", fd, 2, True)))

    # ---- long linear pipelines of identical steps over different inputs (2 steps = short control, 9 = over-long fused names)
    for n in (2, 9):
        m = 3 if (n == 9 or T) else 1  # the short control chain on one input per kind in the quick tier
        for seq, part in (([1, 2, 3, 4, 5, 6], ("np", 2)), ([3, 2, 1, 4, 2, 2], ("np", 2)), ([1, 2, 3, 4, 5, 6], ("np", 1)))[:m]:
            add("bag-chain", ("chain", "bag", ("bag", seq, part), n))
        for leaf in (("d", "a"), ("d", "b"), 1)[:m]:
            add("dly-chain", ("chain", "dly", leaf, n))
        for base in (A, Ar, ("fa", NP(), (4,)))[:m]:
            add("arr-chain", ("chain", "arr", base, n))
    # ---- unseeded random collections (the self pair i == j is two independent builds = two different collections)
    for kind in ("random", "normal", "rs", "rng", "impure"):
        add("rnd", ("rand", kind))
    _UNIVERSE[tier] = U
    return U


# ====================================================================== cases
def interleave_members():
    """3 DISTINCT, differently valued members per collection kind (results in swapped positions are visible)"""
    fr = lambda vals: ("dict", (("a", "i8", vals),), None)  # noqa: E731
    return {
        "arr": [("arr-fa", ("fa", NP(), (2, 2))), ("arr-ew", ("ew", "add", ("fa", NP(), (2, 2)), ("v", 1))), ("arr-fa", ("fa", NP(cells=(4, 3, 2, 1)), (4,)))],
        "bag": [("bag-seq", ("bag", [1, 2, 3, 4], ("np", 2))), ("bag-op", ("bop", "inc", ("bag", [1, 2, 3, 4], ("np", 2)))), ("bag-seq", ("bag", [4, 3, 2, 1], ("np", 1)))],
        "dly": [("dly-call", ("call", True, "tup", (1, 2), ())), ("dly-op", ("dop", "add", ("d", "a"), ("d", "b"))), ("dly-call", ("call", True, "inc", (1.0,), ()))],
        "df": [("df-fp", ("df", fr((1, 2, 3, 4)), 2, True)), ("df-op", ("dfop", "a+1", ("df", fr((1, 2, 3, 4)), 2, True))), ("df-fp", ("df", fr((5, 6, 7, 8)), 1, True))],
        "item": [("bag-op", ("bop", "sum", ("bag", [1, 2, 3, 4], ("np", 2)))), ("bag-op", ("bop", "max", ("bag", [1, 2, 3, 4], ("np", 2)))), ("bag-op", ("bop", "count", ("bag", [4, 3, 2, 1], ("np", 1))))],
    }


def interleaved_cases(tier):
    """tuples whose collection KINDS interleave: (x_i, y, x_j), (x_i, y_a, x_j, y_b), (x, y, z, x') -- every ordered kind pair / triple,
    every ordered pair of distinct members of the repeated kind"""
    M = interleave_members()
    kinds = list(M)

    def case(*ms):
        return (len(ms), tuple(m[0] for m in ms)) + tuple(m[1] for m in ms)

    for k1 in kinds:
        for k2 in kinds:
            if k1 == k2:
                continue
            for xi, xj in itertools.permutations(M[k1], 2):
                for y in M[k2]:
                    yield case(xi, y, xj)
            for xi, xj in itertools.permutations(M[k1], 2):
                for ya, yb in itertools.permutations(M[k2][:2] if tier == "quick" else M[k2], 2):
                    yield case(xi, ya, xj, yb)
            for k3 in kinds:
                if k3 not in (k1, k2):
                    yield case(M[k1][0], M[k2][0], M[k3][0], M[k1][1])
                    yield case(M[k1][0], M[k2][0], M[k1][1], M[k3][0])


def all_cases(tier):
    """(n, fams, descriptor_1 .. descriptor_n)  -- simplest first"""
    U = universe(tier)
    n = len(U)
    yield from interleaved_cases(tier)
    if tier == "quick":
        for i in range(n):
            for j in range(i, n):
                yield (2, (U[i][0], U[j][0]), U[i][1], U[j][1])
    else:
        for i in range(n):
            for j in range(n):
                yield (2, (U[i][0], U[j][0]), U[i][1], U[j][1])
        by_group = {}
        for fam, d in U:
            by_group.setdefault(group_of(fam), []).append((fam, d))
        for g, items in sorted(by_group.items()):
            # triples: every unordered triple of a thinned group (every 2nd member; the pair sweep above covers all members)
            items = items[:: max(1, len(items) // 36)]
            for x, y, z in itertools.combinations(items, 3):
                yield (3, (x[0], y[0], z[0]), x[1], y[1], z[1])


def shards(tier):
    return [(i, NSHARDS if tier == "quick" else 4 * NSHARDS) for i in range(NSHARDS if tier == "quick" else 4 * NSHARDS)]


def cases_of(shard, tier):
    i, k = shard
    for idx, case in enumerate(all_cases(tier)):
        if idx % k == i:
            yield case


# ====================================================================== finding classes (narrow input classes of known defects)
def _walk(d):
    """all nested tuples / lists of a descriptor (pre-order)"""
    if isinstance(d, (tuple, list)):
        yield d
        for x in d:
            yield from _walk(x)


def _has_delayed(e):
    return any(isinstance(t, tuple) and len(t) >= 2 and t[0] in ("d", "dl") for t in _walk(e))


def _subvalues(d):
    """near-identity carriers of a descriptor: object-string arrays, numeric ndarrays, containers holding Delayed, bag strings, leaf names"""
    objs, nps, nests, bagstrs, names = set(), set(), set(), set(), set()
    for t in _walk(d):
        if not isinstance(t, tuple) or not t:
            continue
        if t[0] == "obj" and len(t) == 2:
            objs.add(t[1])
        elif len(t) == 3 and t[1] == "object" and isinstance(t[2], tuple):  # object column of a frame
            objs.add(t[2])
        elif t[0] == "np" and len(t) == 5:
            nps.add(t)
        elif t[0] in ("L", "T", "S", "D") and len(t) == 2 and _has_delayed(t):
            nests.add(t)
        elif t[0] == "s" and len(t) == 4 and _has_delayed(t):
            nests.add(t)
        elif t[0] == "d" and len(t) == 2:
            names.add(t[1])
        elif t[0] == "bag":
            bagstrs.update(x for x in _walk_leaves(t[1]) if isinstance(x, str))
    return objs, nps, nests, bagstrs, names


def _walk_leaves(x):
    if isinstance(x, (list, tuple)):
        for y in x:
            yield from _walk_leaves(y)
    else:
        yield x


def _dash_join_collide(u, v):
    """two different sequences of str (or of bytes) with the same '-'.join"""
    if u == v:
        return False
    for typ, sep in ((str, "-"), (bytes, b"-")):
        if all(isinstance(x, typ) for x in u) and all(isinstance(x, typ) for x in v):
            return sep.join(u) == sep.join(v)
    return False


def _same_memory_other_value(u, v):
    """two ndarrays of equal dtype and shape whose buffers hold the same bytes in memory order but whose values differ"""
    if u == v:
        return False
    x, y = np_value(*u[1:]), np_value(*v[1:])
    if x.dtype != y.dtype or x.shape != y.shape or np.array_equal(x, y):
        return False
    return x.ravel(order="K").tobytes() == y.ravel(order="K").tobytes()


def _flat_items(e):
    if e[0] == "s":
        return list(e[1:])
    if e[0] == "D":
        return [x for kv in e[1] for x in kv]
    return list(e[1])


def _same_items_other_arrangement(u, v):
    """two containers of one kind that hold Delayed objects and the same multiset of (flattened) items, arranged differently"""
    if u == v or u[0] != v[0]:
        return False
    return sorted(map(repr, _flat_items(u))) == sorted(map(repr, _flat_items(v)))


def relations(di, dj):
    """names of the known collision classes between the near-identity carriers of two member descriptors (di may be dj)"""
    oi, ni, ci, bi, mi = _subvalues(di)
    oj, nj, cj, bj, mj = _subvalues(dj)
    out = set()
    if any(_dash_join_collide(u, v) for u in oi for v in oj):
        out.add("objarr-dash-join")
    if any(_same_memory_other_value(u, v) for u in ni for v in nj):
        out.add("ndarray-same-memory")
    if any(_same_items_other_arrangement(u, v) for u in ci for v in cj):
        out.add("delayed-container-arrangement")
    if bi & mj:
        out.add("bag-string-equals-key")
    return out


def known_class(descs, i, mode):
    """-> suffix naming the narrow input class(es) that relate failing member i to the case, or '' (= unexplained)"""
    cls = set()
    for j in range(len(descs)):
        if mode == "alone" and j != i:
            continue
        cls |= relations(descs[i], descs[j])
        if j != i:
            cls |= {c for c in relations(descs[j], descs[i]) if c != "bag-string-equals-key"}
    if mode != "noopt-only":
        cls.discard("bag-string-equals-key")  # legacy list-of-keys substitution only happens on the unoptimized merged graph
    return ":" + "+".join(sorted(cls)) if cls else ""


def prefixes(coll):
    try:
        return {key_split(k) for k in coll.__dask_graph__()}
    except Exception:  # noqa: BLE001
        return set()


# ====================================================================== one case
_CACHE = {}


def _alone(d, coll):
    """(status, value) of coll.compute(); cached per descriptor for deterministic descriptors"""
    key = repr(d)
    if d[0] != "rand" and key in _CACHE:
        return _CACHE[key]
    try:
        r = ("ok", coll.compute())
    except Hang:
        raise
    except Exception as e:  # noqa: BLE001
        r = ("exc", e)
    if d[0] != "rand":
        _CACHE[key] = r
    return r


_ECACHE = {}


def _eager(d):
    key = repr(d)
    if key in _ECACHE:
        return _ECACHE[key]
    try:
        r = ("ok", eager(d))
    except Hang:
        raise
    except Exception as e:  # noqa: BLE001
        r = ("exc", e)
    _ECACHE[key] = r
    return r


def run_case(case, ctx):
    n, fams, descs = case[0], case[1], case[2:]
    # unexplained failures: pairs are keyed by the two families, longer tuples by the collection groups (one defect -> few keys)
    famkey = "+".join(sorted(set(fams))) if n <= 2 else "tuple:" + "+".join(sorted({group_of(f) for f in fams}))
    with warnings.catch_warnings():
        warnings.simplefilter("ignore")
        colls = [build(d) for d in descs]
        pre = [prefixes(c) for c in colls]
        shared = any(pre[i] & pre[j] for i in range(n) for j in range(i + 1, n))
        alone = [_alone(d, c) for d, c in zip(descs, colls)]
        refs = [_eager(d) for d in descs]
        together = {}
        for og in (True, False):
            try:
                together[og] = ("ok", dask.compute(*colls, optimize_graph=og))
            except Hang:
                raise
            except Exception as e:  # noqa: BLE001
                together[og] = ("exc", e)
    bad = False
    usable = []
    for i in range(n):
        if refs[i][0] == "exc":  # the reference itself refuses the program -> nothing is promised for that member
            ctx.count("inapplicable")
            usable.append(False)
            continue
        usable.append(True)
        if alone[i][0] == "exc":
            bad = True
            usable[i] = False
            ctx.violation(
                f"{fams[i]}:alone-raises:{type(alone[i][1]).__name__}{known_class(descs, i, 'alone')}",
                case,
                f"member {i} {descs[i]!r}: .compute() raised {alone[i][1]!r}",
            )
            continue
        if refs[i][1] is not NOREF:
            why = same(alone[i][1], refs[i][1])
            if why:
                bad = True
                sub = known_class(descs, i, "alone")
                key = f"alone-differs-from-eager{sub}" if sub else f"{fams[i]}:alone-differs-from-eager"
                ctx.violation(key, case, f"member {i} {descs[i]!r}: computed alone vs eager reference: {why}")
    for og, (st, val) in together.items():
        if st == "exc":
            if all(usable):
                bad = True
                ctx.violation(
                    f"{famkey}:together{'' if og else '-noopt'}-raises:{type(val).__name__}",
                    case,
                    f"dask.compute(*members, optimize_graph={og}) raised {val!r}",
                )
        elif not isinstance(val, tuple) or len(val) != n:
            bad = True
            ctx.violation(f"{famkey}:together-bad-structure", case, f"optimize_graph={og} returned {val!r}")
            together[og] = ("exc", None)
    for i in range(n):
        if not usable[i]:
            continue
        why = {og: same(together[og][1][i], alone[i][1]) for og in (True, False) if together[og][0] == "ok"}
        failing = [og for og, w in why.items() if w]
        if not failing:
            continue
        bad = True
        mode = "both" if len(failing) == 2 else ("opt-only" if failing[0] else "noopt-only")
        failure = {"both": "together-differs-from-alone", "opt-only": "together-opt-only-differs-from-alone", "noopt-only": "together-noopt-only-differs-from-alone"}[mode]
        sub = known_class(descs, i, mode)
        key = f"{failure}{sub}" if sub else f"{famkey}:{failure}"
        ctx.violation(key, case, f"member {i} of dask.compute{descs!r} (optimize_graph in {failing}): together vs alone: {why[failing[0]]}")
    ctx.case(case, nontrivial=shared, outcome=(fams, shared, bad))


def run_shard(shard, ctx):
    for case in cases_of(shard, ctx.tier):
        if ctx.out_of_time():
            return
        ctx.guard(case, run_case, case, ctx)


def replay(case, ctx):
    run_case(case, ctx)
