"""C11 -- equal task nodes compute equal values (DESIGN 5/C11).  E4: all pairs over a constructed universe."""
from __future__ import annotations

import itertools

from mc.run import Hang

ID = "C11"
LEVEL = "exploration"
WATCHDOG_S = 120.0
DEPTH = {"quick": 2, "thorough": 2}
NREP = {"quick": 28, "thorough": 70}
ASSUMPTIONS = [
    "GraphNode.__eq__ is token based, so grouping the universe by (type, token) finds every equal pair; every pair inside a group is "
    "evaluated on every assignment of the references {a, b} to values (10,20), (20,10), (10,10)",
    "unequal nodes may well compute equal values (Dict insertion order, DataNode vs literal): the property is one-directional",
]


def f(*args, **kw):
    return ("f", args, tuple(sorted(kw.items())))


def g(*args, **kw):
    return ("g", args, tuple(sorted(kw.items())))


def RULE(tier):
    return (
        "universe U = every node built from Task(f|g, args, kwargs x in {none,1,2}), List, Tuple, Set, Dict (keys p,q in both pairings), "
        "Alias, DataNode over atoms {TaskRef a, TaskRef b, 1, 2, 'a'} with 0-2 arguments (ALL argument tuples, hence all permutations), "
        f"nested to depth 2 (second level: every ordered pair drawn from the atoms and {NREP[tier]} representative depth-1 nodes). "
        "All pairs are decided by grouping on (type, tokenize); for every pair with equal token / == the two nodes are called on each "
        "assignment of {a,b}; additionally every node is re-pointed with substitute({a:b} | {b:a} | swap) AFTER its hash/token was observed and, if still equal to the original, evaluated against it. non-trivial = a node that shares its token with at least one other node in U."
    )


def shards(tier):
    return [("group", i, 8) for i in range(8)]


def universe(tier):
    from dask._task_spec import Alias, DataNode, Dict, List, Set, Task, TaskRef, Tuple

    atoms = [("ref", "a"), ("ref", "b"), ("lit", 1), ("lit", 2), ("lit", "a")]

    def mk_atom(a):
        return TaskRef(a[1]) if a[0] == "ref" else a[1]

    descs = []  # literal descriptions

    def arg_tuples(pool):
        yield ()
        for x in pool:
            yield (x,)
        for x in pool:
            for y in pool:
                yield (x, y)

    def level(pool, top):
        out = []
        for args in arg_tuples(pool):
            for fn in "fg":
                for kw in (None, 1, 2):
                    out.append(("Task", fn, args, kw))
            for c in ("List", "Tuple", "Set"):
                out.append((c, args))
        for k1, k2 in (("p", "q"), ("q", "p")):
            for x in pool:
                out.append(("Dict", ((k1, x),)))
                for y in pool:
                    out.append(("Dict", ((k1, x), (k2, y))))
        if top:
            for t in "ab":
                out.append(("Alias", t))
            for v in (1, 2, "a", (1, 2)):
                out.append(("Data", v))
        return out

    d1 = level(atoms, True)
    reps = [d for i, d in enumerate(d1) if d[0] not in ("Alias", "Data")]
    step = max(1, len(reps) // NREP[tier])
    reps = reps[::step][: NREP[tier]]
    # make sure the permutation-sensitive shapes are among the representatives
    must = [("List", (atoms[0], atoms[1])), ("List", (atoms[1], atoms[0])), ("Tuple", (atoms[0], atoms[2])), ("Tuple", (atoms[2], atoms[0])),
            ("Set", (atoms[0], atoms[1])), ("Set", (atoms[1], atoms[0])), ("Dict", (("p", atoms[0]), ("q", atoms[1]))), ("Dict", (("p", atoms[1]), ("q", atoms[0]))),
            ("Task", "f", (atoms[0], atoms[1]), None), ("Task", "f", (atoms[1], atoms[0]), None)]
    for m in must:
        if m not in reps:
            reps.append(m)
    d2 = level(atoms + reps, False)
    descs = d1 + [d for d in d2 if d not in set(d1)]

    def build(d, key="k"):
        def arg(a):
            if a[0] in ("ref", "lit"):
                return mk_atom(a)
            return build(a, None)

        kind = d[0]
        if kind == "Task":
            kw = {} if d[3] is None else {"x": d[3]}
            return Task(key, f if d[1] == "f" else g, *[arg(a) for a in d[2]], **kw)
        if kind in ("List", "Tuple", "Set"):
            cls = {"List": List, "Tuple": Tuple, "Set": Set}[kind]
            return cls(*[arg(a) for a in d[1]])
        if kind == "Dict":
            return Dict({k: arg(v) for k, v in d[1]})
        if kind == "Alias":
            return Alias("k", d[1])
        if kind == "Data":
            return DataNode("k", d[1])
        raise ValueError(d)

    return descs, build


ASSIGN = [{"a": 10, "b": 20}, {"a": 20, "b": 10}, {"a": 10, "b": 10}]


def evaluate(node):
    out = []
    for v in ASSIGN:
        try:
            r = node(v)
            out.append(("ok", r))
        except Hang:
            raise
        except Exception as e:  # noqa: BLE001
            out.append(("exc", type(e).__name__))
    return out


def same(a, b):
    if type(a) is not type(b):
        return False
    if isinstance(a, (list, tuple)):
        return len(a) == len(b) and all(same(x, y) for x, y in zip(a, b))
    if isinstance(a, dict):
        return a.keys() == b.keys() and all(same(a[k], b[k]) for k in a)
    return a == b


def pair_class(d1, d2):
    """narrow class of a violating pair: outermost differing constructor"""
    return f"{d1[0]}"


def run_shard(shard, ctx):
    from dask.tokenize import tokenize

    _, part, nparts = shard
    descs, build = universe(ctx.tier)
    groups = {}
    for d in descs:
        n = build(d)
        try:
            tok = (type(n).__name__, tokenize(n))
        except Hang:
            raise
        except Exception as e:  # noqa: BLE001
            ctx.violation(f"tokenize-raises:{type(e).__name__}", d, repr(e)[:200])
            continue
        groups.setdefault(tok, []).append(d)
    for di, d in enumerate(descs):
        if di % nparts == part and d[0] in ("Task", "List", "Tuple", "Set", "Dict"):
            check_substitute(d, build, ctx)
    for gi, (tok, ds) in enumerate(sorted(groups.items(), key=lambda kv: repr(kv[1][0]))):
        if gi % nparts != part:
            continue
        if len(ds) == 1:
            ctx.case(ds[0], nontrivial=False)
            continue
        nodes = [build(d) for d in ds]
        vals = [evaluate(n) for n in nodes]
        for i in range(len(ds)):
            ctx.case(ds[i], nontrivial=True, outcome=len(ds))
            for j in range(i + 1, len(ds)):
                ctx.count("equal_pairs_checked")
                eq = nodes[i] == nodes[j]
                if not eq:
                    ctx.count("same_token_but_not_eq")
                for a, (x, y) in enumerate(zip(vals[i], vals[j])):
                    if x[0] != y[0] or (x[0] == "ok" and not same(x[1], y[1])):
                        ctx.violation(f"equal-nodes-different-values:{pair_class(ds[i], ds[j])}", (ds[i], ds[j]), f"token-equal (==: {eq}) but on {ASSIGN[a]} -> {x!r} vs {y!r}")
                        break


def check_substitute(d, build, ctx):
    """history: observe the node's identity (hash / token), re-point its references with substitute(), compare with the original"""
    from dask.tokenize import tokenize

    for m in ({"a": "b"}, {"b": "a"}, {"a": "b", "b": "a"}):
        n = build(d)
        deps = set(getattr(n, "dependencies", ()))
        if not (deps & set(m)):
            continue
        try:
            hash(n)
        except TypeError:
            pass
        tok = tokenize(n)
        n2 = n.substitute(dict(m))
        case = ("subst", d, tuple(sorted(m.items())))
        ctx.case(case, nontrivial=True)
        same_id = (n2 == n) or tokenize(n2) == tok
        if not same_id:
            continue
        v1, v2 = evaluate(n), evaluate(n2)
        for a, (x, y) in enumerate(zip(v1, v2)):
            if x[0] != y[0] or (x[0] == "ok" and not same(x[1], y[1])):
                ctx.violation(f"substituted-node-equal-to-original:{d[0]}", case, f"after substitute({m}) the node still equals / shares the token of the original but on {ASSIGN[a]} -> {x!r} vs {y!r}")
                break


def replay(case, ctx):
    from dask.tokenize import tokenize

    if case and case[0] == "subst":
        _, build = universe("quick")
        check_substitute(case[1], build, ctx)
        return

    _, build = universe("quick")
    d1, d2 = case
    n1, n2 = build(d1), build(d2)
    if tokenize(n1) == tokenize(n2) or n1 == n2:
        for a, (x, y) in enumerate(zip(evaluate(n1), evaluate(n2))):
            if x[0] != y[0] or (x[0] == "ok" and not same(x[1], y[1])):
                ctx.violation(f"equal-nodes-different-values:{pair_class(d1, d2)}", case, f"on {ASSIGN[a]} -> {x!r} vs {y!r}")
                return
