"""C27 -- counting, set, search and histogram routines equal NumPy for any chunking (DESIGN 5/C27).
E4: exhaustive small scope -- every array over a tiny value alphabet (duplicates, NaN) x EVERY chunking
(including chunkings with empty chunks) x every parameter combination of each routine, against NumPy."""
from __future__ import annotations

import itertools
import warnings

import numpy as np

from mc import arr, enums
from mc.run import Hang

ID = "C27"
LEVEL = "exploration"
WATCHDOG_S = 30.0
NMAX = {"quick": 4, "thorough": 5}
ASSUMPTIONS = [
    "sync scheduler; reference = NumPy on the concatenated data; NaN == NaN when comparing results",
    "a case where NumPy itself raises is 'inapplicable'; NotImplementedError and the documented chunk-structure ValueErrors are refusals",
    "float tolerance (rtol 1e-9) only for histogram density and mean-coarsening; all weights are multiples of 0.5 so weighted sums are exact",
    "isin(assume_unique=True) only on inputs that are unique (NumPy documents the result as undefined otherwise)",
]

NAN = None  # NaN is written as None inside case literals (repr(nan) is not a literal)


def RULE(tier):
    n = NMAX[tier]
    q = tier == "quick"
    return (
        f"every 1-d array of length 0..{n} over {{0,1,2,NaN}} (floats) resp. {{0,1,2}} (ints) x EVERY chunking, plus every <=3-part chunking "
        f"with empty chunks for lengths <= {'2-3' if q else '3-5'}"
        + (f" (quick: at length {n} a 3-letter alphabet and a reduced parameter grid, full grids below)" if q else "")
        + " x: unique (all 8 flag combinations; 2-d inputs); bincount (weights none/float/int, minlength 0/2/4, split_every None/2); histogram "
        "(11 bin specs: int bins+range incl. a degenerate range, edge arrays as list/ndarray/dask array; weights none/float/int; density "
        "None/False/True); histogram2d (paired x,y incl. NaN; int/tuple bins+range, edge arrays, weights, density); digitize (monotone bins "
        "of length <= 3 over {0,1,2}, increasing and decreasing, right); searchsorted (every sorted a incl. trailing NaNs x every chunking, "
        "1-d probe vector in 3 chunkings and a 2-d probe, both sides); isin (test sets of size <= 2 over {0,2,NaN} x their chunkings, invert, "
        "assume_unique on unique inputs); nonzero/argwhere/flatnonzero/count_nonzero (1-d and (2,2),(2,3) over {0,1,NaN}, every axis); "
        "unravel_index/ravel_multi_index (every index vector of length <= 3(2), orders C/F, modes raise/wrap/clip, stacked and tuple input); "
        "coarsen (sum/max/mean, every divisor <= 4, trim_excess, 1-d n<=6 and three 2-d shapes x every chunking); compress (every condition "
        "of length <= n+1 as list/ndarray/dask array, every axis, 1-d and 2-d). Oracle: value, dtype, lazy shape/chunks and per-block shapes "
        "equal NumPy's result. non-trivial = >= 2 chunks on the main input."
    )


# ---------------------------------------------------------------------------------------------- alphabets
def fl(t):
    return np.array([np.nan if v is None else v for v in t], dtype="f8")


def it(t):
    return np.array(list(t), dtype="i8")


def arrays(alpha, n):
    return itertools.product(alpha, repeat=n)


def chunkings1(n, zeros=False, len1=False):
    """every composition of n; with zeros=True additionally every <=3-part chunking containing an empty chunk.
    For n <= 1 those are produced only with len1=True (kinds unique_i/bincount/ss/nz): every routine fails on them for one
    and the same recorded reason (finding len<=1-multichunk), so the other kinds do not spend their budget there."""
    out = list(enums.compositions(n)) if n else [(0,)]
    if zeros and (n >= 2 or len1):
        seen = set(out)
        for c in enums.compositions_with_zeros(n, 3):
            if 0 in c and c not in seen and len(c) > 1:
                seen.add(c)
                out.append(c)
    return out


F4 = (0, 1, 2, NAN)
I3 = (0, 1, 2)

HIST_BINS = [
    ("n", 1, 0, 2),
    ("n", 2, 0, 2),
    ("n", 3, 0.5, 2.5),
    ("n", 2, 1, 1),
    ("e", (0, 1, 2)),
    ("e", (0.5, 1.5)),
    ("e", (0, 1, 1, 3)),
    ("a", (0, 2)),
    ("a", (-1.0, 0.5, 1.0, 2.0)),
    ("d", (0, 1, 2)),
    ("d", (0.0, 0.5, 2.5)),
]
H2_BINS = [
    ("n", 2, (0, 2), (0, 2)),
    ("n", (1, 2), (0, 2), (0.5, 2.5)),
    ("e", (0, 1, 2), (0, 1, 2)),
    ("e", (0, 2), (0.5, 1.5, 2.5)),
]


def mono_bins():
    out = []
    for L in (1, 2, 3):
        for b in itertools.combinations_with_replacement(I3, L):
            out.append(b)
            if tuple(reversed(b)) != b:
                out.append(tuple(reversed(b)))
    return out


def sorted_arrays(n):
    """all non-decreasing sequences over {0,1,2} followed by k trailing NaNs"""
    for k in range(0, n + 1):
        for t in itertools.combinations_with_replacement(I3, n - k):
            yield tuple(t) + (NAN,) * k


SS_V = (-1, 0, 0.5, 1, 2, 3, NAN)
SS_VCH = [("1", (7,)), ("1", (3, 4)), ("1", (1,) * 7), ("2", ((2,), (2, 1)))]  # 2-d probes: first 6 values reshaped (2,3)

SHAPES2 = [(2, 2), (2, 3)]


# ---------------------------------------------------------------------------------------------- shards / cases
KINDS = [  # (kind, number of quick shards ~ one per 5 CPU-seconds)
    ("unique_f", 8),
    ("unique_i", 3),
    ("unique2", 1),
    ("bincount", 4),
    ("hist", 10),
    ("hist2", 4),
    ("digitize", 4),
    ("ss", 6),
    ("isin", 6),
    ("nz", 6),
    ("unravel", 3),
    ("ravelmi", 1),
    ("coarsen", 1),
    ("compress", 2),
]

DIG_BINS = [(1,), (0, 2), (0, 1, 2), (1, 1), (0, 1, 1), (2, 0), (2, 1, 0), (2, 2, 0), (0, 0, 2), (2, 1)]
ISIN_TESTS = [(), (0,), (2,), (NAN,), (0, 2), (2, 0), (0, NAN), (NAN, 0), (2, 2), (NAN, NAN), (2, NAN)]


def shards(tier):
    mult = 1 if tier == "quick" else 5
    return [(k, p, n * mult) for k, n in KINDS for p in range(n * mult)]


def gen(kind, tier):
    """quick: full alphabets up to n=3, reduced alphabets/parameter grids at n=4; thorough: full grids up to n=5"""
    n_max = NMAX[tier]
    T = tier == "thorough"
    Q = not T
    if kind in ("unique_f", "unique_i"):
        alpha, dt = (F4, "f") if kind == "unique_f" else (I3, "i")
        for n in range(0, n_max + 1):
            top = Q and n == n_max
            al = ((0, 1, NAN) if dt == "f" else alpha) if (top or n == 5) else alpha
            for xs in arrays(al, n):
                for ch in chunkings1(n, zeros=(n <= 2 or (T and n <= 4)), len1=(dt == "i")):
                    for flags in ((0, 1, 2, 4, 7) if dt == "f" else (0, 7)) if top else range(8):
                        yield ("unique", dt, xs, ch, flags)
    elif kind == "unique2":
        for shp in [(2, 2)] + ([(2, 3)] if T else []):
            for xs in arrays((0, 1, NAN) if (Q or shp == (2, 3)) else F4, shp[0] * shp[1]):
                for ch in enums.chunkings(shp):
                    for flags in (0, 2, 7) if Q else (0, 1, 2, 4, 7):
                        yield ("unique2", shp, xs, ch, flags)
    elif kind == "bincount":
        for n in range(0, n_max + 1):
            top = Q and n == n_max
            for xs in arrays(I3, n):
                for ch in chunkings1(n, zeros=(n <= 3 or T), len1=True):
                    # n == 0 with weights is excluded a priori: NumPy ignores the weights of an empty input and returns intp zeros
                    # (an artefact of its empty-input shortcut); there is no float result to agree with
                    for wk in (None,) if n == 0 else (None, "f") if top else (None, "f", "i"):
                        for ml in (0, 2) if top else (0, 2, 4):
                            for se in (None, 2) if len(ch) >= 3 else (None,):
                                yield ("bincount", xs, ch, wk, ml, se)
    elif kind == "hist":
        main = (1, 4, 9)
        for n in range(0, n_max + 1):
            top = Q and n == n_max
            for xs in arrays((1, 2, NAN) if (top or n == 5) else F4, n):
                for ch in chunkings1(n, zeros=(n <= 2 or (T and n <= 3))):
                    for bi, b in enumerate(HIST_BINS):
                        if bi in main:
                            grid = [(None, None), ("f", True)] if top else [(None, None), ("f", None), (None, True), ("f", True), ("i", False)]
                        elif top:
                            continue
                        else:
                            grid = [(None, None), ("f", True)] if T else [((None, None), ("f", True), ("f", None), (None, True))[bi % 4]]
                        for wk, dens in grid:
                            yield ("hist", xs, ch, b, wk, dens)
    elif kind == "hist2":
        P = ((0, 1), (1, 1), (1, 2), (2, 2), (NAN, 1)) if Q else tuple(itertools.product((0, 1, 2), (1, 2))) + ((NAN, 1),)
        for n in range(0, 4 if Q else 5):
            for pts in arrays(P if n <= 3 else P[:5], n):
                xs = tuple(p[0] for p in pts)
                ys = tuple(p[1] for p in pts)
                for ch in chunkings1(n, zeros=(n <= 2)):
                    for bi, b in enumerate(H2_BINS):
                        for wk, dens in [(None, None), ("f", True)] if bi % 2 else [(None, None), ("f", None), (None, True)]:
                            yield ("hist2", xs, ys, ch, b, wk, dens)
    elif kind == "digitize":
        for n in range(0, n_max + 1):
            top = Q and n == n_max
            for xs in arrays((0, 2, NAN) if (top or n == 5) else F4, n):
                for ch in chunkings1(n, zeros=(n <= 2)):
                    for b in (DIG_BINS[1:7] if top else (mono_bins() if T else DIG_BINS)):
                        for right in (False, True):
                            yield ("digitize", xs, ch, b, right)
    elif kind == "ss":
        for n in range(0, n_max + 1 + (1 if T else 0)):
            for a in sorted_arrays(n):
                for ch in chunkings1(n, zeros=(n <= 2 or (T and n <= 4)), len1=True):
                    for vk in SS_VCH:
                        for side in ("left", "right"):
                            yield ("ss", a, ch, vk, side)
    elif kind == "isin":
        for n in range(0, n_max + 1):
            top = Q and n == n_max
            for xs in arrays((0, 2, NAN) if (top or n == 5) else F4, n):
                for ch in chunkings1(n, zeros=(n <= 1 or (T and n <= 3))):
                    for t in ISIN_TESTS if Q else [()] + [t for L in (1, 2) for t in itertools.product((0, 2, NAN), repeat=L)]:
                        if top and t not in ((0,), (NAN,), (0, 2), (2, NAN)):
                            continue
                        if Q and n == n_max - 1 and t in ((2,), (2, 0), (NAN, 0), (2, 2)):
                            continue  # sized: mirror images of test sets that are kept
                        for tch in chunkings1(len(t)):
                            for inv in (False, True) if (len(tch) == 1 and not top) or T else (False,):
                                au_ok = len(set(xs)) == len(xs) and len(set(t)) == len(t)
                                for au in (False, True) if au_ok else (False,):
                                    yield ("isin", xs, ch, t, tch, inv, au)
    elif kind == "nz":
        A = (0, 1, NAN)
        for n in range(0, n_max + 1):
            for xs in arrays(A, n):
                for ch in chunkings1(n, zeros=(n <= 3 or T), len1=True):
                    for fn in ("nonzero", "argwhere", "flatnonzero", "count_nonzero"):
                        yield ("nz", fn, (n,), xs, (ch,), None)
        for shp in SHAPES2 + ([(3, 2)] if T else []):
            big = shp != (2, 2)
            for xs in arrays((0, 1) if big else A, shp[0] * shp[1]):
                for ch in enums.chunkings(shp):
                    for fn in ("nonzero", "argwhere") + (() if (big and Q) else ("flatnonzero",)):
                        yield ("nz", fn, shp, xs, ch, None)
                    for ax in (None, 1) if (big and Q) else (None, 0, 1, (0, 1)):
                        yield ("nz", "count_nonzero", shp, xs, ch, ax)
    elif kind == "unravel":
        for shape in [(2, 3), (3, 2), (6,), (2, 1, 3), ()]:
            size = int(np.prod(shape)) if shape else 1
            for L in range(0, 4 if Q else 5):
                for idx in itertools.product(range(size), repeat=L):
                    if L >= 3 and len(set(idx)) < (2 if L == 3 and T else L):
                        continue  # sized: longest vectors only with distinct entries
                    for ch in chunkings1(L, zeros=(L <= 2)):
                        for order in ("C", "F"):
                            yield ("unravel", idx, ch, shape, order)
    elif kind == "ravelmi":
        for dims in [(2, 3), (3, 2), (2, 1, 2)]:
            for mode in ("raise", "wrap", "clip"):
                rng = [range(d) if mode == "raise" else range(-1, d + 1) for d in dims]
                pts = list(itertools.product(*rng))
                for L in (0, 1, 2) + ((3,) if T and mode == "raise" else ()):
                    if Q and L == 2 and mode != "raise" and dims != (2, 3):
                        continue
                    for ps in itertools.product(pts, repeat=L):
                        for ch in chunkings1(L, zeros=(L <= 1)):
                            for order in ("C", "F"):
                                for kindmi in ("stack", "tuple"):
                                    if Q and L == 2 and kindmi == "tuple" and mode != "raise":
                                        continue
                                    yield ("ravelmi", tuple(ps), ch, dims, mode, order, kindmi)
    elif kind == "coarsen":
        for red in ("sum", "max", "mean"):
            for n in range(1, 7 if Q else 9):
                for ch in chunkings1(n, zeros=(n <= 3)):
                    for div in range(1, min(n + 1, 4) + 1):
                        for trim in (False, True):
                            if not trim and n % div:
                                continue
                            yield ("coarsen", red, (n,), (ch,), ((0, div),), trim)
        for red in ("sum", "max"):
            for shp in [(2, 4), (4, 3), (3, 4)] + ([(4, 4), (5, 3)] if T else []):
                for ch in enums.chunkings(shp):
                    for axes in [((0, 2),), ((1, 2),), ((0, 2), (1, 2)), ((1, 3),), ((0, 3), (1, 2))]:
                        for trim in (False, True):
                            if not trim and any(shp[a] % d for a, d in axes):
                                continue
                            yield ("coarsen", red, shp, ch, axes, trim)
    elif kind == "compress":
        for n in range(0, n_max + 1):
            for ch in chunkings1(n, zeros=(n <= 3 or T)):
                for L in range(0, n + 2):
                    for cond in enums.masks(L):
                        if L > n and (cond[-1] or (n > 2 and not T)):
                            continue  # cond[-1] True: NumPy itself raises (condition selects beyond the axis); n > 2: sized
                        for ck in ("list", "nd", "da"):
                            yield ("compress", (n,), (ch,), tuple(cond), ck, 0)
                        yield ("compress", (n,), (ch,), tuple(cond), "nd", None)
        for shp in SHAPES2 + [(3, 2)]:
            for ch in enums.chunkings(shp):
                for ax in (0, 1, None):
                    m = shp[ax] if ax is not None else shp[0] * shp[1]
                    for L in range(0, m + 1):
                        for cond in enums.masks(L):
                            for ck in ("nd", "da"):
                                if ax is None and ck == "da" and Q:
                                    continue
                                yield ("compress", shp, ch, tuple(cond), ck, ax)
    else:
        raise ValueError(kind)


def cases_of(shard, tier):
    kind, part, nparts = shard
    for i, case in enumerate(gen(kind, tier)):
        if i % nparts == part:
            yield case


# ---------------------------------------------------------------------------------------------- evaluation
def weights_for(wk, n, seed):
    """distinct multiples of 0.5 (exact float sums) / distinct ints, seed-permuted"""
    if wk is None:
        return None
    p = arr.data((n,), seed)  # permutation of 1..n
    return (p * 0.5).astype("f8") if wk == "f" else p.astype("i8")


def as_list(r):
    return list(r) if isinstance(r, (tuple, list)) else [r]


class Refused(Exception):
    pass


def setup_case(case, ctx):
    """-> dict(op, f_np, f_da, nontrivial, names, rtol, refusal, klass)"""
    import dask.array as da

    kind = case[0]
    o = {"op": "unique" if kind == "unique2" else kind, "rtol": 0.0, "names": None, "refusal": None, "klass": None, "exact_dtype": True}
    if kind in ("unique", "unique2"):
        if kind == "unique":
            _, dt, xs, ch, flags = case
            x = fl(xs) if dt == "f" else it(xs)
            d = da.from_array(x, chunks=(ch,))
            o["nontrivial"] = len(ch) >= 2
        else:
            _, shp, xs, ch, flags = case
            x = fl(xs).reshape(shp)
            d = da.from_array(x, chunks=ch)
            o["nontrivial"] = any(len(c) >= 2 for c in ch)
        kw = dict(return_index=bool(flags & 1), return_inverse=bool(flags & 2), return_counts=bool(flags & 4))
        o["names"] = ["values"] + [nm for nm, b in (("index", flags & 1), ("inverse", flags & 2), ("counts", flags & 4)) if b]
        o["f_np"] = lambda: as_list(np.unique(x, **kw))
        o["f_da"] = lambda: as_list(da.unique(d, **kw))
        has_nan = any(v is None for v in xs)

        def klass(stage, name, got, want):
            # recorded finding: _unique_internal matches values with `ar == v`, which never matches NaN
            if not has_nan:
                return None
            if stage == "raises" and kw["return_index"]:
                return "nan-index"
            if stage == "value" and name == "counts" and got.shape == want.shape and np.array_equal(got[:-1], want[:-1]) and got[-1] == 0:
                return "nan-count-zero"
            if stage == "value" and name == "inverse" and got.shape == want.shape:
                m = np.isnan(x)
                if np.array_equal(got[~m], want[~m]) and (got[m] == 0).all():
                    return "nan-inverse-zero"
            return None

        o["klass"] = klass
    elif kind == "bincount":
        _, xs, ch, wk, ml, se = case
        x = it(xs)
        w = weights_for(wk, len(xs), ctx.seed)
        d = da.from_array(x, chunks=(ch,))
        dw = None if w is None else da.from_array(w, chunks=(ch,))
        o["nontrivial"] = len(ch) >= 2
        o["f_np"] = lambda: [np.bincount(x, weights=w, minlength=ml)]
        o["f_da"] = lambda: [da.bincount(d, weights=dw, minlength=ml, split_every=se)]
    elif kind == "hist":
        _, xs, ch, b, wk, dens = case
        x = fl(xs)
        w = weights_for(wk, len(xs), ctx.seed)
        d = da.from_array(x, chunks=(ch,))
        dw = None if w is None else da.from_array(w, chunks=(ch,))
        o["nontrivial"] = len(ch) >= 2
        if b[0] == "n":
            nb, rng_ = b[1], (b[2], b[3])
            npk = dict(bins=nb, range=rng_)
            dak = dict(bins=nb, range=rng_)
        else:
            e = np.array(b[1], dtype="f8" if any(isinstance(v, float) for v in b[1]) else "i8")
            npk = dict(bins=e)
            dak = dict(bins=list(b[1]) if b[0] == "e" else (e if b[0] == "a" else da.from_array(e, chunks=2)))
        o["names"] = ["hist", "edges"]
        o["rtol"] = 1e-9 if dens else 0.0
        o["f_np"] = lambda: list(np.histogram(x, weights=w, density=dens, **npk))
        o["f_da"] = lambda: list(da.histogram(d, weights=dw, density=dens, **dak))
    elif kind == "hist2":
        _, xs, ys, ch, b, wk, dens = case
        x, y = fl(xs), fl(ys)
        w = weights_for(wk, len(xs), ctx.seed)
        dx, dy = da.from_array(x, chunks=(ch,)), da.from_array(y, chunks=(ch,))
        dw = None if w is None else da.from_array(w, chunks=(ch,))
        o["nontrivial"] = len(ch) >= 2
        if b[0] == "n":
            kws = dict(bins=b[1] if isinstance(b[1], int) else list(b[1]), range=(b[2], b[3]))
        else:
            kws = dict(bins=[np.array(b[1], dtype="f8"), np.array(b[2], dtype="f8")])
        o["names"] = ["hist", "xedges", "yedges"]
        o["rtol"] = 1e-9 if dens else 0.0
        o["f_np"] = lambda: list(np.histogram2d(x, y, weights=w, density=dens, **kws))
        o["f_da"] = lambda: list(da.histogram2d(dx, dy, weights=dw, density=dens, **kws))
    elif kind == "digitize":
        _, xs, ch, b, right = case
        x = fl(xs)
        bins = np.array(b, dtype="i8")
        d = da.from_array(x, chunks=(ch,))
        o["nontrivial"] = len(ch) >= 2
        o["f_np"] = lambda: [np.digitize(x, bins, right=right)]
        o["f_da"] = lambda: [da.digitize(d, bins, right=right)]
    elif kind == "ss":
        _, a_, ch, (vd, vch), side = case
        a = fl(a_)
        if vd == "1":
            v = fl(SS_V)
            dv = da.from_array(v, chunks=(vch,))
        else:
            v = fl(SS_V[:6]).reshape(2, 3)
            dv = da.from_array(v, chunks=vch)
        d = da.from_array(a, chunks=(ch,))
        o["nontrivial"] = len(ch) >= 2
        o["f_np"] = lambda: [np.searchsorted(a, v, side=side)]
        o["f_da"] = lambda: [da.searchsorted(d, dv, side=side)]
    elif kind == "isin":
        _, xs, ch, t, tch, inv, au = case
        x, te = fl(xs), fl(t)
        d = da.from_array(x, chunks=(ch,))
        dt_ = da.from_array(te, chunks=(tch,))
        o["nontrivial"] = len(ch) >= 2 or len(tch) >= 2
        o["f_np"] = lambda: [np.isin(x, te, assume_unique=au, invert=inv)]
        o["f_da"] = lambda: [da.isin(d, dt_, assume_unique=au, invert=inv)]
    elif kind == "nz":
        _, fn, shp, xs, ch, ax = case
        x = fl(xs).reshape(shp)
        d = da.from_array(x, chunks=ch)
        o["op"] = fn
        o["nontrivial"] = any(len(c) >= 2 for c in ch)
        if fn == "count_nonzero":
            o["f_np"] = lambda: [np.asarray(np.count_nonzero(x, axis=ax))]
            o["f_da"] = lambda: [da.count_nonzero(d, axis=ax)]
        else:
            o["f_np"] = lambda: as_list(getattr(np, fn)(x))
            o["f_da"] = lambda: as_list(getattr(da, fn)(d))
    elif kind == "unravel":
        _, idx, ch, shape, order = case
        ix = np.array(idx, dtype="i8")
        d = da.from_array(ix, chunks=(ch,))
        o["nontrivial"] = len(ch) >= 2
        o["f_np"] = lambda: [np.asarray(a) for a in np.unravel_index(ix, shape, order=order)]
        o["f_da"] = lambda: list(da.unravel_index(d, shape, order=order))
    elif kind == "ravelmi":
        _, ps, ch, dims, mode, order, kindmi = case
        mi = np.array(ps, dtype="i8").reshape(len(ps), len(dims)).T  # (ndim, L)
        o["nontrivial"] = len(ch) >= 2
        o["f_np"] = lambda: [np.asarray(np.ravel_multi_index(tuple(mi), dims, mode=mode, order=order))]
        if kindmi == "stack":
            dmi = da.from_array(mi, chunks=((len(dims),), ch))
        else:
            dmi = tuple(da.from_array(r, chunks=(ch,)) for r in mi)
        o["f_da"] = lambda: [da.ravel_multi_index(dmi, dims, mode=mode, order=order)]
    elif kind == "coarsen":
        _, red, shp, ch, axes, trim = case
        x = arr.data(shp, ctx.seed)
        d = da.from_array(x, chunks=ch)
        axd = dict(axes)
        rf = getattr(np, red)
        o["op"] = "coarsen"
        o["nontrivial"] = any(len(c) >= 2 for c in ch)
        o["rtol"] = 1e-12 if red == "mean" else 0.0

        def ref():
            y = x[tuple(slice(0, (s // axd.get(i, 1)) * axd.get(i, 1)) for i, s in enumerate(shp))]
            newshape = []
            for i, s in enumerate(y.shape):
                newshape += [s // axd.get(i, 1), axd.get(i, 1)]
            return [rf(y.reshape(newshape), axis=tuple(range(1, 2 * len(shp), 2)))]

        o["f_np"] = ref
        o["f_da"] = lambda: [da.coarsen(rf, d, axd, trim_excess=trim)]
    elif kind == "compress":
        _, shp, ch, cond, ck, ax = case
        x = arr.data(shp, ctx.seed)
        d = da.from_array(x, chunks=ch)
        c = np.array(cond, dtype=bool)
        dc = list(cond) if ck == "list" else (c if ck == "nd" else da.from_array(c, chunks=max(1, (len(c) + 1) // 2)))
        o["nontrivial"] = any(len(cc) >= 2 for cc in ch)
        o["f_np"] = lambda: [np.compress(c, x, axis=ax)]
        o["f_da"] = lambda: [da.compress(dc, d, axis=ax)]
    else:
        raise ValueError(kind)
    return o


DOCUMENTED_REFUSALS = (
    "must match",  # bincount: chunks of x and weights must match
    "same chunked structure",
)

_CH_POS = {"unique": 3, "bincount": 2, "hist": 2, "hist2": 3, "digitize": 2, "ss": 2, "isin": 2, "unravel": 2, "ravelmi": 2}
LEN1 = "len<=1-multichunk"


def main_chunks(case):
    """per-axis chunk tuples of the main (chunk-enumerated) input"""
    k = case[0]
    if k in _CH_POS:
        return (case[_CH_POS[k]],)
    if k == "unique2":
        return case[3]
    if k == "nz":
        return case[4]
    if k == "coarsen":
        return case[3]
    if k == "compress":
        return case[2]
    raise ValueError(k)


def generic_class(case, stage, exc):
    """narrow input classes of the recorded findings (C27.findings.json); stage in {'raises','meta','value'}"""
    k = case[0]
    msg = str(exc) if exc is not None else ""
    if k == "bincount" and stage == "meta" and case[4] > 0 and case[1] and max(case[1]) >= case[4]:
        return "max>=minlength"  # declared length is minlength although the result is longer
    if k == "hist" and stage == "value" and case[3][0] == "n" and case[3][2] == case[3][3]:
        return "range-lo==hi"  # NumPy widens a degenerate range by +-0.5, dask's edges do not
    if k == "compress" and stage == "raises":
        shp, ch, cond, ax = case[1], case[2], case[3], case[5]
        m = shp[ax] if ax is not None else int(np.prod(shp))
        if len(cond) > m:
            return "cond-longer-than-axis"  # NumPy accepts a longer condition whose tail is False; dask raises
        if isinstance(exc, ValueError) and "range() arg 3" in msg and any(sum(c) < len(c) for c in ch):
            return "mean-chunk<1"  # slicing.take: average_chunk_size == 0
    if k == "coarsen" and stage == "raises" and isinstance(exc, ValueError) and "Empty tuples" in msg and case[5]:
        if any(case[2][a] < d for a, d in case[4]):
            return "div>axis-length"
    if any(sum(c) <= 1 and len(c) >= 2 for c in main_chunks(case)):
        return LEN1  # unify_chunks merges the chunks of an axis of length <= 1 but keeps the multi-chunk output structure
    return None


def report(ctx, case, tag, failure, sub, detail):
    if sub == LEN1:
        ctx.violation(f"{LEN1}:{failure}", case, detail)
    else:
        ctx.violation(f"{tag}:{failure}" + (f":{sub}" if sub else ""), case, detail)


def run_case(case, ctx):
    o = setup_case(case, ctx)
    op = o["op"]
    klass = o["klass"] or (lambda *a: None)
    with warnings.catch_warnings():
        warnings.simplefilter("ignore")
        np_exc = None
        try:
            with np.errstate(all="ignore"):
                want = [np.asarray(w) for w in o["f_np"]()]
        except Hang:
            raise
        except Exception as e:  # noqa: BLE001
            want, np_exc = None, e
        d_exc = None
        got = []
        try:
            with np.errstate(all="ignore"):
                res = o["f_da"]()
                for r in res:
                    if hasattr(r, "dask"):
                        got.append(arr.compute_blocks(r))
                    else:
                        got.append((np.asarray(r), None))
        except Hang:
            raise
        except Exception as e:  # noqa: BLE001
            d_exc = e
    ctx.case(
        case,
        nontrivial=o["nontrivial"],
        outcome=(op, None if want is None else tuple(w.shape for w in want), type(np_exc).__name__, type(d_exc).__name__),
    )
    if np_exc is not None:
        ctx.count("both_raise" if d_exc is not None else "inapplicable")
        return
    if d_exc is not None:
        if isinstance(d_exc, NotImplementedError) or (isinstance(d_exc, ValueError) and any(s in str(d_exc) for s in DOCUMENTED_REFUSALS)):
            ctx.count("rejected")
            return
        sub = klass("raises", None, None, None) or generic_class(case, "raises", d_exc)
        report(ctx, case, op, f"dask-raises:{type(d_exc).__name__}", sub, f"dask raised {d_exc!r}; NumPy gives {want!r}")
        return
    names = o["names"] or [str(i) for i in range(len(want))]
    if len(got) != len(want):
        report(ctx, case, op, "wrong-arity", generic_class(case, "value", None), f"{len(got)} outputs, NumPy gives {len(want)}")
        return
    for nm, (g, problem), w in zip(names, got, want):
        tag = f"{op}.{nm}" if o["names"] else op
        if problem:
            report(ctx, case, tag, "lazy-metadata", generic_class(case, "meta", None), problem)
            return
        why = arr.equal(g, w, rtol=o["rtol"], atol=1e-300 if o["rtol"] else 0.0)
        if why:
            sub = klass("value", nm, g, w) or generic_class(case, "value", None)
            report(ctx, case, tag, "wrong-value", sub, why + f"  (NumPy outputs: {want!r})")
            return


def run_shard(shard, ctx):
    for case in cases_of(shard, ctx.tier):
        if ctx.out_of_time():
            return
        ctx.guard(case, run_case, case, ctx)


def replay(case, ctx):
    run_case(case, ctx)
