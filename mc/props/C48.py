"""C48 -- bag operations equal their plain-Python reference (DESIGN 5/C48).

E4: exhaustive small scope.  Every sequence over {0,1,2} up to a length bound (element types derived from it: ints,
strings, tuples, dicts, nested lists) x EVERY partitioning into <= P partitions with real empty partitions
(from_delayed) + from_sequence(npartitions | partition_size) x every operation variant of the statement
(x split_every, groupby shuffle method / npartitions / max_branch=2, initial values, second-bag layouts).
Reference: the plain-Python one-liner on the concatenated sequence; multiset comparison where bags promise no order.
"""
from __future__ import annotations

import collections
import functools
import itertools
import math
import operator
import warnings

from mc import enums
from mc.run import Hang

ID = "C48"
LEVEL = "exploration"
WATCHDOG_S = 30.0
NMAX = {"quick": 3, "thorough": 4}
PMAX = {"quick": 3, "thorough": 5}  # every variant runs on every layout with <= PMAX partitions
PWIDE = {"quick": 4, "thorough": 5}  # the cross-partition variants (CROSS) additionally run on layouts with up to PWIDE partitions
NIN = {"quick": 32, "thorough": 64}  # repartition sweep: every input partition count 1..NIN x every target 1..nin+2
SWEEP_FILLS = ("one", "mod3", "seq")  # 1 element per partition | i % 3 elements in partition i (from_delayed) | from_sequence(npartitions=nin)
SWEEP_SIZES = (64, 100, 200, 400)  # partition_size (bytes) variants of the sweep
# variants whose result is assembled ACROSS partitions (tree reductions, shuffles, carries, boundaries)
CROSS = frozenset(
    "distinct frequencies topk fold reduction foldby groupby accumulate take repartition sum max min any all count mean var std".split()
)
ASSUMPTIONS = [
    "sync scheduler; functions are module-level pure functions; binary operators given to fold/reduction/foldby are associative and "
    "commutative with a neutral `initial` (the only case in which the documented per-partition semantics coincide with functools.reduce)",
    "order is compared only where the API defines it (accumulate, take, topk's key order, frequencies(sort=True) count order); everywhere "
    "else results are compared as multisets (repr-sorted)",
    "split_every=2 is enumerated only for layouts with >= 3 partitions (it is the same graph as the default otherwise)",
    "zip / map(f, bag) / map_partitions(f, bag) get an identically partitioned second bag, as their docstrings require",
    "take(k, npartitions=m) reference = first k elements of the concatenation of the first m partitions (documented); m=-1 -> seq[:k]",
    "where the Python reference raises (max([]), reduce of an empty sequence without initial, mean/var of too few elements) dask must raise too",
]


def RULE(tier):
    n, p, w = NMAX[tier], PMAX[tier], PWIDE[tier]
    return (
        f"every sequence over {{0,1,2}} of length 0..{n} x EVERY partitioning into <= {p} partitions incl. empty ones (from_delayed; <= {w} "
        f"partitions for the cross-partition operations {sorted(CROSS)}) + "
        f"from_sequence(npartitions=2 | partition_size=1,2) x {len(variants(tier))} operation variants: map (unary, str method, extra arg, kwarg, second bag), "
        "starmap, filter, remove, map_partitions (1-2 bags, extra arg), pluck (index, key, default, list), flatten, distinct (key fn / str key), "
        "frequencies (sort), topk (k, key), fold (add/max/set-union, initial), reduction, foldby (initial, combine_initial), groupby "
        "(tasks with max_branch None|2, disk with npartitions None|1|2 and blocksize 2|64; int and str keys), join (list / delayed / 1-partition bag), product, "
        "accumulate (initial), take (k, npartitions 1|2|-1), repartition (npartitions 1..4, partition_size), zip, concat, "
        "sum/max/min/any/all/count/mean/var/std (ddof) -- each x split_every {None,2} where it applies.  Oracle = plain Python on the "
        "concatenated sequence. non-trivial = >= 2 partitions.  "
        f"Repartition sweep: every input partition count nin in 1..{NIN[tier]} x EVERY target npartitions 1..nin+2 x fill {SWEEP_FILLS} "
        f"(+ partition_size in {SWEEP_SIZES} for every nin): same multiset of (position-tagged) elements, count() equal, and exactly the "
        "requested number of partitions."
    )


# ---------------------------------------------------------------------------------------------- functions given to dask
def inc(x):
    return x + 1


def addk(x, k=0):
    return x + k


def add3k(x, y, k=0):
    return x + y + k


def is_even(x):
    return x % 2 == 0


def is_pos(x):
    return x > 0


def mod2(x):
    return x % 2


def ident(x):
    return x


def letter(x):
    return "abc"[x]


def neg(x):
    return -x


def times3(part):
    return [x * 3 for x in part]


def times_arg(part, m):
    return [x * m for x in part]


def zip_add(p1, p2):
    return [x + y for x, y in zip(p1, p2)]


def add_to_set(acc, x):
    return acc | {x}


def part_sum(part):
    return sum(part)


def part_len(part):
    return sum(1 for _ in part)


def get_k(d):
    return d["k"]


add = operator.add


# ---------------------------------------------------------------------------------------------- derived element types
def tup(seq):
    return [(x, 10 + i) for i, x in enumerate(seq)]


def dct(seq):
    return [{"k": x, "i": i} for i, x in enumerate(seq)]


def dct_missing(seq):
    return [({"k": x, "i": i} if x else {"i": i}) for i, x in enumerate(seq)]


def nest(seq):
    return [[10 * i + j for j in range(x)] for i, x in enumerate(seq)]


def tagged(seq):
    return [100 + 10 * i + x for i, x in enumerate(seq)]


# ---------------------------------------------------------------------------------------------- enumeration
OTHERS = ((), (0, 2, 2, 1))  # fixed right-hand sequences for join
LAY2 = (("d", (2,)), ("d", (1, 1)), ("d", (0, 2)), ("d", (2, 0, 0)))  # layouts of the fixed second bag [20, 21]


@functools.lru_cache(None)
def variants(tier):
    v = []
    ses = (None, 2)
    v += [("map", "inc"), ("map", "str"), ("map", "const"), ("map", "kw"), ("map", "bag2"), ("map", "bag2kw")]
    v += [("starmap", "add"), ("starmap", "kw")]
    v += [("filter", "even"), ("filter", "pos"), ("remove", "even")]
    v += [("map_partitions", "x3"), ("map_partitions", "arg"), ("map_partitions", "bag2")]
    v += [("pluck", "tup0"), ("pluck", "tup1"), ("pluck", "key"), ("pluck", "default"), ("pluck", "list")]
    v += [("flatten",)]
    v += [("distinct", None), ("distinct", "mod2"), ("distinct", "strkey")]
    v += [("frequencies", se, sort) for se in ses for sort in (False, True)]
    v += [("topk", k, key, se) for k in ((1, 3) if tier == "quick" else (0, 1, 2, 3, 5)) for key in (None, "neg") for se in ses]
    v += [("fold", f, init, se) for f in ("add", "max", "set") for init in (False, True) for se in ses if not (f == "set" and not init)]
    v += [("reduction", f, se) for f in (("len",) if tier == "quick" else ("sum", "len", "min")) for se in ses]  # Bag.sum/min ARE reduction(sum, sum)/(min, min)
    v += [("foldby", init, cinit, se) for init in (False, True) for cinit in (False, True) for se in ses]
    v += [("groupby", g, "tasks", mb) for g in ("mod2", "letter") for mb in (None, 2)]
    # disk shuffle: blocksize (elements per spill block) 2 forces several blocks per partition; the default 2**20 is not enumerated
    # because toolz.partition_all(2**20, ...) costs ~60 ms of CPU per partition regardless of the data
    v += [("groupby", g, "disk", np_, bs) for g in ("mod2", "letter") for np_, bs in ((None, 2), (1, 2), (2, 2), (None, 64))]
    v += [("join", kind, o, on) for kind in ("list", "delayed", "bag1") for o in range(len(OTHERS)) for on in ("ident", "mod2")]
    v += [("product", l2) for l2 in range(len(LAY2))] + [("product", "self")]
    v += [("accumulate", False), ("accumulate", True)]
    v += [("take", k, m) for k in ((0, 1, 3) if tier == "quick" else (0, 1, 2, 3, 5)) for m in (1, 2, -1)]
    v += [("repartition", "n", m) for m in (1, 2, 3, 4)] + [("repartition", "size", s) for s in (64, 200, "1kB")]
    v += [("zip", 2), ("zip", 3)]
    v += [("concat", l2) for l2 in range(len(LAY2))] + [("concat", "self")]
    v += [(st, se) for st in ("sum", "max", "min", "any", "all", "count") for se in ses if tier != "quick" or se is None or st in ("sum", "max", "min")]
    v += [("mean",), ("var", 0), ("var", 1), ("std", 0), ("std", 1)]
    return tuple(v)


def uses_split_every(var):
    """position of the split_every argument in the variant, or None"""
    name = var[0]
    if name in ("frequencies",):
        return 1
    if name in ("topk", "fold", "foldby"):
        return 3
    if name == "reduction":
        return 2
    if name in ("sum", "max", "min", "any", "all", "count"):
        return 1
    return None


def layouts(n, pmax):
    for sizes in enums.compositions_with_zeros(n, pmax):
        yield ("d", sizes)
    if n:
        yield ("n", 2)
        yield ("p", 1)
        if n > 2:
            yield ("p", 2)


def lay_nparts(lay, n):
    if lay[0] == "d":
        return len(lay[1])
    if lay[0] == "n":
        size = int(math.ceil(n / lay[1]))
        return max(1, -(-n // size))
    return max(1, -(-n // lay[1]))


def shards(tier):
    out = []
    nvar = len(variants(tier))
    nmax = NMAX[tier]
    for n in range(0, nmax + 1):
        nseq = 3**n
        # shard over (variant block, sequence block)
        vb = 1 if n < 2 else (4 if n < 3 else 16)
        sb = 1 if n < 3 else (3 if n == 3 else 3 ** (n - 2))
        for a in range(vb):
            for b in range(sb):
                out.append((n, a, vb, b, sb))
    step = 4
    for lo in range(1, NIN[tier] + 1, step):
        out.append(("rsweep", lo, min(lo + step - 1, NIN[tier])))
    return out


def cases_of(shard, tier):
    if shard[0] == "rsweep":
        for nin in range(shard[1], shard[2] + 1):
            for fill in SWEEP_FILLS:
                for nout in range(1, nin + 3):
                    yield ("rsweep", fill, nin, "n", nout)
            for size in SWEEP_SIZES:
                yield ("rsweep", "one", nin, "size", size)
        return
    n, a, vb, b, sb = shard
    pmax = PMAX[tier]
    vs = variants(tier)
    lays = list(layouts(n, PWIDE[tier]))
    for si, seq in enumerate(itertools.product((0, 1, 2), repeat=n)):
        if si % sb != b:
            continue
        for lay in lays:
            np_ = lay_nparts(lay, n)
            for vi, var in enumerate(vs):
                if vi % vb != a or (np_ > pmax and var[0] not in CROSS):
                    continue
                p = uses_split_every(var)
                if p is not None and var[p] == 2 and np_ < 3:
                    continue  # same graph as split_every=None
                yield (var, seq, lay)


# ---------------------------------------------------------------------------------------------- execution
def build(seq, lay):
    import dask.bag as db
    from dask import delayed

    seq = list(seq)
    if lay[0] == "n":
        return db.from_sequence(seq, npartitions=lay[1])
    if lay[0] == "p":
        return db.from_sequence(seq, partition_size=lay[1])
    parts, i = [], 0
    for sz in lay[1]:
        parts.append(seq[i : i + sz])
        i += sz
    assert i == len(seq)
    return db.from_delayed([delayed(list, pure=False)(p) for p in parts])


def partition_lists(seq, lay):
    """the partitions as plain lists (reference side of take(npartitions=m))"""
    seq = list(seq)
    if lay[0] == "d":
        out, i = [], 0
        for sz in lay[1]:
            out.append(seq[i : i + sz])
            i += sz
        return out
    size = int(math.ceil(len(seq) / lay[1])) if lay[0] == "n" else lay[1]
    return [seq[i : i + size] for i in range(0, len(seq), size)] or [[]]


class Refuse(Exception):
    """documented refusal decided before calling dask (counted as rejected)"""


def msort(xs):
    return sorted(map(repr, xs))


def plan(var, seq, lay):
    """-> (mode, dask_thunk, reference_thunk).  modes: multiset | ordered | equal | float | custom(fn(got, want) -> why|None)"""
    import dask.bag as db
    from dask import delayed

    name = var[0]
    seq = list(seq)
    n = len(seq)
    B = lambda s=None: build(seq if s is None else s, lay)  # noqa: E731
    comp = lambda x: x.compute(scheduler="sync")  # noqa: E731

    if name == "map":
        k = var[1]
        if k == "inc":
            return "multiset", lambda: comp(B().map(inc)), lambda: [x + 1 for x in seq]
        if k == "str":
            return "multiset", lambda: comp(B([letter(x) for x in seq]).map(str.upper)), lambda: ["ABC"[x] for x in seq]
        if k == "const":
            return "multiset", lambda: comp(B().map(add, 10)), lambda: [x + 10 for x in seq]
        if k == "kw":
            return "multiset", lambda: comp(B().map(addk, k=5)), lambda: [x + 5 for x in seq]
        if k == "bag2":
            return "multiset", lambda: comp(B().map(add, B(tagged(seq)))), lambda: [x + y for x, y in zip(seq, tagged(seq))]
        if k == "bag2kw":
            return "multiset", lambda: comp(B().map(add3k, B(tagged(seq)), k=B().count())), lambda: [x + y + n for x, y in zip(seq, tagged(seq))]
    if name == "starmap":
        t = tup(seq)
        if var[1] == "add":
            return "multiset", lambda: comp(B(t).starmap(add)), lambda: [a + b for a, b in t]
        return "multiset", lambda: comp(B(t).starmap(add3k, k=7)), lambda: [a + b + 7 for a, b in t]
    if name == "filter":
        f = is_even if var[1] == "even" else is_pos
        return "multiset", lambda: comp(B().filter(f)), lambda: [x for x in seq if f(x)]
    if name == "remove":
        return "multiset", lambda: comp(B().remove(is_even)), lambda: [x for x in seq if not is_even(x)]
    if name == "map_partitions":
        if var[1] == "x3":
            return "multiset", lambda: comp(B().map_partitions(times3)), lambda: [x * 3 for x in seq]
        if var[1] == "arg":
            return "multiset", lambda: comp(B().map_partitions(times_arg, 4)), lambda: [x * 4 for x in seq]
        return "multiset", lambda: comp(B().map_partitions(zip_add, B(tagged(seq)))), lambda: [x + y for x, y in zip(seq, tagged(seq))]
    if name == "pluck":
        k = var[1]
        if k == "tup0":
            return "multiset", lambda: comp(B(tup(seq)).pluck(0)), lambda: [t[0] for t in tup(seq)]
        if k == "tup1":
            return "multiset", lambda: comp(B(tup(seq)).pluck(1)), lambda: [t[1] for t in tup(seq)]
        if k == "key":
            return "multiset", lambda: comp(B(dct(seq)).pluck("k")), lambda: [d["k"] for d in dct(seq)]
        if k == "default":
            return "multiset", lambda: comp(B(dct_missing(seq)).pluck("k", -1)), lambda: [d.get("k", -1) for d in dct_missing(seq)]
        return "multiset", lambda: comp(B(tup(seq)).pluck([1, 0])), lambda: [(t[1], t[0]) for t in tup(seq)]
    if name == "flatten":
        return "multiset", lambda: comp(B(nest(seq)).flatten()), lambda: [y for x in nest(seq) for y in x]
    if name == "distinct":
        if var[1] is None:
            return "multiset", lambda: comp(B().distinct()), lambda: sorted(set(seq))
        if var[1] == "mod2":
            src, keyf, arg = seq, mod2, mod2
        else:
            src, keyf, arg = dct(seq), get_k, "k"

        def cmp_distinct(got, want):
            keys = [keyf(g) for g in got]
            if len(set(keys)) != len(keys) or set(keys) != {keyf(x) for x in src}:
                return f"keys of the result {keys!r} are not exactly the distinct keys {sorted({keyf(x) for x in src})!r}"
            if any(g not in src for g in got):
                return f"result {got!r} has elements that are not in the bag"
            return None

        return ("custom", cmp_distinct), lambda: comp(B(src).distinct(key=arg)), lambda: None
    if name == "frequencies":
        se, sort = var[1], var[2]

        def cmp_freq(got, want):
            if msort(got) != msort(want):
                return f"got {got!r}, expected {want!r}"
            if sort and [c for _, c in got] != sorted((c for _, c in got), reverse=True):
                return f"sort=True but counts are not descending: {got!r}"
            return None

        return ("custom", cmp_freq), lambda: comp(B().frequencies(split_every=se, sort=sort)), lambda: list(collections.Counter(seq).items())
    if name == "topk":
        k, key, se = var[1], var[2], var[3]
        kf = neg if key == "neg" else ident

        def cmp_topk(got, want):
            if collections.Counter(got) - collections.Counter(seq):
                return f"{got!r} is not a sub-multiset of the bag"
            if [kf(g) for g in got] != [kf(w) for w in want]:
                return f"got {got!r}, expected the {k} largest by key in descending order {want!r}"
            return None

        return (
            ("custom", cmp_topk),
            lambda: comp(B().topk(k, key=(neg if key == "neg" else None), split_every=se)),
            lambda: sorted(seq, key=kf, reverse=True)[:k],
        )
    if name == "fold":
        f, init, se = var[1], var[2], var[3]
        if f == "add":
            kw = {"initial": 0} if init else {}
            return "equal", lambda: comp(B().fold(add, split_every=se, **kw)), lambda: functools.reduce(add, seq, *([0] if init else []))
        if f == "max":
            kw = {"initial": -1} if init else {}
            return "equal", lambda: comp(B().fold(max, split_every=se, **kw)), lambda: functools.reduce(max, seq, *([-1] if init else []))
        return (
            "equal",
            lambda: comp(B().fold(add_to_set, set.union, initial=set(), split_every=se)),
            lambda: functools.reduce(add_to_set, seq, set()),
        )
    if name == "reduction":
        f, se = var[1], var[2]
        if f == "sum":
            return "equal", lambda: comp(B().reduction(part_sum, sum, split_every=se)), lambda: sum(seq)
        if f == "len":
            return "equal", lambda: comp(B().reduction(part_len, sum, split_every=se)), lambda: len(seq)
        return "equal", lambda: comp(B().reduction(min, min, split_every=se)), lambda: min(seq)
    if name == "foldby":
        init, cinit, se = var[1], var[2], var[3]
        kw = {}
        if init:
            kw["initial"] = 0
        if cinit:
            kw["combine_initial"] = 0

        def ref_foldby():
            acc = {}
            for x in seq:
                k = mod2(x)
                if k in acc:
                    acc[k] = acc[k] + x
                else:
                    acc[k] = (0 + x) if init else x
            return list(acc.items())

        return "multiset", lambda: comp(B().foldby(mod2, add, combine=add, split_every=se, **kw)), ref_foldby
    if name == "groupby":
        g = mod2 if var[1] == "mod2" else letter
        if var[2] == "tasks":
            mk = lambda: B().groupby(g, shuffle="tasks", max_branch=var[3])  # noqa: E731
        else:
            mk = lambda: B().groupby(g, shuffle="disk", npartitions=var[3], blocksize=var[4])  # noqa: E731

        def ref_groupby():
            d = collections.defaultdict(list)
            for x in seq:
                d[g(x)].append(x)
            return [(k, sorted(v)) for k, v in d.items()]

        def cmp_groupby(got, want):
            keys = [k for k, _ in got]
            if len(keys) != len(set(keys)):
                return f"a key appears in more than one group: {got!r}"
            got2 = [(k, sorted(v)) for k, v in got]
            if msort(got2) != msort(want):
                return f"got {got!r}, expected groups {want!r}"
            return None

        return ("custom", cmp_groupby), lambda: comp(mk()), ref_groupby
    if name == "join":
        kind, other, on = var[1], list(OTHERS[var[2]]), (ident if var[3] == "ident" else mod2)

        def mk():
            if kind == "list":
                o = other
            elif kind == "delayed":
                o = delayed(tuple, pure=False)(other)
            else:
                o = db.from_sequence(other, npartitions=1)
            return B().join(o, on)

        return "multiset", lambda: comp(mk()), lambda: [(o, s) for s in seq for o in other if on(o) == on(s)]
    if name == "product":
        if var[1] == "self":
            return "multiset", lambda: comp((lambda b: b.product(b))(B())), lambda: list(itertools.product(seq, seq))
        l2 = LAY2[var[1]]
        return "multiset", lambda: comp(B().product(build([20, 21], l2))), lambda: list(itertools.product(seq, [20, 21]))
    if name == "accumulate":
        if var[1]:
            return "ordered", lambda: comp(B().accumulate(add, initial=5)), lambda: list(itertools.accumulate(seq, add, initial=5))
        return "ordered", lambda: comp(B().accumulate(add)), lambda: list(itertools.accumulate(seq, add))
    if name == "take":
        k, m = var[1], var[2]
        parts = partition_lists(tagged(seq), lay)
        if m > len(parts):
            raise Refuse("take(npartitions > bag.npartitions) is a documented ValueError")
        ref = [x for p in (parts if m == -1 else parts[:m]) for x in p][:k]
        return "ordered", lambda: list(B(tagged(seq)).take(k, npartitions=m, warn=False)), lambda: ref
    if name == "repartition":
        if var[1] == "n":
            m = var[2]

            def cmp_rep(got, want):
                vals, npart = got
                if msort(vals) != msort(want):
                    return f"got {vals!r}, expected {want!r}"
                if npart != m:
                    return f"NPARTITIONS: repartition(npartitions={m}) has {npart} partitions"
                return None

            def run():
                r = B(tagged(seq)).repartition(npartitions=m)
                return comp(r), r.npartitions

            return ("custom", cmp_rep), run, lambda: tagged(seq)
        return "multiset", lambda: comp(B(tagged(seq)).repartition(partition_size=var[2])), lambda: tagged(seq)
    if name == "zip":
        t = tagged(seq)
        if var[1] == 2:
            return "multiset", lambda: comp(db.zip(B(), B(t))), lambda: list(zip(seq, t))
        return "multiset", lambda: comp(db.zip(B(), B(t), B(tup(seq)))), lambda: list(zip(seq, t, tup(seq)))
    if name == "concat":
        if var[1] == "self":
            return "multiset", lambda: comp((lambda b: db.concat([b, b]))(B())), lambda: seq + seq
        l2 = LAY2[var[1]]
        return "multiset", lambda: comp(db.concat([B(), build([20, 21], l2), B(tagged(seq))])), lambda: seq + [20, 21] + tagged(seq)
    if name in ("sum", "max", "min", "any", "all", "count"):
        se = var[1]
        ref = {"sum": sum, "max": max, "min": min, "any": any, "all": all, "count": len}[name]
        return "equal", lambda: comp(getattr(B(), name)(split_every=se)), lambda: ref(seq)
    if name == "mean":
        return "float", lambda: comp(B().mean()), lambda: sum(seq) / len(seq)
    if name in ("var", "std"):
        ddof = var[1]

        def ref_var():
            m = sum(seq) / len(seq)
            v = sum((x - m) ** 2 for x in seq) / (len(seq) - ddof)
            return math.sqrt(v) if name == "std" else v

        return "float", lambda: comp(getattr(B(), name)(ddof=ddof)), ref_var
    raise ValueError(var)


def known_class(case, failure):
    """narrow input classes of the recorded findings (C48.findings.json); returns the key suffix or None"""
    var, seq, lay = case
    name = var[0]
    sizes = lay[1] if lay[0] == "d" else None
    if name == "accumulate" and not var[1] and sizes and len(sizes) > 1 and sizes[0] == 0 and len(seq) > 0 and failure == "dask-raises:TypeError":
        return "no-initial-and-empty-first-partition"
    if name == "fold" and var[2] and sizes and len(sizes) > 1 and len(seq) == 0 and failure == "dask-raises:TypeError":
        return "initial-and-all-partitions-empty"
    return None


def sweep_parts(fill, nin):
    """position-tagged elements, partition by partition"""
    if fill == "mod3":
        return [[100 * i + j for j in range(i % 3)] for i in range(nin)]
    return [[100 * i] for i in range(nin)]


def float_rounded_last_boundary(nin, nout):
    """input class of the recorded finding: shrinking nin -> nout where the float product nout * (nin / nout) truncates below nin"""
    return nout < nin and int(nout * (nin / nout)) != nin


def run_sweep(case, ctx):
    import dask.bag as db
    from dask import delayed

    _, fill, nin, how, arg = case
    parts = sweep_parts(fill, nin)
    want = [x for p in parts for x in p]
    try:
        if fill == "seq":
            b = db.from_sequence(want, npartitions=nin)
        else:
            b = db.from_delayed([delayed(list, pure=False)(p) for p in parts])
        if b.npartitions != nin:
            raise AssertionError(f"harness: built {b.npartitions} partitions, wanted {nin}")
        r = b.repartition(npartitions=arg) if how == "n" else b.repartition(partition_size=arg)
        got = r.compute(scheduler="sync")
        cnt = r.count().compute(scheduler="sync")
        npart = r.npartitions
    except Hang:
        raise
    except AssertionError:
        raise
    except Exception as e:  # noqa: BLE001
        ctx.case(case, nontrivial=False, outcome=("exc", type(e).__name__))
        ctx.violation(f"repartition:dask-raises:{type(e).__name__}", case, f"{e!r} (sweep {nin} partitions -> {how}={arg})")
        return
    ctx.case(case, nontrivial=nin >= 2, outcome=(nin, how, arg, npart))
    if not isinstance(got, list) or msort(got) != msort(want) or cnt != len(want):
        ctx.violation("repartition:wrong-value", case, f"{nin} partitions -> {how}={arg}: got {got!r} (count {cnt}), expected (any order) {want!r}")
    elif how == "n" and npart != arg:
        kc = ":shrink-with-float-rounded-last-boundary" if float_rounded_last_boundary(nin, arg) and npart == arg + 1 else ""
        ctx.violation(f"repartition:wrong-npartitions{kc}", case, f"repartition(npartitions={arg}) of {nin} partitions has {npart} partitions")


def setup():
    import dask

    dask.config.set(scheduler="sync")  # Bag's default is the multiprocessing scheduler; take()/repartition(size) compute internally


def run_case(case, ctx):
    import dask

    with dask.config.set(scheduler="sync"):
        if case[0] == "rsweep":
            run_sweep(case, ctx)
        else:
            _run_case(case, ctx)


def _run_case(case, ctx):
    var, seq, lay = case
    name = var[0]
    npart = lay_nparts(lay, len(seq))
    try:
        mode, f_da, f_py = plan(var, seq, lay)
    except Refuse:
        ctx.count("rejected")
        return
    try:
        want, py_exc = f_py(), None
    except Exception as e:  # noqa: BLE001  (max([]), reduce(add, []), 0/0 ...)
        want, py_exc = None, e
    try:
        with warnings.catch_warnings():
            warnings.simplefilter("ignore")
            got, d_exc = f_da(), None
    except Hang:
        raise
    except Exception as e:  # noqa: BLE001
        got, d_exc = None, e
    ctx.case(case, nontrivial=npart >= 2, outcome=(name, repr(want)[:60], type(py_exc).__name__, type(d_exc).__name__))

    def report(failure, detail):
        kc = known_class(case, failure)
        ctx.violation(f"{name}:{failure}" + (f":{kc}" if kc else ""), case, detail)

    if py_exc is not None:
        if d_exc is None:
            report("python-raises-dask-returns", f"plain Python raises {py_exc!r}; dask returned {got!r}")
        else:
            ctx.count("both_raise")
        return
    if d_exc is not None:
        if isinstance(d_exc, NotImplementedError):
            ctx.count("rejected")
            return
        report(f"dask-raises:{type(d_exc).__name__}", f"dask raised {d_exc!r}; plain Python gives {want!r}")
        return
    why = None
    if mode == "multiset":
        if not isinstance(got, list):
            why = f"not a list: {got!r}"
        elif msort(got) != msort(want):
            why = f"got {got!r}, expected (any order) {want!r}"
    elif mode == "ordered":
        if list(got) != list(want):
            why = f"got {got!r}, expected {want!r}"
    elif mode == "equal":
        if type(got) is not type(want) or got != want:
            why = f"got {got!r}, expected {want!r}"
    elif mode == "float":
        if not isinstance(got, float) or not math.isclose(got, want, rel_tol=1e-9, abs_tol=1e-12):
            why = f"got {got!r}, expected {want!r}"
    else:
        why = mode[1](got, want)
    if why:
        if why.startswith("NPARTITIONS"):
            report("wrong-npartitions", why)
        else:
            report("wrong-value", why)


def run_shard(shard, ctx):
    for case in cases_of(shard, ctx.tier):
        if ctx.out_of_time():
            return
        ctx.guard(case, run_case, case, ctx)


def replay(case, ctx):
    run_case(case, ctx)
