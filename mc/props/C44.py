"""C44 -- repartitioning preserves rows, order and the requested layout (DESIGN 5/C44).  E4: exhaustive small scope.

Families (reference = the pandas frame the source was cut from):
  div   repartition(divisions=b, force=)   from every truthful known-division source x every legal division vector b
  np    repartition(npartitions=k)         from known- and unknown-division sources (with empty partitions), frame and series
  size  repartition(partition_size=s)      same sources
  fp    from_pandas(npartitions|chunksize, sort)
"""
from __future__ import annotations

import itertools

import mc.dfh as dfh  # FIRST: installs the pyarrow stand-in
import pandas as pd

import dask

from mc import enums
from mc.props import _c4x
from mc.run import Hang

ID = "C44"
LEVEL = "exploration"
WATCHDOG_S = 30.0
ASSUMPTIONS = [
    "sync scheduler; column 'a' holds distinct ints so every row is traceable; index values come from a seed-chosen strictly increasing alphabet",
    "known-division sources are built with from_delayed and TRUTHFUL divisions (rows are assigned to partitions by the division vector), so empty partitions with known divisions occur",
    "documented refusals (counted as rejected, decided a priori from the input): divisions= on unknown source divisions; endpoints differing without force; new divisions not covering the old ones with force",
    "repartition(npartitions=k) documents 'may be slightly lower ... depending on data distribution, never higher': fewer than k partitions is accepted ONLY for the class known source divisions and k > source npartitions (counted documented_fewer); everywhere else exactly k is demanded",
    "from_pandas(sort=True) on an unsorted index promises no order among equal index values: compared as index-sorted frame with equal-key rows as a multiset",
]

# (alphabet size, max data length) of the division-vector family; data = every sorted sequence over the alphabet
DIV = {"quick": (4, 3), "thorough": (5, 5)}
DIV_OTHER = {"quick": (4, 2), "thorough": (4, 4)}  # float / str / datetime index
NPK = {"quick": 6, "thorough": 10}  # target npartitions 1..NPK
UMAX = {"quick": 5, "thorough": 6}  # rows of the unknown-division sources
UPARTS = 4
SIZES = (10, 30, 60, 100, "1kB")
FP = {"quick": (4, 4, 6), "thorough": (5, 4, 9)}  # (max length, alphabet, max npartitions/chunksize): EVERY (unsorted) sequence
UNSORTED = (2, 0, 3, 0, 1, 3, 2)
SORTED_DUP = (0, 0, 1, 3, 3, 3, 3)


def RULE(tier):
    da, dl = DIV[tier]
    oa, ol = DIV_OTHER[tier]
    fl, fa, fk = FP[tier]
    return (
        f"div: every sorted int index sequence of length 1..{dl} over a {da}-value alphabet x every truthful source division vector over the same alphabet "
        f"(strictly increasing, optionally repeated last element; partitions may be empty) x EVERY legal target vector x force in {{False,True}} "
        f"(float/str/datetime index: alphabet {oa}, length <= {ol}); + unknown-division sources (refusal expected). "
        f"np: the same known sources and every split of 0..{UMAX[tier]} rows (unsorted and sorted-duplicate index) into <= {UPARTS} partitions incl. empty ones "
        f"x npartitions 1..{NPK[tier]} x {{frame, series}}. size: the same sources x partition_size in {SIZES}. "
        f"fp: EVERY index sequence (sorted or not) of length 0..{fl} over {fa} values x npartitions 1..{fk} | chunksize 1..{fk} x sort. "
        "Oracle: computed frame AND concatenated partitions == source rows in source order (exact, dtype and index included); divisions= yields exactly "
        "the requested divisions, len-1 partitions, each inside its interval; npartitions=k yields k partitions. "
        "non-trivial = source or result has >= 2 partitions."
    )


# ---------------------------------------------------------------------------------------------- shards / cases
def _known_sources(A, L):
    vecs = _c4x.division_vectors(A)
    for seq in enums.sorted_seqs(range(A), L):
        if not seq:
            continue
        for a in vecs:
            if _c4x.spans(a, seq):
                yield seq, a


def _unknown_sources(nmax):
    for n in range(0, nmax + 1):
        for pat in ("unsorted", "sorted_dup"):
            seq = (UNSORTED if pat == "unsorted" else SORTED_DUP)[:n]
            for parts in enums.compositions_with_zeros(n, UPARTS):
                yield seq, parts
            if n == 0:
                break


def shards(tier):
    out = []
    for part in range(24):
        out.append(("div", "int", part, 24))
    for kind in ("float", "str", "dt"):
        for part in range(2):
            out.append(("div", kind, part, 2))
    out.append(("div-unknown",))
    for part in range(8):
        out.append(("np-known", part, 8))
    for part in range(6):
        out.append(("np-unknown", part, 6))
    for part in range(3):
        out.append(("size-known", part, 3))
    for part in range(2):
        out.append(("size-unknown", part, 2))
    for part in range(12):
        out.append(("fp", part, 12))
    order = {"fp": 0, "div-unknown": 0, "size-unknown": 1, "np-unknown": 1, "size-known": 2, "np-known": 2, "div": 3}
    out.sort(key=lambda s: order[s[0]])
    return out


def cases_of(shard, tier):
    fam = shard[0]
    if fam == "div":
        _, kind, part, nparts = shard
        A, L = DIV[tier] if kind == "int" else DIV_OTHER[tier]
        vecs = _c4x.division_vectors(A)
        for i, (seq, a) in enumerate(_known_sources(A, L)):
            if i % nparts != part:
                continue
            for b in vecs:
                for force in (False, True):
                    yield ("div", kind, A, seq, ("k", a), b, force)
    elif fam == "div-unknown":
        A = DIV[tier][0]
        vecs = _c4x.division_vectors(A)
        for seq, parts in _unknown_sources(3):
            for b in vecs[:: 3 if tier == "quick" else 1]:
                yield ("div", "int", A, seq, ("u", parts), b, True)
    elif fam in ("np-known", "size-known"):
        _, part, nparts = shard
        A, L = DIV[tier]
        for i, (seq, a) in enumerate(_known_sources(A, L)):
            if i % nparts != part:
                continue
            kinds = ("int",) if len(seq) > 2 else _c4x.KINDS
            for kind in kinds:
                if fam == "np-known":
                    for k in range(1, NPK[tier] + 1):
                        for obj in ("f", "s"):
                            yield ("np", kind, A, seq, ("k", a), k, obj)
                else:
                    for s in SIZES:
                        yield ("size", kind, A, seq, ("k", a), s)
    elif fam in ("np-unknown", "size-unknown"):
        _, part, nparts = shard
        A = DIV[tier][0]
        for i, (seq, parts) in enumerate(_unknown_sources(UMAX[tier])):
            if i % nparts != part:
                continue
            if fam == "np-unknown":
                for k in range(1, NPK[tier] + 1):
                    for obj in ("f", "s"):
                        yield ("np", "int", A, seq, ("u", parts), k, obj)
            else:
                for s in SIZES:
                    yield ("size", "int", A, seq, ("u", parts), s)
    elif fam == "fp":
        _, part, nparts = shard
        fl, fa, fk = FP[tier]
        i = 0
        for n in range(0, fl + 1):
            for seq in itertools.product(range(fa), repeat=n):
                i += 1
                if i % nparts != part:
                    continue
                kinds = ("int",) if n > 2 else _c4x.KINDS
                for kind in kinds:
                    for k in range(1, fk + 1):
                        for mode in ("n", "c"):
                            for sort in (True, False):
                                yield ("fp", kind, fa, seq, mode, k, sort)
    else:
        raise ValueError(fam)


# ---------------------------------------------------------------------------------------------- running one case
def make_source(kind, A, seq, src, seed):
    pdf = _c4x.frame_of(kind, seq, A, seed)
    if src[0] == "k":
        d = _c4x.build_known(pdf, seq, src[1], _c4x.div_values(kind, src[1], A, seed))
    else:
        d = dfh.build(pdf, src[1], divisions=None)
    return pdf, d


def expected_refusal(src, b, force):
    """documented refusals of repartition(divisions=), decided from the input alone (alphabet indices compare like the values)"""
    if src[0] != "k":
        return "unknown source divisions"
    a = src[1]
    if tuple(a) == tuple(b):
        return None
    if force:
        if a[0] < b[0] or a[-1] > b[-1]:
            return "new divisions do not cover the old ones"
    elif a[0] != b[0] or a[-1] != b[-1]:
        return "endpoints differ without force"
    return None


def known_class(case):
    """narrow input classes of recorded findings (C44.findings.json); appended to the finding key"""
    fam = case[0]
    if fam == "np" and case[4][0] == "k" and case[1] != "str" and case[5] > len(case[4][1]) - 1:
        return "known-numeric-divisions-upsample"  # interpolated divisions collapse; .npartitions keeps claiming k
    if fam == "div" and case[4][0] == "k" and case[6]:
        a, b = case[4][1], case[5]
        if len(a) == 2 and a[0] == a[1] and len(b) >= 4 and b[-1] == b[-2] == a[-1]:
            return "force-single-label-source-to-repeated-last"  # source divisions (x, x), target (..., .., x, x)
    return None


def compute_all(r):
    """one scheduler pass: the computed collection and its individual partitions"""
    res = dask.compute(r, *r.to_delayed())
    return res[0], list(res[1:])


def rows_problem(whole, parts, want, ordered=True):
    why = dfh.equal(whole, want, ordered=ordered)
    if why:
        return "computed frame differs from the source rows: " + why
    nonempty = [p for p in parts if len(p)]
    if nonempty or len(want):
        cat = pd.concat(nonempty) if nonempty else want.iloc[:0]
        why = dfh.equal(cat, want, ordered=ordered)
        if why:
            return "concatenated partitions differ from the source rows: " + why
    for p in parts:
        if type(p) is not type(want):
            return f"a partition is a {type(p).__name__}, expected {type(want).__name__}"
    return None


def run_case(case, ctx):
    fam = case[0]
    sub = known_class(case)
    suffix = f":{sub}" if sub else ""

    if fam == "fp":
        _, kind, A, seq, mode, k, sort = case
        pdf = _c4x.frame_of(kind, seq, A, ctx.seed)
        kw = {"npartitions": k} if mode == "n" else {"chunksize": k}
        try:
            r = dfh.dd.from_pandas(pdf, sort=sort, **kw)
            whole, parts = compute_all(r)
        except Hang:
            raise
        except Exception as e:  # noqa: BLE001
            ctx.case(case, nontrivial=len(seq) >= 2, outcome=("exc", type(e).__name__))
            ctx.violation(f"from_pandas:dask-raises:{type(e).__name__}{suffix}", case, f"from_pandas(index={list(pdf.index)!r}, sort={sort}, {kw}) raised {e!r}")
            return
        ctx.case(case, nontrivial=len(parts) >= 2, outcome=(tuple(len(p) for p in parts), sort))
        is_sorted = bool(pdf.index.is_monotonic_increasing)
        if sort and not is_sorted:
            # order among equal keys is unspecified -> index must be sorted, rows compared as a multiset
            if not whole.index.is_monotonic_increasing:
                ctx.violation(f"from_pandas:not-sorted{suffix}", case, f"sort=True but computed index {list(whole.index)!r} is not sorted")
                return
            why = rows_problem(whole, parts, pdf, ordered=False)
            cat = pd.concat([p for p in parts if len(p)]) if any(len(p) for p in parts) else whole
            if not why and list(cat.index) != list(whole.index):
                why = f"partitions are not in index order: {list(cat.index)!r}"
        else:
            why = rows_problem(whole, parts, pdf, ordered=True)
        if why:
            ctx.violation(f"from_pandas:wrong-rows{suffix}", case, f"from_pandas(index={list(pdf.index)!r}, sort={sort}, {kw}): {why}")
        return

    _, kind, A, seq, src = case[:5]
    pdf, d = make_source(kind, A, seq, src, ctx.seed)
    n_src = d.npartitions
    want = pdf
    refusal = None
    if fam == "div":
        b, force = case[5], case[6]
        bvals = _c4x.div_values(kind, b, A, ctx.seed)
        refusal = expected_refusal(src, b, force)
        call = f"repartition(divisions={list(bvals)!r}, force={force})"
        make = lambda: d.repartition(divisions=list(bvals), force=force)
    elif fam == "np":
        k, obj = case[5], case[6]
        call = f"repartition(npartitions={k})" + (" on series" if obj == "s" else "")
        if obj == "s":
            want = pdf["a"]
            make = lambda: d["a"].repartition(npartitions=k)
        else:
            make = lambda: d.repartition(npartitions=k)
    elif fam == "size":
        s = case[5]
        call = f"repartition(partition_size={s!r})"
        make = lambda: d.repartition(partition_size=s)
    else:
        raise ValueError(fam)
    where = f"index={list(pdf.index)!r}, source divisions={d.divisions!r} ({n_src} partitions): {call}"

    try:
        r = make()
        rdiv = tuple(r.divisions)
        rnp = r.npartitions
        whole, parts = compute_all(r)
    except Hang:
        raise
    except Exception as e:  # noqa: BLE001
        ctx.case(case, nontrivial=n_src >= 2, outcome=("exc", type(e).__name__, refusal is not None))
        if refusal is not None and isinstance(e, (ValueError, NotImplementedError)):
            ctx.count("rejected")
            return
        cls = dfh.classify_exc(e)
        if cls == "out_of_scope":
            ctx.count(cls)
            return
        ctx.violation(f"{fam}:dask-raises:{type(e).__name__}{suffix}", case, f"{where} raised {e!r}")
        return
    ctx.case(case, nontrivial=n_src >= 2 or len(parts) >= 2, outcome=(fam, tuple(len(p) for p in parts), rdiv[0] is None))
    if refusal is not None:
        ctx.count("refusal_expected_but_answered")  # not demanded by the statement; the answer is still judged below

    why = rows_problem(whole, parts, want, ordered=True)
    if why:
        ctx.violation(f"{fam}:wrong-rows{suffix}", case, f"{where}: {why}")
        return
    if fam == "div" and refusal is None:
        if tuple(rdiv) != tuple(bvals):
            ctx.violation(f"div:divisions-not-as-requested{suffix}", case, f"{where}: divisions {rdiv!r}")
            return
        bad = _c4x.truth_problem(len(bvals) - 1, bvals, parts)
        if bad:
            ctx.violation(f"div:layout-{bad[0]}{suffix}", case, f"{where}: {bad[1]}")
            return
    if fam == "np":
        if len(parts) > k:
            ctx.violation(f"np:more-partitions-than-requested{suffix}", case, f"{where}: {len(parts)} partitions")
        elif len(parts) < k:
            if src[0] == "k" and k > n_src:
                ctx.count("documented_fewer")
            else:
                ctx.violation(f"np:fewer-partitions-than-requested{suffix}", case, f"{where}: {len(parts)} partitions")


def run_shard(shard, ctx):
    for case in cases_of(shard, ctx.tier):
        if ctx.out_of_time():
            return
        ctx.guard(case, run_case, case, ctx)


def replay(case, ctx):
    run_case(case, ctx)
