"""C40 -- sorting, shuffling and de-duplication keep exactly the right rows (DESIGN 5/C40).  E4: exhaustive small scope.

One 6-row frame with key columns of every kind (int with duplicates, float with NaN, str with None, categorical, nullable
Int64 with NA) and a column of distinct values, cut into EVERY partitioning (from_delayed: empty partitions are real), then
the real dask shuffle / sort_values / set_index / drop_duplicates / unique / nunique, compared with pandas on the whole frame.
"""
from __future__ import annotations

import shutil
import tempfile

from mc import dfh  # FIRST: installs the pyarrow stand-in
from mc import enums
from mc.run import Hang

import numpy as np
import pandas as pd

import dask

ID = "C40"
LEVEL = "exploration"
WATCHDOG_S = 30.0
ASSUMPTIONS = [
    "sync scheduler; shuffle_method 'p2p' needs distributed and is not reachable here (tasks, disk and multi-stage tasks "
    "with max_branch=2 are enumerated); the disk shuffle spills into a private temporary directory that is removed",
    "the value column holds distinct integers (seed-chosen permutation), so every row is traceable",
    "NA keys (NaN / None / pd.NA) count as one key value for co-location, as they do for pandas' drop_duplicates/unique",
    "order of rows with EQUAL sort keys is not promised by pandas' default sort nor by dask: sort_values / set_index are "
    "compared as (exact sequence of the key columns / index) + (multiset of labelled rows); drop_duplicates / unique as "
    "multisets; shuffle output order is unspecified",
    "documented refusals are counted, never silent: NotImplementedError (multi-index set_index, keep=False)",
]

N = 6
KEYS = {
    "ki": [3, 1, 3, 2, 1, 3],
    "kf": [1.5, np.nan, 1.5, -2.0, np.nan, 0.0],
    "ks": ["b", "a", None, "b", "c", "a"],
    "kc": ["y", "x", "y", "z", "x", "y"],
    "kn": [2, None, 2, 1, None, 7],
    "kb": [True, False, True, True, False, False],
    "kt": [3, 1, 3, 2, 1, 3],  # days
    "ku": [4, 0, 5, 2, 1, 3],  # unique ints (a permutation)
    "kz": ["b", "a", "d", "b", "c", "a"],  # strings without nulls
}
INDEX = [5, 2, 9, 2, 7, 1]


def frame(seed):
    perm = np.random.RandomState(seed * 7919 + 5).permutation(N)
    df = pd.DataFrame(
        {
            "ki": np.array(KEYS["ki"], dtype="int64"),
            "kf": np.array(KEYS["kf"], dtype="float64"),
            "ks": pd.Series(KEYS["ks"], dtype=object).values,
            "kc": pd.Categorical(KEYS["kc"], categories=["z", "y", "x", "unused"]),
            "kn": pd.array(KEYS["kn"], dtype="Int64"),
            "kb": np.array(KEYS["kb"]),
            "kt": pd.Timestamp("2020-01-01") + pd.to_timedelta(KEYS["kt"], unit="D"),
            "ku": np.array(KEYS["ku"], dtype="int64"),
            "kz": pd.Series(KEYS["kz"], dtype=object).values,
            "v": (np.arange(N) + 100)[perm],
        },
        index=pd.Index(INDEX, name="i"),
    )
    return df


def _parts(tier):
    if tier == "quick":
        return list(enums.compositions_with_zeros(N, 3)) + [c for c in enums.compositions(N) if len(c) == 4]
    return list(enums.compositions_with_zeros(N, 4)) + [c for c in enums.compositions(N) if len(c) == 5]


def _chain_parts(tier):
    if tier == "quick":
        return list(enums.compositions_with_zeros(N, 2)) + [c for c in enums.compositions(N) if len(c) == 3]
    return _parts("quick")  # thorough: all <= 3 partitions incl. empty ones + 4-partition splits


METHODS = {"tasks": ("tasks", {}), "disk": ("disk", {}), "tasks-mb2": ("tasks", {"max_branch": 2}), "default": (None, {})}

# ---- per-operation parameter alphabets: (quick, thorough)
SHUFFLE_ON = {
    "quick": ("ki", "kf", "ks", "ki+ks", "@index"),
    "thorough": ("ki", "kf", "ks", "kc", "kn", "kb", "kt", "ki+ks", "kf+kn", "@index", "i", "i+ki", "@series"),
}
SHUFFLE_NOUT = {"quick": (None, 2, 4), "thorough": (None, 1, 2, 3, 4, 5)}
SHUFFLE_METHODS = ("tasks", "disk", "tasks-mb2")

SORT_BY = {
    "quick": ("ki", "kf", "ks", "kf+ki"),
    "thorough": ("ki", "kf", "ks", "kc", "kn", "kb", "kt", "ku", "kf+ki", "ki+ks", "ks+v"),
}
SORT_NOUT = {"quick": (None, 2), "thorough": (None, 1, 2, 4)}
SORT_METHODS = {"quick": ("tasks", "disk"), "thorough": ("tasks", "disk", "tasks-mb2")}

# set_index columns.  Not in the alphabet, a priori: "ks" (strings with None) -- dask states in its own error message that
# nulls in a non-numeric index column are unsupported ("Divisions calculation failed ... presence of nulls, which Dask does
# not entirely support in the index"); "kc" (UNORDERED categorical) -- it has no order: pandas' sort_index falls back to the
# category positions while dask refuses (min of an unordered categorical) or orders by label.  Numeric columns with nulls
# (kf, kn) stay in: dask says "for numeric types there shouldn't be problems with nulls".
SETIDX_COL = {"quick": ("ki", "kz", "ku", "kf"), "thorough": ("ki", "kf", "kz", "kn", "kt", "ku")}
SETIDX_MODES = {"quick": ("plain", "plain-n2", "nosort", "sorted", "divs"), "thorough": ("plain", "plain-n2", "plain-n4", "nosort", "sorted", "divs", "keepcol")}
SETIDX_METHODS = {"quick": ("tasks", "disk"), "thorough": ("tasks", "disk", "tasks-mb2")}

DEDUP_SUBSET = {
    "quick": ("@all", "ki", "@series-kf"),  # ki+ks: depth-2 chains (quick) and thorough
    "thorough": ("@all", "ki", "kf", "ks", "kn", "kc", "ki+ks", "kf+kn", "@series-kf", "@series-ks", "@series-ki"),
}
DEDUP_SPLIT = {"quick": (True, 1, 2), "thorough": (True, 1, 2, 3, 5)}
DEDUP_METHODS = ("tasks", "disk")

# depth-2 programs: a step that ESTABLISHES a hash partitioning on K1, then de-duplication on K2 (sub-, super-, equal or
# unrelated key set) -- dask may skip the second shuffle only when the recorded partitioning really co-locates K2
CHAIN_KEYS = ("ki", "ks", "ki+ks")
CHAIN_STEP1 = ("dedup", "shuffle", "shuffle+elem")  # drop_duplicates(subset=K1, split_out) | shuffle(K1) | shuffle(K1) then assign
CHAIN_NOUT1 = {"quick": (True, 2), "thorough": (True, 1, 2, 3)}  # split_out / npartitions of step 1 (True = keep count)
CHAIN_STEP2 = ("dedup:ki", "dedup:ks", "dedup:ki+ks", "unique:ki", "unique:ks", "nunique:ki", "nunique:ks")
CHAIN_STEP2_QUICK = ("dedup:ki", "dedup:ks", "dedup:ki+ks", "unique:ki", "nunique:ks")
CHAIN_SPLIT2 = (1, 2, 3)

UNIQUE_COL = {"quick": ("kf", "ks", "kc", "kn"), "thorough": ("ki", "kf", "ks", "kc", "kn", "kb", "kt", "ku")}
UNIQUE_SPLIT = {"quick": (True, 1, 2), "thorough": (True, 1, 2, 3, 5)}


def RULE(tier):
    return (
        f"one {N}-row frame (int/float+NaN/str+None/categorical/Int64+NA/bool/datetime keys with duplicates, unsorted index with "
        f"duplicates) x EVERY partitioning into <= {3 if tier == 'quick' else 4} partitions incl. empty ones plus all "
        f"{4 if tier == 'quick' else 5}-partition splits ({len(_parts(tier))} partitionings). "
        f"shuffle: on in {SHUFFLE_ON[tier]} x npartitions in {SHUFFLE_NOUT[tier]} x {SHUFFLE_METHODS} x ignore_index: every key value in "
        "exactly one output partition, row multiset preserved. "
        f"sort_values: by in {SORT_BY[tier]} x ascending x na_position x npartitions {SORT_NOUT[tier]} x {SORT_METHODS[tier]}"
        f"{' (+ multi-stage tasks for ki, also in set_index)' if tier == 'quick' else ''}: key-column sequence "
        "== pandas, rows == pandas as labelled multiset. "
        f"set_index: {SETIDX_COL[tier]} x drop x modes {SETIDX_MODES[tier]} (npartitions, sort=False, sorted=True on presorted input, user "
        f"divisions) x {SETIDX_METHODS[tier]}: index sequence == pandas set_index().sort_index(), rows as labelled multiset. "
        f"drop_duplicates: subset {DEDUP_SUBSET[tier]} x keep first/last x split_out {DEDUP_SPLIT[tier]} x {DEDUP_METHODS} x ignore_index; "
        f"unique / nunique(dropna): {UNIQUE_COL[tier]} x split_out {UNIQUE_SPLIT[tier]} x shuffle method; DataFrame.nunique. "
        f"depth-2 chains: {tuple(x for x in CHAIN_STEP1 if tier != 'quick' or x != 'shuffle')} on K1 in {CHAIN_KEYS} (split_out/npartitions {CHAIN_NOUT1[tier]}) then "
        f"{CHAIN_STEP2_QUICK if tier == 'quick' else CHAIN_STEP2} with split_out {CHAIN_SPLIT2}"
        f" over {len(_chain_parts(tier))} partitionings ({'<= 2 partitions incl. empty ones or exactly 3 non-empty' if tier == 'quick' else '<= 3 incl. empty ones or exactly 4 non-empty'}): "
        "surviving keys == pandas' chain, every kept row is an input row. "
        "non-trivial = >= 2 input partitions."
    )


# ------------------------------------------------------------------------------------------------ shards / cases
def shards(tier):
    out = []
    for on in SHUFFLE_ON[tier]:
        for m in SHUFFLE_METHODS:
            out.append(("shuffle", on, m))
    for by in SORT_BY[tier]:
        for m in SORT_METHODS[tier] + (("tasks-mb2",) if tier == "quick" and by == "ki" else ()):
            out.append(("sort", by, m))
    for col in SETIDX_COL[tier]:
        for m in SETIDX_METHODS[tier] + (("tasks-mb2",) if tier == "quick" and col == "ki" else ()):
            out.append(("setidx", col, m))
    for sub in DEDUP_SUBSET[tier]:
        for m in DEDUP_METHODS:
            out.append(("dedup", sub, m))
    for col in UNIQUE_COL[tier]:
        out.append(("unique", col))
    out.append(("nunique-frame",))
    for s1 in CHAIN_STEP1:
        if tier == "quick" and s1 == "shuffle":
            continue  # a bare shuffle under drop_duplicates/unique is optimised away (= the depth-1 cases): thorough only
        for k1 in CHAIN_KEYS:
            for n1 in CHAIN_NOUT1[tier]:
                out.append(("chain", s1, k1, n1))
    return out


def cases_of(shard, tier):
    P = _parts(tier)
    kind = shard[0]
    if kind == "shuffle":
        _, on, m = shard
        for parts in P:
            for nout in SHUFFLE_NOUT[tier]:
                for ign in (False, True):
                    yield ("shuffle", on, m, nout, ign, parts)
    elif kind == "sort":
        _, by, m = shard
        two = "+" in by
        for parts in P:
            ascs = (True, False, (True, False), (False, True)) if two else (True, False)
            if two and tier == "quick":
                ascs = (True, (True, False))
            for asc in ascs:
                for nap in ("last", "first"):
                    for nout in SORT_NOUT[tier]:
                        yield ("sort", by, m, asc, nap, nout, parts)
    elif kind == "setidx":
        _, col, m = shard
        for parts in P:
            for mode in SETIDX_MODES[tier]:
                for drop in (True, False):
                    if mode in ("nosort", "sorted") and m != "tasks":
                        continue  # no shuffle involved: enumerate once
                    yield ("setidx", col, m, mode, drop, parts)
    elif kind == "dedup":
        _, sub, m = shard
        for parts in P:
            for keep in ("first", "last"):
                for so in DEDUP_SPLIT[tier]:
                    for ign in (False, True):
                        yield ("dedup", sub, m, keep, so, ign, parts)
    elif kind == "unique":
        _, col = shard
        for parts in P:
            for so in UNIQUE_SPLIT[tier]:
                # default = tasks unless configured otherwise ("preferring order"): enumerated in the thorough tier only
                for m in ("tasks", "disk") if tier == "quick" else ("default", "tasks", "disk"):
                    yield ("unique", col, m, so, parts)
                for dropna in (True, False):
                    yield ("nunique", col, dropna, so, parts)
    elif kind == "nunique-frame":
        for parts in P:
            for dropna in (True, False):
                yield ("nunique-frame", dropna, parts)
    elif kind == "chain":
        _, s1, k1, n1 = shard
        for parts in _chain_parts(tier):
            for s2 in CHAIN_STEP2_QUICK if tier == "quick" else CHAIN_STEP2:
                for so in CHAIN_SPLIT2:
                    yield ("chain", s1, k1, n1, s2, so, parts)
    else:
        raise ValueError(kind)


# ------------------------------------------------------------------------------------------------ helpers
def _cols(name):
    return name.split("+")


def _keyrepr(df, cols, use_index=False):
    """hashable key per row; every NA spelling is the one key '~'"""
    src = [df.index] if use_index else []
    for c in cols:
        src.append(df.index if (c not in df.columns and c == df.index.name) else df[c])
    rows = zip(*[list(s) for s in src])
    return [tuple("~" if pd.isna(x) else repr(x) for x in r) for r in rows]


def _partitions(d):
    """all partitions from ONE optimized compute"""
    return list(dask.compute(*d.to_delayed()))


def _plain(ix):
    """RangeIndex and Index[int64] with the same labels are the same index"""
    return pd.Index(np.asarray(ix), name=ix.name) if isinstance(ix, pd.RangeIndex) else ix


def _seq_equal(got, want):
    """exact sequence equality of two Series/Index (values incl. NA positions, dtype, name)"""
    if isinstance(want, pd.Index):
        return dfh.equal(_plain(pd.Index(got)), _plain(want), ordered=True)
    return dfh.equal(got.reset_index(drop=True), want.reset_index(drop=True), ordered=True)


def _rows_equal(got, want, ordered=False, check_index=True):
    """labelled-row comparison; the index is renamed first (set_index(drop=False) leaves a column with the index' name,
    which pandas cannot reset_index) and RangeIndex is materialised"""
    if isinstance(want, (pd.DataFrame, pd.Series)) and isinstance(got, type(want)):
        if check_index and got.index.name != want.index.name:
            return f"index name {got.index.name!r} != {want.index.name!r}"
        got, want = got.copy(), want.copy()
        got.index = _plain(got.index).rename("__index__")
        want.index = _plain(want.index).rename("__index__")
    return dfh.equal(got, want, ordered=ordered, check_index=check_index)


def known_class(case, failure):
    """narrow input classes of recorded findings (C40.findings.json); appended to the finding key"""
    kind = case[0]
    if kind == "dedup" and failure == "wrong-representative" and case[2] == "disk":
        return "disk-shuffle"
    if kind == "chain":
        _, s1, k1, n1, s2, so, parts = case
        one_partition_after_step1 = n1 == 1 and n1 is not True or (n1 is True and len(parts) == 1)
        if failure == "dask-raises:AssertionError" and one_partition_after_step1 and so > 1 and s2.startswith("dedup:") and set(_cols(k1)) <= set(_cols(s2[6:])):
            return "split-out-on-single-hash-partition"
    if kind == "setidx":
        col, mode = case[1], case[3]
        if col in ("kf", "kn") and failure in ("not-sorted-like-pandas", "dask-raises:TypeError"):
            return "null-in-index"
        if mode.startswith("plain-n") and failure == "dask-raises:AssertionError":
            return "npartitions-vs-collapsed-divisions"
    return None


def _report(ctx, case, op, scen, failure, detail):
    sub = known_class(case, failure)
    key = f"{op}:{failure}:{sub}" if sub else f"{op}-{scen}:{failure}"
    ctx.violation(key, case, detail)


def _refusal(e):
    c = dfh.classify_exc(e)
    return c if c in ("rejected", "out_of_scope") else None


# ------------------------------------------------------------------------------------------------ evaluation
def plan(case, pdf):
    """-> (f_pd, f_dd, check, scenario).  f_pd: the pandas reference (may raise -> inapplicable); f_dd: ONLY dask calls
    (build, operation, compute) so that an exception from it is dask's; check(got, want) -> [(failure, detail)], outcome."""
    kind = case[0]
    if kind == "shuffle":
        _, on, m, nout, ign, parts = case
        method, opts = METHODS[m]

        def f_dd():
            d = dfh.build(pdf, parts)
            if on == "@index":
                kw = {"on_index": True}
            elif on == "@series":
                kw = {"on": d["ki"] % 2}
            else:
                kw = {"on": _cols(on) if "+" in on else on}
            s = d.shuffle(npartitions=nout, shuffle_method=method, ignore_index=ign, **kw, **opts)
            return s.npartitions, _partitions(s)

        def check(got, want):
            problems = []
            declared, ps = got
            allrows = pd.concat(ps) if ps else pdf.iloc[:0]
            # key of an output row = key of the INPUT row with the same (distinct) v: robust against ignore_index
            if on == "@series":
                allkeys = [(k,) for k in (pdf["ki"] % 2)]
            else:
                allkeys = _keyrepr(pdf, [] if on == "@index" else _cols(on), on == "@index")
            key_of = dict(zip(pdf["v"].tolist(), allkeys))
            seen = {}
            for pi, p in enumerate(ps):
                for k in {key_of.get(x, ("?", x)) for x in p["v"].tolist()}:
                    if k in seen and seen[k] != pi:
                        problems.append(("key-split", f"key {k} occurs in output partitions {seen[k]} and {pi}"))
                    seen[k] = pi
            why = _rows_equal(allrows, pdf, check_index=not ign)
            if why:
                problems.append(("rows-changed", why))
            return problems, (kind, on, len(ps), tuple(len(p) for p in ps))

        return (lambda: pdf), f_dd, check, on

    if kind == "sort":
        _, by, m, asc, nap, nout, parts = case
        method, opts = METHODS[m]
        bys = _cols(by)
        asc_arg = list(asc) if isinstance(asc, tuple) else asc

        def f_pd():
            return pdf.sort_values(bys, ascending=asc_arg, na_position=nap, kind="stable")

        def f_dd():
            d = dfh.build(pdf, parts)
            return d.sort_values(bys if len(bys) > 1 else by, ascending=asc_arg, na_position=nap, npartitions=nout, shuffle_method=method, **opts).compute()

        def check(got, want):
            problems = []
            for c in bys:
                why = _seq_equal(got[c], want[c])
                if why:
                    problems.append(("not-sorted-like-pandas", f"column {c}: {why}"))
                    break
            why = _rows_equal(got, want)
            if why:
                problems.append(("rows-changed", why))
            return problems, (kind, by, asc, nap, got.shape)

        return f_pd, f_dd, check, by

    if kind == "setidx":
        _, col, m, mode, drop, parts = case
        method, opts = METHODS[m]
        # sorted=True promises a presorted column
        src = pdf.sort_values(col, kind="stable") if mode == "sorted" else pdf
        if mode == "sorted":
            kw = {"sorted": True}
        elif mode == "nosort":
            kw = {"sort": False}
        elif mode.startswith("plain-n"):
            kw = {"npartitions": int(mode[7:]), "shuffle_method": method, **opts}
        elif mode == "divs":
            vals = sorted(set(v for v in src[col].tolist() if not pd.isna(v)))
            kw = {"divisions": [vals[0], vals[len(vals) // 2], vals[-1]], "shuffle_method": method, **opts}
        else:  # plain, keepcol
            kw = {"shuffle_method": method, **opts}

        def f_pd():
            want = src.set_index(col, drop=drop)
            if mode != "nosort":
                want = want.sort_index(kind="stable")
            return want[["v"]] if mode == "keepcol" else want

        def f_dd():
            s = dfh.build(src, parts).set_index(col, drop=drop, **kw)
            if mode == "keepcol":
                s = s[["v"]]
            return s.compute()

        def check(got, want):
            problems = []
            if mode == "nosort":
                why = _rows_equal(got, want, ordered=True)
                if why:
                    problems.append(("rows-changed", why))
            else:
                why = _seq_equal(got.index, want.index)
                if why:
                    problems.append(("not-sorted-like-pandas", why))
                why = _rows_equal(got, want)
                if why:
                    problems.append(("rows-changed", why))
            return problems, (kind, col, mode, drop, got.shape)

        return f_pd, f_dd, check, col

    if kind == "dedup":
        _, sub, m, keep, so, ign, parts = case
        method, opts = METHODS[m]
        if sub.startswith("@series-"):
            cols, src, kw = None, pdf[sub[len("@series-"):]], {}
        elif sub == "@all":
            cols, src, kw = ["ki", "ks"], pdf[["ki", "ks"]], {}
        else:
            cols = _cols(sub)
            src, kw = pdf[[c for c in pdf.columns if c in cols or c == "v"]], {"subset": cols}

        def f_pd():
            return src.drop_duplicates(keep=keep, ignore_index=ign, **kw)

        def f_dd():
            d = dfh.build(src, parts) if isinstance(src, pd.DataFrame) else dfh.build_series(src, parts)
            return d.drop_duplicates(keep=keep, split_out=so, shuffle_method=method, ignore_index=ign, **kw).compute()

        def check(got, want):
            problems = []
            why = _rows_equal(got, want, check_index=not ign)
            if why:
                # which keys survive vs which of the duplicates represents a key
                same_keys = False
                if isinstance(got, type(want)):
                    gk = got[cols] if cols else got
                    wk = want[cols] if cols else want
                    same_keys = dfh.equal(gk.reset_index(drop=True), wk.reset_index(drop=True), ordered=False, check_index=False) is None
                problems.append(("wrong-representative" if same_keys else "wrong-keys", why))
            return problems, (kind, sub, keep, got.shape)

        return f_pd, f_dd, check, sub

    if kind == "unique":
        _, col, m, so, parts = case
        method, _o = METHODS[m]

        def check(got, want):
            why = dfh.equal(got, want, ordered=False, check_index=False)
            return ([("values-differ", why)] if why else []), (kind, col, len(got))

        return (
            lambda: pd.Series(pdf[col].unique(), name=col),
            lambda: dfh.build(pdf, parts)[col].unique(split_out=so, shuffle_method=method).compute(),
            check,
            col,
        )

    if kind == "nunique":
        _, col, dropna, so, parts = case

        def check(got, want):
            ok = int(got) == int(want)
            return ([] if ok else [("wrong-count", f"{got!r} != {want!r}")]), (kind, col, dropna, int(got))

        return (
            lambda: pdf[col].nunique(dropna=dropna),
            lambda: dfh.build(pdf, parts)[col].nunique(dropna=dropna, split_out=so).compute(),
            check,
            col,
        )

    if kind == "nunique-frame":
        _, dropna, parts = case

        def check(got, want):
            why = dfh.equal(got, want, ordered=False)
            return ([("wrong-count", why)] if why else []), (kind, dropna)

        return (lambda: pdf.nunique(dropna=dropna)), (lambda: dfh.build(pdf, parts).nunique(dropna=dropna).compute()), check, "frame"

    if kind == "chain":
        _, s1, k1, n1, s2, so, parts = case
        K1 = _cols(k1)
        op2, k2 = s2.split(":")
        K2 = _cols(k2)
        src = pdf[["ki", "ks", "v"]]

        def step1_pd():
            if s1 == "dedup":
                return src.drop_duplicates(subset=K1)
            return src.assign(w=src["v"] + 1) if s1 == "shuffle+elem" else src

        def f_pd():
            r1 = step1_pd()
            if op2 == "dedup":
                return r1.drop_duplicates(subset=K2)
            if op2 == "unique":
                return pd.Series(r1[k2].unique(), name=k2)
            return r1[k2].nunique()

        def f_dd():
            d = dfh.build(src, parts)
            if s1 == "dedup":
                d1 = d.drop_duplicates(subset=K1, split_out=n1)
            else:
                d1 = d.shuffle(K1, npartitions=None if n1 is True else n1, shuffle_method="tasks")
                if s1 == "shuffle+elem":
                    d1 = d1.assign(w=d1["v"] + 1)
            if op2 == "dedup":
                return d1.drop_duplicates(subset=K2, split_out=so).compute()
            if op2 == "unique":
                return d1[k2].unique(split_out=so).compute()
            return d1[k2].nunique(split_out=so).compute()

        def check(got, want):
            problems = []
            if op2 == "dedup":
                # the row order after step 1 is unspecified, so WHICH duplicate represents a key in step 2 is not
                # demanded: the surviving keys must be pandas', and every kept row must be one of the input rows
                if not isinstance(got, pd.DataFrame) or list(got.columns) != list(want.columns):
                    problems.append(("wrong-keys", f"columns {list(getattr(got, 'columns', []))} != {list(want.columns)}"))
                else:
                    why = dfh.equal(got[K2].reset_index(drop=True), want[K2].reset_index(drop=True), ordered=False, check_index=False)
                    if why:
                        problems.append(("wrong-keys", why))
                    ok_rows = {tuple("~" if pd.isna(x) else repr(x) for x in r) for r in src.itertuples(index=False)}
                    bad = [r for r in got[["ki", "ks", "v"]].itertuples(index=False) if tuple("~" if pd.isna(x) else repr(x) for x in r) not in ok_rows]
                    if bad:
                        problems.append(("rows-invented", f"rows not in the input: {bad}"))
                outcome = (kind, s1, k1, s2, getattr(got, "shape", None))
            elif op2 == "unique":
                why = dfh.equal(got, want, ordered=False, check_index=False)
                if why:
                    problems.append(("values-differ", why))
                outcome = (kind, s1, k1, s2, len(got))
            else:
                if int(got) != int(want):
                    problems.append(("wrong-count", f"{got!r} != {want!r}"))
                outcome = (kind, s1, k1, s2, int(got))
            return problems, outcome

        return f_pd, f_dd, check, f"{s1}-{k1}-{s2}"

    raise ValueError(kind)


def run_case(case, ctx):
    kind = case[0]
    parts = case[-1]
    pdf = frame(ctx.seed)
    nontrivial = len(parts) >= 2
    f_pd, f_dd, check, scen = plan(case, pdf)
    try:
        want, p_exc = f_pd(), None
    except Exception as e:  # noqa: BLE001
        want, p_exc = None, e
    try:
        got, d_exc = f_dd(), None
    except Hang:
        raise
    except Exception as e:  # noqa: BLE001
        got, d_exc = None, e
    if p_exc is not None:
        # the reference itself refuses the call: dask may do anything (G4)
        ctx.case(case, nontrivial=nontrivial, outcome=(kind, scen, "pandas-raises"))
        ctx.count("both_raise" if d_exc is not None else "inapplicable")
        return
    if d_exc is not None:
        ctx.case(case, nontrivial=nontrivial, outcome=(kind, scen, type(d_exc).__name__))
        r = _refusal(d_exc)
        if r:
            ctx.count(r)
            return
        _report(ctx, case, kind, scen, f"dask-raises:{type(d_exc).__name__}", f"dask raised {d_exc!r}")
        return
    problems, outcome = check(got, want)  # harness code: an exception here surfaces as uncaught:*, never as dask's
    ctx.case(case, nontrivial=nontrivial, outcome=outcome)
    for failure, detail in problems[:1]:
        extra = "" if kind == "shuffle" else f"\n got:\n{got!r}\n want:\n{want!r}"
        _report(ctx, case, kind, scen, failure, f"{detail}{extra}")


def _with_tmpdir(fn):
    tmp = tempfile.mkdtemp(prefix="mc-c40-")
    try:
        with dask.config.set(temporary_directory=tmp):
            return fn()
    finally:
        shutil.rmtree(tmp, ignore_errors=True)


def run_shard(shard, ctx):
    def body():
        for case in cases_of(shard, ctx.tier):
            if ctx.out_of_time():
                return
            ctx.guard(case, run_case, case, ctx)

    _with_tmpdir(body)


def replay(case, ctx):
    _with_tmpdir(lambda: run_case(case, ctx))
