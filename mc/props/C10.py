"""C10 -- high-level graph culling, blockwise fusion and annotation fusion are sound (DESIGN 5/C10).  E4."""
from __future__ import annotations

import itertools

import numpy as np

from mc import enums
from mc.run import Hang

ID = "C10"
LEVEL = "exploration"
WATCHDOG_S = 60.0
MAXLEN = {"quick": 3, "thorough": 3}
ASSUMPTIONS = [
    "reference for values = NumPy on the same operation sequence; reference annotation merge = max / per-resource max / intersection / conjunction as the statement gives them",
    "the annotation of a fused layer is compared with the reference merge only when ALL annotated blockwise layers of the stack ended up in ONE fused layer (otherwise the grouping chosen by the optimizer is an implementation decision)",
]

PRIORITY = [None, -1, 0, 2]
RETRIES = [None, 0, 3]
RESOURCES = [None, {"a": 1}, {"a": 2, "b": 1}]
WORKERS = [None, ["w1"], ["w1", "w2"], ["w2"]]
ALLOW = [None, True, False]


def RULE(tier):
    return (
        "(a) _fuse_annotations on ALL ordered pairs (and all triples of a 24-element sub-alphabet) of the 432 annotation dicts over priority{-,-1,0,2} x retries{-,0,3} x "
        "resources{-,{a:1},{a:2,b:1}} x workers{-,[w1],[w1,w2],[w2]} x allow_other_workers{-,T,F}; (b) EVERY sequence of <= 3 blockwise steps from {elementwise, transpose, "
        "add a second root array, broadcast against a 1-block row, new axis, concatenate=True axis reduction, outer-product contraction} on (2,4) arrays with EVERY chunking "
        "(numblocks <= 2x2) and two root kinds (from_array, ones), annotated per step: optimize_blockwise + fuse_roots + full array optimisation must compute the NumPy values, "
        "and a fully fused stack carries the reference-merged annotations; (c) for each such graph and EVERY non-empty subset of output blocks: HighLevelGraph.cull keeps a graph that "
        "evaluates those blocks to the same values and each Blockwise layer's _cull_dependencies equals the dependencies of its materialised tasks. non-trivial = >= 2 blocks or >= 2 dicts with a shared key."
    )


def ann_dicts():
    out = []
    for p, r, res, w, al in itertools.product(PRIORITY, RETRIES, range(len(RESOURCES)), range(len(WORKERS)), ALLOW):
        d = {}
        if p is not None:
            d["priority"] = p
        if r is not None:
            d["retries"] = r
        if RESOURCES[res] is not None:
            d["resources"] = dict(RESOURCES[res])
        if WORKERS[w] is not None:
            d["workers"] = list(WORKERS[w])
        if al is not None:
            d["allow_other_workers"] = al
        out.append(d)
    return out


def ref_merge(ds):
    out = {}
    pr = [d["priority"] for d in ds if "priority" in d]
    if pr:
        out["priority"] = max(pr)
    rt = [d["retries"] for d in ds if "retries" in d]
    if rt:
        out["retries"] = max(rt)
    rs = [d["resources"] for d in ds if "resources" in d]
    if rs:
        m = {}
        for r in rs:
            for k, v in r.items():
                m[k] = max(m.get(k, v), v)
        out["resources"] = m
    ws = [set(d["workers"]) for d in ds if "workers" in d]
    if ws:
        out["workers"] = set.intersection(*ws)
    al = [d["allow_other_workers"] for d in ds if "allow_other_workers" in d]
    if al:
        out["allow_other_workers"] = all(al)
    return out


def norm_ann(d):
    d = dict(d or {})
    if "workers" in d:
        w = d["workers"]
        d["workers"] = set([w] if isinstance(w, str) else w)
    return d


def shards(tier):
    out = [("ann", i, 12) for i in range(12)]
    seqs = all_seqs(MAXLEN[tier])
    out += [("stack", i, 36) for i in range(36)]
    return out


# ------------------------------------------------------------------ (b)/(c) layer stacks
STEPS = ["ew", "tr", "add_root", "bcast", "newaxis", "reduce", "outer", "neg"]


def all_seqs(maxlen):
    out = []
    for L in range(1, maxlen + 1):
        out += list(itertools.product(STEPS, repeat=L))
    return out


def apply_np(step, x, aux):
    if step == "ew":
        return x + 1
    if step == "neg":
        return -x
    if step == "tr":
        return x.T if x.ndim >= 2 else None
    if step == "add_root":
        return x + aux(x.shape) if x.ndim == 2 else None
    if step == "bcast":
        return x + np.arange(x.shape[-1]).reshape((1,) * (x.ndim - 1) + (-1,)) if x.ndim >= 1 else None
    if step == "newaxis":
        return x[..., None] if x.ndim <= 2 else None
    if step == "reduce":
        return x.sum(axis=-1) if x.ndim >= 2 else None
    if step == "outer":
        return x[:, :, None] * x[:, None, :] if x.ndim == 2 and x.shape[1] <= 4 else None
    raise ValueError(step)


def apply_da(step, d, aux, root_kind):
    import dask.array as da

    if step == "ew":
        return d + 1
    if step == "neg":
        return -d
    if step == "tr":
        return d.T
    if step == "add_root":
        a = aux(d.shape)
        other = da.from_array(a, chunks=d.chunks) if root_kind == 0 else da.ones(d.shape, chunks=d.chunks, dtype=a.dtype) * 0 + da.from_array(a, chunks=d.chunks)
        return d + other
    if step == "bcast":
        row = np.arange(d.shape[-1]).reshape((1,) * (d.ndim - 1) + (-1,))
        return d + da.from_array(row, chunks=row.shape)
    if step == "newaxis":
        idx = "ijk"[: d.ndim]
        return da.blockwise(lambda b: b[..., None], idx + "z", d, idx, new_axes={"z": 1}, dtype=d.dtype)
    if step == "reduce":
        idx = "ijk"[: d.ndim]
        return da.blockwise(lambda b: b.sum(axis=-1), idx[:-1], d, idx, concatenate=True, dtype=d.dtype)
    if step == "outer":
        return da.blockwise(lambda a, b: a[:, :, None] * b[:, None, :], "ijk", d, "ij", d, "ik", dtype=d.dtype)
    raise ValueError(step)


ANN_CYCLE = [
    {"priority": -7, "retries": 0},
    {"priority": 0, "resources": {"a": 1}, "workers": ["w1", "w2"]},
    {"retries": 3, "resources": {"a": 2, "b": 1}, "workers": ["w2"], "allow_other_workers": False},
    {},
]


def run_stack(case, ctx):
    import dask
    import dask.array as da
    from dask.blockwise import Blockwise, fuse_roots, optimize_blockwise
    from dask.core import flatten

    _, seq, chunks, root_kind, annotate = case
    x = np.arange(1, 9).reshape(2, 4)

    def aux(shape):
        return np.arange(100, 100 + int(np.prod(shape))).reshape(shape)

    ref = x
    if root_kind == 0:
        d = da.from_array(x, chunks=chunks)
    else:
        d = da.ones((2, 4), chunks=chunks, dtype=x.dtype) * 0 + da.from_array(x, chunks=chunks)
    anns = []
    for si, step in enumerate(seq):
        ref = apply_np(step, ref, aux)
        if ref is None:
            ctx.count("inapplicable")
            return
        try:
            if annotate:
                a = ANN_CYCLE[si % len(ANN_CYCLE)]
                with dask.annotate(**a):
                    d = apply_da(step, d, aux, root_kind)
                anns.append(a)
            else:
                d = apply_da(step, d, aux, root_kind)
        except Hang:
            raise
        except Exception as e:  # noqa: BLE001
            ctx.case(case, nontrivial=True)
            ctx.violation(f"stack:build-raises:{type(e).__name__}:{step}", case, repr(e)[:300])
            return
    nblocks = int(np.prod(d.numblocks)) if d.ndim else 1
    ctx.case(case, nontrivial=nblocks >= 2, outcome=(seq, d.numblocks))
    keys = list(flatten(d.__dask_keys__()))

    def assemble(vals):
        grid = np.empty(d.numblocks, dtype=object)
        for idx, v in zip(itertools.product(*[range(k) for k in d.numblocks]), vals):
            grid[idx] = np.asarray(v)
        return np.block(grid.tolist()) if d.ndim else np.asarray(vals[0])

    # unfused reference through dask itself, then the optimisation passes
    variants = {}
    try:
        variants["unoptimized"] = dask.get(dict(d.dask), keys)
        ob = optimize_blockwise(d.dask, keys=keys)
        variants["optimize_blockwise"] = dask.get(dict(ob), keys)
        fr = fuse_roots(ob, keys=keys)
        variants["fuse_roots"] = dask.get(dict(fr), keys)
        variants["array-optimize"] = dask.get(dict(d.__dask_optimize__(d.dask, d.__dask_keys__())), keys)
    except Hang:
        raise
    except Exception as e:  # noqa: BLE001
        ctx.violation(f"stack:optimized-graph-fails:{type(e).__name__}", case, f"after {sorted(variants)}: {e!r}"[:400])
        return
    for name, vals in variants.items():
        got = assemble(vals)
        if got.shape != ref.shape or not np.array_equal(got, ref):
            ctx.violation(f"stack:wrong-value:{name}", case, f"{got!r} != {ref!r}"[:400])
            return
    # annotations of a fully fused stack
    if annotate:
        bw_before = [l for l in d.dask.layers.values() if isinstance(l, Blockwise) and l.annotations]
        bw_after = [l for l in fr.layers.values() if isinstance(l, Blockwise)]
        all_before = [l for l in d.dask.layers.values() if isinstance(l, Blockwise)]
        if len(bw_after) == 1 and len(all_before) >= 2 and len(fr.layers) <= 2 and bw_before:
            want = ref_merge([norm_ann(l.annotations) for l in bw_before])
            got = norm_ann(bw_after[0].annotations)
            ctx.count("fused_annotation_checks")
            if got != want:
                ctx.violation("stack:fused-annotations", case, f"fused layer annotations {got!r}, reference merge {want!r}")
                return
    # (c) culling: every non-empty subset of output blocks
    hlg = d.dask
    nsub = 0
    for r in range(1, len(keys) + 1):
        for sub in itertools.combinations(range(len(keys)), r):
            nsub += 1
            sk = [keys[i] for i in sub]
            try:
                culled = hlg.cull(set(sk))
                vals = dask.get(dict(culled), sk)
            except Hang:
                raise
            except Exception as e:  # noqa: BLE001
                ctx.violation(f"cull:raises:{type(e).__name__}", case, f"keys {sk}: {e!r}"[:300])
                return
            for i, v in zip(sub, vals):
                if not np.array_equal(np.asarray(v), np.asarray(variants["unoptimized"][i])):
                    ctx.violation("cull:wrong-value", case, f"block {keys[i]} after cull to {sk}")
                    return
    ctx.count("cull_subsets", nsub)
    for name, layer in hlg.layers.items():
        if not isinstance(layer, Blockwise):
            continue
        out_keys = [k for k in layer.get_output_keys()]
        mat = dict(layer)
        for r in (1, len(out_keys)):
            for sub in itertools.combinations(out_keys, r):
                blocks = {k[1:] for k in sub}
                try:
                    deps = layer._cull_dependencies(blocks)
                except Hang:
                    raise
                except Exception as e:  # noqa: BLE001
                    ctx.violation(f"cull_dependencies:raises:{type(e).__name__}", case, repr(e)[:300])
                    return
                for k in sub:
                    t = mat[k]
                    real = {dk for dk in getattr(t, "dependencies", ()) if dk not in mat}
                    got = set(deps.get(k, ()))
                    if got != real:
                        ctx.violation("cull_dependencies:differs-from-materialized", case, f"layer {name} key {k}: _cull_dependencies {sorted(map(repr, got))} materialised {sorted(map(repr, real))}")
                        return


def stack_cases(tier):
    out = []
    chunkings = list(enums.chunkings((2, 4)))
    chunkings = [c for c in chunkings if len(c[0]) <= 2 and len(c[1]) <= 2]
    for seq in all_seqs(MAXLEN[tier]):
        for ch in chunkings:
            for root_kind in (0, 1):
                for annotate in (True, False):
                    if len(seq) == 3 and (root_kind == 1 and not annotate):
                        continue
                    out.append(("stack", seq, ch, root_kind, annotate))
    return out


def run_shard(shard, ctx):
    from dask.blockwise import _fuse_annotations

    kind, part, nparts = shard
    if kind == "ann":
        ds = ann_dicts()
        for i, a in enumerate(ds):
            if i % nparts != part:
                continue
            for j, b in enumerate(ds):
                case = ("ann", i, j)
                ctx.case(case, nontrivial=bool(set(a) & set(b)))
                try:
                    got = norm_ann(_fuse_annotations(dict(a), dict(b)))
                except Hang:
                    raise
                except Exception as e:  # noqa: BLE001
                    ctx.violation(f"ann:raises:{type(e).__name__}", case, f"{a!r} {b!r}: {e!r}")
                    continue
                want = ref_merge([norm_ann(a), norm_ann(b)])
                if got != want:
                    bad = sorted(k for k in set(got) | set(want) if got.get(k) != want.get(k))
                    ctx.violation(f"ann:wrong-merge:{'+'.join(bad)}", case, f"_fuse_annotations({a!r}, {b!r}) = {got!r}, reference {want!r}")
            if i % 18 == 0:
                sub = ds[::18]
                for b, c in itertools.product(sub, repeat=2):
                    case = ("ann3", i, ds.index(b), ds.index(c))
                    ctx.case(case, nontrivial=True)
                    got = norm_ann(_fuse_annotations(dict(a), dict(b), dict(c)))
                    want = ref_merge([norm_ann(a), norm_ann(b), norm_ann(c)])
                    if got != want:
                        ctx.violation("ann:wrong-merge:triple", case, f"{a!r} {b!r} {c!r} -> {got!r} vs {want!r}")
        return
    for i, case in enumerate(stack_cases(ctx.tier)):
        if i % nparts != part:
            continue
        if ctx.out_of_time():
            return
        ctx.guard(case, run_stack, case, ctx)


def replay(case, ctx):
    from dask.blockwise import _fuse_annotations

    if case[0] == "stack":
        run_stack(case, ctx)
    elif case[0] == "ann":
        ds = ann_dicts()
        a, b = ds[case[1]], ds[case[2]]
        got = norm_ann(_fuse_annotations(dict(a), dict(b)))
        want = ref_merge([norm_ann(a), norm_ann(b)])
        if got != want:
            bad = sorted(k for k in set(got) | set(want) if got.get(k) != want.get(k))
            ctx.violation(f"ann:wrong-merge:{'+'.join(bad)}", case, f"{got!r} vs {want!r}")
    else:
        ds = ann_dicts()
        a, b, c = ds[case[1]], ds[case[2]], ds[case[3]]
        if norm_ann(_fuse_annotations(dict(a), dict(b), dict(c))) != ref_merge([norm_ann(a), norm_ann(b), norm_ann(c)]):
            ctx.violation("ann:wrong-merge:triple", case, "")
