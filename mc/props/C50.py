"""C50 -- block-wise reading (read_bytes / bag.read_text) reproduces the file exactly (DESIGN 5/C50).

E4: exhaustive small scope.  Every file content over a 3-letter alphabet up to a length bound x every delimiter of a
small set (single, self-overlapping, two-letter, newline family, 2-byte unicode) x EVERY blocksize 1..len+1 (and
None) x 1-3 files x files_per_partition x include_path, on the real dask.bytes.read_bytes and dask.bag.read_text,
files living in fsspec's memory:// filesystem.  Reference: bytes.join / str.split.
"""
from __future__ import annotations

import itertools

from mc import enums
from mc.run import Hang

ID = "C50"
LEVEL = "exploration"
WATCHDOG_S = 20.0
# length bounds: custom-delimiter alphabet, newline alphabet, unicode alphabet (characters), mixed custom+newline alphabet
LMAX = {"quick": (6, 6, 5, 5), "thorough": (8, 8, 7, 6)}
ASSUMPTIONS = [
    "sync scheduler; files live in fsspec memory:// (nothing touches disk); read_bytes/read_block only use size, seek, read and tell of the opened file, which memory:// files (BytesIO) implement like local files",
    "linedelimiter='' is not a delimiter and is outside the alphabet; linedelimiter=None means Python universal newlines "
    "(reference: translate \\r\\n and \\r to \\n, then split after \\n)",
    "line ORDER is checked (file order, then position in the file): read_text documents one partition per file/block in order",
    "read_bytes options not named by the statement (not_zero, sample, compression) are not exercised",
]

CUSTOM_DELIMS = ("d", "dd", "de")
NEWLINE_DELIMS = (None, "\n", "\r\n", "\r")
UNI_DELIMS = ("d", "é", "éd")
MULTI_DELIMS = ("d", "dd")
MIXED_DELIMS = ("d", "dd", "d\n")  # custom (non-newline-family) delimiters over contents that ALSO contain \r and \n


def RULE(tier):
    a, b, c, m = LMAX[tier]
    return (
        f"read_bytes: every content over {{x,d,e}} of length 0..{a} x delimiter in {{None,d,dd,de}} x EVERY blocksize 1..len+1 and None; "
        f"every pair of contents over {{x,d}} of length <= 3 x {{d,dd}} x blocksize None,1..4 x include_path: blocks of each file concatenate to its "
        "content, every internal boundary p has data[:p].endswith(delimiter), paths reported in order.  "
        f"read_text: the same contents x linedelimiter {{d,dd,de}} x blocksize None,1..len+1 x include_path; contents over {{x,\\n,\\r}} of length "
        f"0..{b} x linedelimiter {{None,\\n,\\r\\n,\\r}}; contents over {{x,e-acute,d}} of 0..{c} characters (utf-8, blocksizes in bytes) x "
        f"linedelimiter {{d, e-acute, e-acute+d}}; contents over {{x,d,\\r,\\n}} of length 0..{m} x custom linedelimiter {{d, dd, d\\n}} x blocksize "
        "None,1..len+1 (newline characters inside a custom-delimited file are data) and every pair of such contents of length <= 2 x "
        "{d} x (blocksize None,2 | files_per_partition 1,2) x include_path; every pair (length <= 3) and triple (length <= 2) of contents over {x,d} x {d,dd} x "
        "(blocksize None,1..4 | files_per_partition 1,2,3) x include_path.  Oracle: the computed list equals, file by file, "
        "[p+delim for p in parts[:-1]] + ([parts[-1]] if parts[-1] else []) with parts = text.split(delim). "
        "non-trivial = >= 2 blocks/partitions, or >= 2 expected lines."
    )


# ---------------------------------------------------------------------------------------------- enumeration
def _strings(alphabet, maxlen):
    return ["".join(t) for t in enums.strings(alphabet, maxlen)]


def shards(tier):
    out = []
    a, b, c, m = LMAX[tier]
    n_big = 24 if tier == "quick" else 48
    for delim in (None,) + CUSTOM_DELIMS:
        for part in range(4):
            out.append(("rb1", delim, part, 4))
    for delim in CUSTOM_DELIMS:
        for part in range(n_big // 3):
            out.append(("rtA", delim, part, n_big // 3))
    for delim in NEWLINE_DELIMS:
        for part in range(4):
            out.append(("rtB", delim, part, 4))
    for delim in UNI_DELIMS:
        for part in range(2):
            out.append(("rtC", delim, part, 2))
    for delim in MIXED_DELIMS:
        for part in range(4 if tier == "quick" else 8):
            out.append(("rtD", delim, part, 4 if tier == "quick" else 8))
    out.append(("rtDM", "d", 0, 1))
    for delim in MULTI_DELIMS:
        out.append(("rbM", delim, 0, 1))
        for part in range(4):
            out.append(("rtM2", delim, part, 4))
            out.append(("rtM3", delim, part, 4))
    # simplest first: sort by kind-independent part number so that early shards of every kind start together
    return out


def cases_of(shard, tier):
    kind, delim, part, nparts = shard
    a, b, c, m = LMAX[tier]
    if kind == "rb1":
        for i, s in enumerate(_strings("xde", a)):
            if i % nparts != part:
                continue
            for bs in [None] + list(range(1, len(s) + 2)):
                yield ("rb", (s,), delim, bs, False)
    elif kind == "rtA":
        for i, s in enumerate(_strings("xde", a)):
            if i % nparts != part:
                continue
            for bs in [None] + list(range(1, len(s) + 2)):
                for ip in (False, True):
                    yield ("rt", (s,), delim, bs, None, ip)
    elif kind == "rtB":
        for i, s in enumerate(_strings("x\n\r", b)):
            if i % nparts != part:
                continue
            for bs in [None] + list(range(1, len(s) + 2)):
                yield ("rt", (s,), delim, bs, None, False)
    elif kind == "rtC":
        for i, s in enumerate(_strings("xéd", c)):
            if i % nparts != part:
                continue
            nb = len(s.encode("utf-8"))
            for bs in [None] + list(range(1, nb + 2)):
                yield ("rt", (s,), delim, bs, None, False)
    elif kind == "rtD":
        for i, s in enumerate(_strings("xd\r\n", m)):
            if i % nparts != part:
                continue
            for bs in [None] + list(range(1, len(s) + 2)):
                yield ("rt", (s,), delim, bs, None, False)
    elif kind == "rtDM":
        ss = _strings("xd\r\n", 2)
        for pair in itertools.product(ss, repeat=2):
            for bs, fpp in [(None, None), (2, None), (None, 1), (None, 2)]:
                for ip in (False, True):
                    yield ("rt", pair, delim, bs, fpp, ip)
    elif kind == "rbM":
        ss = _strings("xd", 3)
        for pair in itertools.product(ss, repeat=2):
            for bs in (None, 1, 2, 3, 4):
                for ip in (False, True):
                    yield ("rb", pair, delim, bs, ip)
    elif kind in ("rtM2", "rtM3"):
        if kind == "rtM2":
            files = itertools.product(_strings("xd", 3), repeat=2)
        else:
            files = itertools.product(_strings("xd", 2), repeat=3)
        for i, fs_ in enumerate(files):
            if i % nparts != part:
                continue
            for bs, fpp in [(None, None), (1, None), (2, None), (3, None), (4, None), (None, 1), (None, 2), (None, 3)]:
                for ip in (False, True):
                    yield ("rt", tuple(fs_), delim, bs, fpp, ip)
    else:
        raise ValueError(kind)


# ---------------------------------------------------------------------------------------------- reference
def ref_lines(text, delim):
    """the file split after each delimiter, no empty trailing element"""
    if delim is None:  # universal newlines
        text = text.replace("\r\n", "\n").replace("\r", "\n")
        delim = "\n"
    parts = text.split(delim)
    return [p + delim for p in parts[:-1]] + ([parts[-1]] if parts[-1] else [])


def overlapping_occurrences(text, delim):
    """True iff two occurrences of delim in text overlap (only possible for a self-overlapping delimiter)"""
    if delim is None:
        return False
    occ = [i for i in range(len(text) - len(delim) + 1) if text.startswith(delim, i)]
    return any(0 < j - i < len(delim) for i, j in zip(occ, occ[1:]))


# ---------------------------------------------------------------------------------------------- execution
_FS = None


def _put(contents):
    """write the contents to memory://c50/f<i>.txt; return (urls, bare paths)"""
    global _FS
    import fsspec

    if _FS is None:
        _FS = fsspec.filesystem("memory")
    base = "/c50"  # per-process store: workers are forked, fsspec memory:// is process-local
    urls, paths = [], []
    for i, s in enumerate(contents):
        p = f"{base}/f{i}.txt"
        _FS.pipe(p, s.encode("utf-8"))
        urls.append("memory://" + p)
        paths.append(p)
    return urls, paths


def run_rb(case, ctx):
    import dask
    from dask.bytes import read_bytes

    _, contents, delim, bs, include_path = case
    urls, paths = _put(contents)
    datas = [s.encode("utf-8") for s in contents]
    bdelim = None if delim is None else delim.encode("utf-8")
    try:
        out = read_bytes(urls, delimiter=bdelim, blocksize=bs, sample=False, include_path=include_path)
        blocks = out[1]
        got_paths = out[2] if include_path else None
        flat = [b for f in blocks for b in f]
        vals = dask.compute(*flat, scheduler="sync") if flat else ()
    except Hang:
        raise
    except Exception as e:  # noqa: BLE001
        ctx.case(case, nontrivial=False, outcome=("exc", type(e).__name__))
        ctx.violation(f"read_bytes:dask-raises:{type(e).__name__}", case, repr(e))
        return
    it = iter(vals)
    per_file = [[next(it) for _ in f] for f in blocks]
    nblocks = sum(len(f) for f in per_file)
    ctx.case(case, nontrivial=nblocks >= 2, outcome=tuple(tuple(len(b) for b in f) for f in per_file))
    if len(per_file) != len(datas):
        ctx.violation("read_bytes:wrong-file-count", case, f"{len(per_file)} block lists for {len(datas)} files")
        return
    if include_path and [p.lstrip("/") for p in got_paths] != [p.lstrip("/") for p in paths]:
        ctx.violation("read_bytes:wrong-paths", case, f"paths {got_paths!r}, expected {paths!r}")
    for data, bl in zip(datas, per_file):
        if any(not isinstance(b, bytes) for b in bl):
            ctx.violation("read_bytes:not-bytes", case, repr(bl))
            return
        if b"".join(bl) != data:
            ctx.violation("read_bytes:blocks-do-not-concatenate", case, f"blocks {bl!r} for content {data!r}")
            return
        if bdelim is not None:
            p = 0
            for b in bl[:-1]:
                p += len(b)
                if p not in (0, len(data)) and not data[:p].endswith(bdelim):
                    ctx.violation("read_bytes:boundary-not-after-delimiter", case, f"blocks {bl!r}: boundary at {p} of {data!r}")
                    return
        if bs is None and len(bl) != 1:
            ctx.violation("read_bytes:blocksize-none-not-one-block", case, repr(bl))
            return


def known_class(case, got, want):
    """narrow (failure class, input class) pairs of the recorded findings -- see C50.findings.json"""
    _, contents, delim, bs, fpp, ip = case
    custom = delim not in (None, "", "\n", "\r", "\r\n")
    if got is None:
        return None
    strip = lambda xs: [x for x in xs if (x[0] if ip else x) != ""]
    if bs is None and custom and any(s and s.endswith(delim) for s in contents) and got != want and strip(got) == want:
        return "extra-empty-line", "blocksize-none-file-ends-with-delimiter"
    if bs is not None and custom and any(overlapping_occurrences(s, delim) for s in contents):
        return "wrong-lines", "blocksize-and-overlapping-delimiter-occurrences"
    if bs is not None and delim in ("\r", "\r\n") and any("\n" in s for s in contents):
        return "wrong-lines", "blocksize-and-cr-delimiter-and-lf-in-text"
    return None


def run_rt(case, ctx):
    from dask.bag.text import read_text

    _, contents, delim, bs, fpp, include_path = case
    urls, paths = _put(contents)
    want = []
    for s, p in zip(contents, paths):
        for ln in ref_lines(s, delim):
            want.append((ln, p) if include_path else ln)
    npart = None
    try:
        b = read_text(urls, blocksize=bs, linedelimiter=delim, files_per_partition=fpp, include_path=include_path, encoding="utf-8")
        npart = b.npartitions
        got = b.compute(scheduler="sync")
    except Hang:
        raise
    except Exception as e:  # noqa: BLE001
        ctx.case(case, nontrivial=False, outcome=("exc", type(e).__name__))
        if isinstance(e, ValueError) and bs is not None and not any(contents) and e.args and e.args[0] == "No files found":
            ctx.violation("read_text:dask-raises:ValueError:blocksize-and-all-files-empty", case, f"{e!r}; expected []")
        else:
            ctx.violation(f"read_text:dask-raises:{type(e).__name__}", case, f"{e!r}; expected {want!r}")
        return
    if include_path:
        got = [(g[0], "/" + g[1].lstrip("/")) if isinstance(g, tuple) and len(g) == 2 and isinstance(g[1], str) else g for g in got]
    ctx.case(case, nontrivial=npart >= 2 or len(want) >= 2, outcome=(npart, tuple(len(w[0] if include_path else w) for w in want)))
    if got == want:
        if fpp is not None and npart != -(-len(contents) // fpp):
            ctx.violation("read_text:files-per-partition-ignored", case, f"npartitions={npart} for {len(contents)} files, files_per_partition={fpp}")
        return
    kc = known_class(case, got, want)
    if kc is not None:
        ctx.violation(f"read_text:{kc[0]}:{kc[1]}", case, f"got {got!r}, expected {want!r}")
    elif sorted(map(repr, got)) == sorted(map(repr, want)):
        ctx.violation("read_text:wrong-order", case, f"got {got!r}, expected {want!r}")
    else:
        ctx.violation("read_text:wrong-lines", case, f"got {got!r}, expected {want!r}")


def run_case(case, ctx):
    if case[0] == "rb":
        run_rb(case, ctx)
    else:
        run_rt(case, ctx)


def run_shard(shard, ctx):
    for case in cases_of(shard, ctx.tier):
        if ctx.out_of_time():
            return
        ctx.guard(case, run_case, case, ctx)


def replay(case, ctx):
    run_case(case, ctx)
