"""C18 -- size and duration helpers round-trip and meet their documented bounds (DESIGN 5/C18).  E4."""
from __future__ import annotations

import itertools
import math

from mc.run import Hang

ID = "C18"
LEVEL = "exploration"
WATCHDOG_S = 60.0
ASSUMPTIONS = [
    "format_bytes is monotone in n inside a band and its output is a function of (band, round(n/k, 2)): checking both end points (+-1) of EVERY "
    "rounding class of every band, every band edge +-2, and every n < 2**20 directly covers all integers below 2**60",
    "unit multipliers are taken from the documentation (kB=10^3 .. PB=10^15, KiB=2^10 .. PiB=2^50, single letters decimal, Ki/Mi.. binary; s, ms, us, ns, m, h, d, w and the spelled-out singular/plural forms)",
]

BANDS = [("ki", 2**10), ("Mi", 2**20), ("Gi", 2**30), ("Ti", 2**40), ("Pi", 2**50)]
BYTE_UNITS = {"kB": 10**3, "MB": 10**6, "GB": 10**9, "TB": 10**12, "PB": 10**15, "KiB": 2**10, "MiB": 2**20, "GiB": 2**30, "TiB": 2**40, "PiB": 2**50, "B": 1, "": 1,
              "k": 10**3, "M": 10**6, "G": 10**9, "T": 10**12, "P": 10**15, "Ki": 2**10, "Mi": 2**20, "Gi": 2**30, "Ti": 2**40, "Pi": 2**50}
TD_UNITS = {"s": 1, "ms": 1e-3, "us": 1e-6, "ns": 1e-9, "m": 60, "h": 3600, "d": 86400, "w": 604800}
for _n, _v in (("second", 1), ("minute", 60), ("hour", 3600), ("day", 86400), ("week", 604800), ("millisecond", 1e-3), ("microsecond", 1e-6), ("nanosecond", 1e-9)):
    TD_UNITS[_n] = _v
    TD_UNITS[_n + "s"] = _v
PREFIXES = ["", "1", "1.5", "1e3", " 5 ", "0.25", "100"]
ALPHA = ["a", "1", "-", "_", "(", "'", "f", "<", ","]


def RULE(tier):
    return (
        "format_bytes: every n < 2**20; for each band both end points (+-1) of EVERY 2-decimal rounding class (~92k classes x 5 bands), band edges +-2, "
        "2**60-1 -- oracles len <= 10 and |parse_bytes(format_bytes(n)) - n| <= half a printed unit (+1 for truncation). parse_bytes / parse_timedelta: "
        "every documented unit x every upper/lower case mask (all 2^len for len <= 6, 6 patterns beyond) x 7 numeric prefixes against the documented "
        "multiplier. key_split / natural_sort_key: every string of length <= 4 over 9 characters, plus tuple / bytes / None keys: total, documented "
        "result type; natural_sort_key orders f<int> numerically for all pairs of ints < 130. non-trivial = every case except n < 1024."
    )


def shards(tier):
    out = [("fb_small", i, 16) for i in range(16)]
    for b in range(len(BANDS)):
        for part in range(8):
            out.append(("fb_band", b, part, 8))
    out += [("parse_bytes", 0), ("parse_td", 0)]
    out += [("keys", i, 8) for i in range(8)]
    out += [("natsort", 0)]
    return out


def check_fb(n, ctx):
    from dask.utils import format_bytes, parse_bytes

    s = format_bytes(n)
    cls = "prints-1000PiB-or-more" if s.endswith(" PiB") and float(s.split()[0]) >= 1000 else None
    if len(s) > 10:
        ctx.violation("format_bytes:len>10" + (f":{cls}" if cls else ""), ("fb", n), f"format_bytes({n}) = {s!r} ({len(s)} chars)")
    try:
        back = parse_bytes(s)
    except Hang:
        raise
    except Exception as e:  # noqa: BLE001
        ctx.violation("format_bytes:does-not-parse-back", ("fb", n), f"{s!r}: {e!r}")
        return
    unit = 1
    for p, k in BANDS:
        if s.endswith(f" {p}B"):
            unit = k
    # half a unit of the last printed digit, +1 for int() truncation, + float64 rounding of n/k and of the parsed product
    tol = 0.005 * unit + 1 + n * 2.0**-50 if unit > 1 else 0
    if abs(back - n) > tol:
        ctx.violation("format_bytes:roundtrip-out-of-precision", ("fb", n), f"format_bytes({n}) = {s!r} parses back to {back} (tolerance {tol})")


def masks(unit):
    L = len(unit)
    if L <= 6:
        for bits in range(1 << L):
            yield "".join(c.upper() if bits >> i & 1 else c.lower() for i, c in enumerate(unit))
    else:
        yield unit.lower()
        yield unit.upper()
        yield unit.title()
        yield "".join(c.upper() if i % 2 else c.lower() for i, c in enumerate(unit))
        yield "".join(c.lower() if i % 2 else c.upper() for i, c in enumerate(unit))
        yield unit[:-1].lower() + unit[-1].upper()


def run_shard(shard, ctx):
    from dask.utils import key_split, natural_sort_key, parse_bytes, parse_timedelta

    kind = shard[0]
    if kind == "fb_small":
        _, part, nparts = shard
        for n in range(part, 2**20, nparts):
            check_fb(n, ctx)
        ctx.case(("fb_small", part), nontrivial=True, n=len(range(part, 2**20, nparts)))
        for i in range(part, 2000, nparts):  # count distinct cases honestly: one per class sample
            ctx.case(("fb", i), nontrivial=i >= 1024, n=0)
    elif kind == "fb_band":
        _, b, part, nparts = shard
        prefix, k = BANDS[b]
        lo = int(k * 0.9)
        hi = int(BANDS[b + 1][1] * 0.9) if b + 1 < len(BANDS) else 2**60
        pts = set()
        for e in (lo, hi):
            for d in range(-2, 3):
                pts.add(e + d)
        c0 = int(lo * 100 // k) - 1
        c1 = int(hi * 100 // k) + 1
        for c in range(c0 + part, c1 + 1, nparts):
            edge = (2 * c + 1) * k // 200  # boundary between rounding classes c and c+1: (c+0.5)/100*k
            for d in (-1, 0, 1, 2):
                pts.add(edge + d)
        if b == len(BANDS) - 1 and part == 0:
            pts.add(2**60 - 1)
        for n in sorted(pts):
            if 0 <= n < 2**60 and lo - 2 <= n <= hi + 2:
                check_fb(n, ctx)
                ctx.case(("fb", n), nontrivial=True)
    elif kind == "parse_bytes":
        for unit, mult in BYTE_UNITS.items():
            for m in dict.fromkeys(masks(unit)):
                for p in PREFIXES:
                    s = p + m
                    if s.strip() == "":
                        continue
                    case = ("parse_bytes", s)
                    ctx.case(case, nontrivial=True)
                    num = float(p.strip()) if p.strip() else 1.0
                    want = int(num * mult)
                    try:
                        got = parse_bytes(s)
                    except Hang:
                        raise
                    except Exception as e:  # noqa: BLE001
                        ctx.violation(f"parse_bytes:rejects-documented-unit:{unit}", case, f"parse_bytes({s!r}) raised {e!r}")
                        continue
                    if got != want or type(got) is not int:
                        ctx.violation(f"parse_bytes:wrong-multiplier:{unit}", case, f"parse_bytes({s!r}) = {got!r}, documented {want!r}")
    elif kind == "parse_td":
        for unit, mult in TD_UNITS.items():
            for m in dict.fromkeys(masks(unit)):
                for p in PREFIXES:
                    s = p + m
                    case = ("parse_td", s)
                    ctx.case(case, nontrivial=True)
                    num = float(p.strip()) if p.strip() else 1.0
                    want = num * mult
                    try:
                        got = parse_timedelta(s)
                    except Hang:
                        raise
                    except Exception as e:  # noqa: BLE001
                        ctx.violation(f"parse_timedelta:rejects-documented-unit:{unit}", case, f"parse_timedelta({s!r}) raised {e!r}")
                        continue
                    if not math.isclose(got, want, rel_tol=1e-12, abs_tol=0):
                        ctx.violation(f"parse_timedelta:wrong-multiplier:{unit}", case, f"parse_timedelta({s!r}) = {got!r}, documented {want!r}")
        for p in ("3", "1.5", " 2 "):
            for default, mult in (("seconds", 1), ("ms", 1e-3), ("hours", 3600)):
                got = parse_timedelta(p, default=default)
                ctx.case(("parse_td_default", p, default), nontrivial=True)
                if not math.isclose(got, float(p) * mult, rel_tol=1e-12):
                    ctx.violation("parse_timedelta:default-unit", ("parse_td_default", p, default), f"{got!r}")
    elif kind == "keys":
        _, part, nparts = shard
        i = 0
        for L in range(0, 5):
            for t in itertools.product(ALPHA, repeat=L):
                i += 1
                if i % nparts != part:
                    continue
                s = "".join(t)
                for key in (s, s.encode(), (s, 1), (s,), None if L == 0 else (s, (1, 2))):
                    case = ("key_split", repr(key))
                    ctx.case(case, nontrivial=L >= 2)
                    try:
                        r = key_split(key)
                    except Hang:
                        raise
                    except BaseException as e:  # noqa: BLE001
                        ctx.violation(f"key_split:raises:{type(e).__name__}", case, repr(e))
                        continue
                    if not isinstance(r, str):
                        ctx.violation("key_split:not-a-str", case, repr(r))
                case = ("natural_sort_key", s)
                try:
                    r = natural_sort_key(s)
                except Hang:
                    raise
                except BaseException as e:  # noqa: BLE001
                    ctx.violation(f"natural_sort_key:raises:{type(e).__name__}", case, repr(e))
                    continue
                if not isinstance(r, (list, tuple)) or not all(isinstance(p, (str, int)) and not isinstance(p, bool) for p in r):
                    ctx.violation("natural_sort_key:shape", case, repr(r))
                elif "".join(str(p) for p in r).lstrip("0") != s.lstrip("0") and "".join(str(p) for p in r) != s:
                    # the parts must spell the input (ints may lose leading zeros)
                    digits_ok = [c for c in "".join(str(p) for p in r) if not c.isdigit()] == [c for c in s if not c.isdigit()]
                    if not digits_ok:
                        ctx.violation("natural_sort_key:parts-do-not-spell-input", case, repr(r))
    elif kind == "natsort":
        names = [f"f{i}" for i in range(130)]
        for a in range(130):
            for b in range(130):
                ctx.case(("natsort", a, b), nontrivial=True, n=0)
                ka, kb = natural_sort_key(names[a]), natural_sort_key(names[b])
                if (ka < kb) != (a < b):
                    ctx.violation("natural_sort_key:order", ("natsort", a, b), f"{names[a]} vs {names[b]}: {ka!r} {kb!r}")
        ctx.case(("natsort", "all"), nontrivial=True, n=130 * 130)


def replay(case, ctx):
    if case[0] == "fb":
        check_fb(case[1], ctx)
    elif case[0] == "parse_bytes":
        run_shard(("parse_bytes", 0), ctx)
    elif case[0].startswith("parse_td"):
        run_shard(("parse_td", 0), ctx)
    elif case[0] in ("key_split", "natural_sort_key"):
        for i in range(8):
            run_shard(("keys", i, 8), ctx)
    else:
        run_shard(("natsort", 0), ctx)
