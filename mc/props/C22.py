"""C22 -- array reductions and scans equal NumPy for every chunking and split_every (DESIGN 5/C22).
E4: exhaustive small scope on the real dask.array reductions; reference = NumPy on the concatenated data."""
from __future__ import annotations

import itertools
import warnings

import numpy as np

from mc import arr, enums
from mc.run import Hang

ID = "C22"
LEVEL = "exploration"
WATCHDOG_S = 60.0  # generous: a case needs ~2 ms; only guards against starvation on a shared machine
ASSUMPTIONS = [
    "sync scheduler; finite cells are small distinct integers (also in the float arrays), so sums/products/scans are exact in every "
    "association order and only mean/var/std/moment and the hand-written nanquantile need a tolerance (rtol = atol = 1e-9*size; 1e-5*size for float32)",
    "an exception raised by NumPy on the whole array (min of an empty array, nanargmin of an all-NaN slice) makes the case inapplicable / "
    "both_raise; NotImplementedError from dask is a documented refusal (counted); any other dask exception is a violation",
    "argtopk is checked through the values it selects (indices in range, pairwise distinct along the axis, x[idx] == topk reference): "
    "which of several tied elements is named is not promised",
    "split_every values are enumerated in full only where >= 3 blocks lie along a reduced axis (with <= 2 blocks every setting builds the same "
    "one-level tree); independence of split_every is checked by comparing every setting with the same NumPy value",
]

# ---------------------------------------------------------------------------------------------- alphabets
SE_D0 = ("d", ((0, 2),))
SE_D01 = ("d", ((0, 3), (1, 2)))
RED_EXACT = ("sum", "prod", "min", "max", "any", "all", "nansum", "nanprod", "nanmin", "nanmax")
RED_TOL = ("mean", "nanmean", "var", "var/1", "std", "std/1", "nanvar", "nanvar/1", "nanstd", "moment2", "moment3", "moment4")
RED_OPS = RED_EXACT + RED_TOL
REDF_OPS = RED_EXACT + ("mean", "nanmean", "var", "var/1", "nanvar", "nanvar/1", "moment3")  # std = sqrt(var): not repeated on the NaN/inf arrays
RED_CORE = ("sum", "min", "nanmax", "any", "prod", "mean", "var", "nanstd", "moment3")  # used on the largest shapes in the quick tier
ARG_OPS = ("argmin", "argmax", "nanargmin", "nanargmax")
CUM_OPS = ("cumsum", "cumprod", "nancumsum", "nancumprod")
MED_OPS = ("median", "nanmedian", "quantile", "nanquantile")
QS = (0.0, 0.5, 1.0, 0.3, (0.25, 0.75), (0.0, 1.0, 0.5))
METHODS = ("linear", "lower", "higher", "nearest", "midpoint")

N1 = {"quick": 5, "thorough": 7}
SHAPES2 = {"quick": [(2, 2), (2, 3), (3, 2), (3, 4)], "thorough": [(2, 2), (2, 3), (3, 2), (1, 4), (4, 1), (3, 4), (4, 3), (2, 5)]}
BIG2 = {"quick": {(3, 4), (2, 2, 2)}, "thorough": set()}  # shapes on which only RED_CORE is run in the quick tier
SHAPES3 = {"quick": [(2, 2, 2)], "thorough": [(2, 2, 2), (2, 3, 2)]}
SHAPES0 = [(0,), (0, 3), (2, 0)]
NSCAN = {"quick": 8, "thorough": 10}  # 1-d scans: every chunking up to this length (block counts 1..n drive the Blelloch sweeps)


def RULE(tier):
    n = N1[tier]
    return (
        f"ops sum prod min max any all mean var std (ddof 0,1) moment(0..4) + nan-variants, arg(nan)min/max, (nan)cumsum/cumprod "
        f"(sequential and blelloch), topk/argtopk (every k in +-1..n), (nan)median, (nan)quantile ({6 if tier == "thorough" else 5} q specs x 5 methods) on the real "
        f"dask.array functions x EVERY chunking of every 1-d length 0..{n} (scans: 0..{NSCAN[tier]}), 2-d shapes {SHAPES2[tier]}, 3-d "
        f"{SHAPES3[tier]}, empty shapes {SHAPES0}, plus every chunking with zero-length chunks (<= 3 chunks, n <= 4) x every axis selection "
        "(None, each int, each tuple; negative spellings on a sub-family) x keepdims x split_every in {None,2,3,16,{0:2},{0:3,1:2}}. Data: "
        "distinct ints (seed-permuted), all 0/1 arrays (ties for arg*/topk/any/all), dtypes f8 f4 i1 u1 bool, and float arrays with EVERY "
        "placement of NaN/+inf/-inf (arg family: also (2,3),(3,2) with every NaN placement; 1-d n<=3 over {v,nan,inf,-inf}, n=4 over "
        + ("{v,nan,inf,-inf}" if tier == "thorough" else "{v,nan,inf} with at most one inf")
        + (", n=5 over {v,nan,inf}; 2-d (2,2) over {v,nan,inf,-inf}, (2,3) over {v,nan}" if tier == "thorough" else "; 2-d (2,2) over {v,nan}")
        + "). Oracle: value, dtype, lazy shape/chunks and per-block shapes equal NumPy's result (tolerance only for mean/var/std/moment/"
        "nanquantile)."
        + (" Quick tier: shapes (3,4) and (2,2,2) run the 9 core reductions only." if tier == "quick" else "")
        + " non-trivial = >= 2 chunks along a reduced / scanned / selected axis."
    )


# ---------------------------------------------------------------------------------------------- configurations
def all_chunkings(shape):
    return list(enums.chunkings(shape))


def zero_chunkings_1d(n, maxparts=3):
    return [c for c in enums.compositions_with_zeros(n, maxparts) if 0 in c and len(c) > 1]


def int_configs(tier, nmax=None, dk=("perm", "i8", 1)):
    """(shape, chunks, dk) for distinct-int data: 1-d, 2-d, 3-d and empty shapes x every chunking"""
    out = []
    for n in range(0, (nmax or N1[tier]) + 1):
        for ch in all_chunkings((n,)):
            out.append(((n,), ch, dk))
    for shp in SHAPES2[tier] + SHAPES3[tier] + SHAPES0[1:]:
        for ch in all_chunkings(shp):
            out.append((shp, ch, dk))
    return out


def zero_configs(tier):
    out = []
    for n in range(1, 5):
        for c in zero_chunkings_1d(n):
            out.append(((n,), (c,), ("perm", "i8", 1)))
    for ch in [((1, 0, 1), (3,)), ((0, 2), (1, 2)), ((2,), (0, 3)), ((2,), (1, 0, 2)), ((2, 0), (2, 0, 1)), ((1, 1), (0, 1, 0, 2))]:
        out.append(((2, 3), ch, ("perm", "i8", 1)))
    for c in zero_chunkings_1d(3):
        out.append(((3,), (c,), ("pat", "vnv")))
        out.append(((3,), (c,), ("bits", (1, 0, 0))))
    return out


def dtype_configs(tier):
    out = []
    for dt, lo in (("f8", 1), ("f4", 1), ("i1", 1), ("u1", 0), ("bool", 0)):
        for shp in [(4,), (2, 3)] + ([(5,), (3, 2)] if tier == "thorough" else []):
            for ch in all_chunkings(shp):
                out.append((shp, ch, ("perm", dt, lo)))
    return out


def bits_configs(tier, nmax1=None, shapes2=((2, 2), (2, 3))):
    out = []
    for n in range(1, (nmax1 or (5 if tier == "quick" else 6)) + 1):
        for bits in itertools.product((0, 1), repeat=n):
            for ch in all_chunkings((n,)):
                out.append(((n,), ch, ("bits", bits)))
    for shp in shapes2:
        for bits in itertools.product((0, 1), repeat=shp[0] * shp[1]):
            for ch in all_chunkings(shp):
                out.append((shp, ch, ("bits", bits)))
    return out


def pat_configs(tier, small=False):
    """float arrays with every placement of NaN / +inf / -inf"""
    out = []
    specs = [(1, "vnpm"), (2, "vnpm"), (3, "vnpm"), (4, "vnp")]
    if tier == "thorough" and not small:
        specs = [(1, "vnpm"), (2, "vnpm"), (3, "vnpm"), (4, "vnpm"), (5, "vnp")]
    one_inf = tier == "quick"  # quick tier, n = 4: at most one +inf per array
    if small:
        specs = [(1, "vnpm"), (2, "vnpm"), (3, "vnp"), (4, "vn")] if tier == "quick" else [(1, "vnpm"), (2, "vnpm"), (3, "vnpm"), (4, "vnp")]
    seen = set()
    for n, alpha in specs:
        for p in itertools.product(alpha, repeat=n):
            s = "".join(p)
            if s in seen or (one_inf and n == 4 and s.count("p") > 1):
                continue
            seen.add(s)
            for ch in all_chunkings((n,)):
                out.append(((n,), ch, ("pat", s)))
    specs2 = [((2, 2), "vn")] if tier == "quick" else [((2, 2), "vnpm"), ((2, 3), "vn")]
    if small and tier == "thorough":
        specs2 = [((2, 2), "vnp")]
    for shp, alpha in specs2:
        for p in itertools.product(alpha, repeat=shp[0] * shp[1]):
            for ch in all_chunkings(shp):
                out.append((shp, ch, ("pat", "".join(p))))
    return out


def norm_axes(ndim, axis):
    if axis is None:
        return tuple(range(ndim))
    if isinstance(axis, int):
        return (axis % ndim,)
    return tuple(a % ndim for a in axis)


def axes_for(ndim, tier, negatives=False):
    if ndim == 1:
        out = [None, 0]
        neg = [-1, (0,)]
    elif ndim == 2:
        out = [None, 0, 1, (0, 1)]
        neg = [-1, (-1, 0), (-2,)]
    else:
        out = [None, 0, 1, 2, (0, 1), (0, 2), (1, 2)]
        neg = [-3, (0, -1), (0, 1, 2)]
    if negatives or tier == "thorough":
        out = out + neg
    return out


def se_list(chunks, axis, full=True):
    axes = norm_axes(len(chunks), axis)
    nb = max([len(chunks[a]) for a in axes], default=1)
    if nb <= 1:
        return [None]
    if nb == 2 or not full:
        return [None, 2]
    out = [None, 2, 3, SE_D0]
    if len(axes) >= 2:
        out += [16, SE_D01]
    return out


def se_obj(se):
    return dict(se[1]) if isinstance(se, tuple) else se


# ---------------------------------------------------------------------------------------------- case generators
def gen_red(op, tier):
    """int suite: everything; dtype suite; zero-chunk suite"""
    for shp, ch, dk in int_configs(tier):
        if shp in BIG2[tier] and op not in RED_CORE:
            continue
        for ax in axes_for(len(shp), tier, negatives=op in ("sum", "nanvar")):
            for se in se_list(ch, ax):
                yield ("red", op, shp, ch, dk, ax, False, se)
            for se in se_list(ch, ax, full=False):
                yield ("red", op, shp, ch, dk, ax, True, se)
    for shp, ch, dk in dtype_configs(tier):
        for ax in [None, 0] if len(shp) == 1 else [None, 0, 1]:
            for se in se_list(ch, ax, full=False):
                yield ("red", op, shp, ch, dk, ax, False, se)
    for shp, ch, dk in zero_configs(tier):
        for ax in [None] if len(shp) == 1 else [None, 0, 1]:
            for se in se_list(ch, ax, full=False):
                for kd in (False, True):
                    yield ("red", op, shp, ch, dk, ax, kd, se)
    if op in ("any", "all", "min", "max", "sum", "nansum"):
        for shp, ch, dk in bits_configs(tier, nmax1=4, shapes2=((2, 2),)):
            for ax in [None] if len(shp) == 1 else [None, 0, 1]:
                yield ("red", op, shp, ch, dk, ax, False, None)


def gen_redf(op, tier):
    """float arrays with every NaN/inf placement"""
    for shp, ch, dk in pat_configs(tier):
        for ax in [None] if len(shp) == 1 else [None, 0, 1]:
            for se in se_list(ch, ax, full=False)[: (2 if len(ch[0]) >= 3 else 1)]:
                yield ("red", op, shp, ch, dk, ax, False, se)


def gen_arg(op, tier):
    for shp, ch, dk in int_configs(tier):
        nd = len(shp)
        for ax in [None] + list(range(nd)) + ([-1] if nd > 1 else []):
            for se in se_list(ch, ax):
                yield ("arg", op, shp, ch, dk, ax, False, se)
            yield ("arg", op, shp, ch, dk, ax, True, None)
    for shp, ch, dk in bits_configs(tier):
        for ax in [None] if len(shp) == 1 else ([None, 0, 1] if shp == (2, 2) or tier == "thorough" else [None, 1]):
            for se in se_list(ch, ax, full=False):
                yield ("arg", op, shp, ch, dk, ax, False, se)
    for shp, ch, dk in dtype_configs(tier) + zero_configs(tier):
        for ax in [None] if len(shp) == 1 else [None, 0, 1]:
            yield ("arg", op, shp, ch, dk, ax, False, None)


def nan_lane_configs(tier):
    """2-d arrays with EVERY NaN placement whose blocks can hold several lanes of >= 2 cells along either axis: a block may then contain
    an all-NaN lane next to a partly-NaN one while no lane of the whole array is all-NaN (the per-block fallbacks of nanarg*)"""
    out = []
    have = {c[0] for c in pat_configs(tier) if len(c[0]) == 2 and set(c[2][1]) <= set("vn")}
    for shp in [(2, 3), (3, 2)]:
        if shp in have and tier == "thorough":
            continue
        for p in itertools.product("vn", repeat=shp[0] * shp[1]):
            for ch in all_chunkings(shp):
                out.append((shp, ch, ("pat", "".join(p))))
    return out


def gen_argf(op, tier):
    lanes = nan_lane_configs(tier)
    for i, (shp, ch, dk) in enumerate(pat_configs(tier) + lanes):
        islane = i >= len(pat_configs(tier))
        for ax in [None] if len(shp) == 1 else ([0, 1] if islane and tier == "quick" else [None, 0, 1]):
            nb = nblocks_on(ch, norm_axes(len(shp), ax))
            for se in [None, 2] if nb >= 3 else [None]:
                yield ("arg", op, shp, ch, dk, ax, False, se)


def gen_cum(op, tier):
    for method in ("sequential", "blelloch"):
        for shp, ch, dk in int_configs(tier, nmax=NSCAN[tier]):
            if op == "cumprod" or op == "nancumprod":
                if int(np.prod(shp)) > 12:
                    dk = ("bits2", 0, 0)  # values 1/2 alternating: products stay inside int64
            nd = len(shp)
            for ax in [None] + list(range(nd)) + ([-1] if nd > 1 else []):
                yield ("cum", op, shp, ch, dk, ax, method)
        for shp, ch, dk in dtype_configs(tier) + zero_configs(tier):
            for ax in [None, 0] if len(shp) == 1 else [None, 0, 1]:
                yield ("cum", op, shp, ch, dk, ax, method)
        for shp, ch, dk in pat_configs(tier, small=True):
            for ax in [0] if len(shp) == 1 else [None, 0, 1]:
                yield ("cum", op, shp, ch, dk, ax, method)


def gen_topk(op, tier):
    cfgs = int_configs(tier) + bits_configs(tier, nmax1=3 if tier == "quick" else 4, shapes2=((2, 2),)) + zero_configs(tier)
    cfgs += [c for c in pat_configs(tier, small=True) if len(c[0]) == 1 and c[0][0] <= 3]
    cfgs += [c for c in dtype_configs(tier) if c[0] == (4,)]
    for shp, ch, dk in cfgs:
        nd = len(shp)
        if nd == 3 and op == "argtopk" and tier == "quick":
            axes = [0, 2]
        else:
            axes = list(range(nd)) + ([-1] if nd == 2 and shp == (2, 3) else [])
        for ax in axes:
            n = shp[ax]
            for k in [k for k in range(-n, n + 1) if k != 0]:
                full = dk[0] == "perm" and dk[1] == "i8"
                for se in se_list(ch, ax, full=full)[:3]:
                    yield (op, shp, ch, dk, ax, k, se)


def gen_med(op, tier):
    cfgs = [c for c in int_configs(tier) if c[0] not in BIG2[tier] or op == "median" or (op == "nanquantile" and len(c[0]) == 2)]
    if op == "nanquantile":
        # a priori: NumPy's nanquantile has no consistent answer for zero-size input (np.nanquantile(np.zeros((0,3)), [.25,.75], axis=1)
        # has shape (0,), np.quantile gives (2,0)), so there is no reference to agree with
        cfgs = [c for c in cfgs if int(np.prod(c[0]))]
    cfgs += [c for c in pat_configs(tier, small=True) if c[0] != (1,)]
    for shp, ch, dk in cfgs:
        nd = len(shp)
        axes = [None] + list(range(nd)) + ([(0, 1)] if nd == 2 else []) + ([-1] if shp == (2, 3) else []) + ([(0, 2)] if nd == 3 else [])
        ispat = dk[0] == "pat"
        hasinf = ispat and any(c in "pm" for c in dk[1])
        for ax in axes:
            if hasinf and op in ("quantile", "nanquantile"):
                # a priori: with +-inf in the data only the value-selecting methods have a reference -- NumPy's own linear/midpoint
                # interpolation computes inf*0 / inf-inf (np.nanquantile([2., inf], 0) is nan although the minimum is 2)
                for m in ("lower", "higher", "nearest"):
                    for q in (0.0, 0.5, 1.0, (0.3, 0.5)):
                        yield ("med", op, shp, ch, dk, ax, False, q, m)
                continue
            if op in ("median", "nanmedian"):
                for kd in (False, True):
                    yield ("med", op, shp, ch, dk, ax, kd, None, None)
            else:
                for q in (QS if tier == "thorough" else QS[:3] + QS[4:]) if not ispat else (0.0, 0.5, 1.0, (0.25, 0.75)):
                    yield ("med", op, shp, ch, dk, ax, False, q, "linear")
                yield ("med", op, shp, ch, dk, ax, True, 0.5, "linear")
                yield ("med", op, shp, ch, dk, ax, True, (0.25, 0.75), "linear")
                if (not ispat and isinstance(ax, int)) or tier == "thorough":
                    for m in METHODS[1:]:
                        yield ("med", op, shp, ch, dk, ax, False, (0.3, 0.5), m)


def gen_mom01(op, tier):
    for shp, ch, dk in int_configs(tier):
        if shp in BIG2[tier] or 0 in shp:
            continue  # zero-size: the mean of nothing is undefined, there is no reference for a central moment
        for ax in axes_for(len(shp), tier):
            for kd in (False, True):
                yield ("red", op, shp, ch, dk, ax, kd, None)


GROUPS = {
    # group: (generator, ops, shards per op quick, thorough)
    "red": (gen_red, RED_OPS, 2, 6),
    "redf": (gen_redf, REDF_OPS, 1, 4),
    "arg": (gen_arg, ARG_OPS, 3, 8),
    "argf": (gen_argf, ARG_OPS, 1, 4),
    "cum": (gen_cum, CUM_OPS, 3, 8),
    "topk": (gen_topk, ("topk", "argtopk"), 4, 12),
    "med": (gen_med, MED_OPS, 2, 6),
    "mom01": (gen_mom01, ("moment0", "moment1"), 1, 2),
}


def shards(tier):
    out = []
    for g in ("mom01", "red", "arg", "cum", "topk", "med", "redf", "argf"):
        gen, ops, nq, nt = GROUPS[g]
        nparts = nq if tier == "quick" else nt
        for op in ops:
            for part in range(nparts):
                out.append((g, op, part, nparts))
    return out


def cases_of(shard, tier):
    g, op, part, nparts = shard
    gen = GROUPS[g][0]
    last, idx = None, -1
    for case in gen(op, tier):
        cfg = cfg_of(case)
        if cfg != last:
            last, idx = cfg, idx + 1
        if idx % nparts == part:
            yield case


def cfg_of(case):
    """(shape, chunks, data kind) of a case -- the unit that is dealt round-robin to the shards"""
    if case[0] in ("topk", "argtopk"):
        return case[1:4]
    return case[2:5]


# ---------------------------------------------------------------------------------------------- data and references
def build(shape, dk, seed):
    kind = dk[0]
    if kind == "perm":
        x = arr.data(shape, seed, dtype="i8", lo=dk[2])
        return x.astype(dk[1])
    if kind == "bits":
        return np.array(dk[1], dtype="i8").reshape(shape)
    if kind == "bits2":
        n = int(np.prod(shape))
        return (1 + (arr.data(shape, seed, dtype="i8", lo=0) % 2)).reshape(shape) if n else np.zeros(shape, dtype="i8")
    if kind == "pat":
        x = arr.data(shape, seed, dtype="f8", lo=1).ravel()
        for i, c in enumerate(dk[1]):
            if c != "v":
                x[i] = {"n": np.nan, "p": np.inf, "m": -np.inf}[c]
        return x.reshape(shape)
    raise ValueError(dk)


def np_red(op, x, axis, kd):
    name, _, ddof = op.partition("/")
    if name.startswith("moment"):
        order = int(name[6:])
        if x.dtype.kind in "biu":
            x = x.astype("f8")
        m = x.mean(axis=axis, keepdims=True)
        return ((x - m) ** order).mean(axis=axis, keepdims=kd)
    f = getattr(np, name)
    if ddof:
        return f(x, axis=axis, keepdims=kd, ddof=int(ddof))
    return f(x, axis=axis, keepdims=kd)


def da_red(op, d, axis, kd, se):
    import dask.array as da

    name, _, ddof = op.partition("/")
    kw = {"axis": axis, "keepdims": kd, "split_every": se_obj(se)}
    if name.startswith("moment"):
        return da.moment(d, int(name[6:]), **kw)
    if ddof:
        kw["ddof"] = int(ddof)
    return getattr(da, name)(d, **kw)


def np_topk(x, k, axis):
    s = np.sort(x, axis=axis)
    if k > 0:
        s = np.flip(s, axis=axis)
    return np.take(s, np.arange(abs(k)), axis=axis)


def tol_for(op, x, want):
    name = op.partition("/")[0]
    if name in ("mean", "nanmean", "var", "std", "nanvar", "nanstd", "nanquantile") or name.startswith("moment"):
        base = 1e-5 if np.asarray(want).dtype == np.float32 or x.dtype == np.float32 else 1e-9
        return base * max(x.size, 1)
    return 0.0


def nblocks_on(chunks, axes):
    return max([len(chunks[a]) for a in axes], default=1)


FAMILY = {
    "var": "moment", "std": "moment", "moment2": "moment", "moment3": "moment", "moment4": "moment",
    "nanvar": "nanmoment", "nanstd": "nanmoment", "moment0": "moment01", "moment1": "moment01",
    "argmin": "argreduce", "argmax": "argreduce", "nanargmin": "argreduce", "nanargmax": "argreduce",
    "cumsum": "cumreduction", "cumprod": "cumreduction", "nancumsum": "cumreduction", "nancumprod": "cumreduction",
    "min": "minmax", "max": "minmax", "nanmin": "nanminmax", "nanmax": "nanminmax",
}  # finding keys name the shared mechanism: one defect in moment_agg shows up in var, std and moment alike


def has_zero_chunk(ch):
    return any(0 in c for c in ch)


def has_ties(dk):
    if dk[0] in ("bits", "bits2"):
        return True
    if dk[0] == "pat":
        return any(dk[1].count(c) >= 2 for c in "npm")
    return False


def known_class(case):
    """narrow input classes of the findings recorded in C22.findings.json; appended to the finding key"""
    kind = case[0]
    if kind in ("topk", "argtopk"):
        op, shp, ch, dk, ax, k, se = case
        if op == "argtopk" and (abs(k) >= shp[ax] or has_zero_chunk(ch)):
            return "k-covers-candidates"
        return None
    op, shp, ch = case[1], case[2], case[3]
    fam = FAMILY.get(op.partition("/")[0], op)
    size = int(np.prod(shp))
    if fam == "moment01":
        return "keepdims" if case[6] else None
    if kind == "med":
        return "zero-size-array" if size == 0 and op == "nanmedian" else None
    if kind == "cum":
        if size and has_zero_chunk(ch) and case[5] is None and len(shp) > 1:
            return "zero-chunk-flatten"
        if size == 0:
            return "zero-size-array" if case[5] is None and len(shp) > 1 else None
        return "zero-chunk" if has_zero_chunk(ch) and case[6] == "sequential" else None
    if size and has_zero_chunk(ch):
        if fam in ("moment", "argreduce") or (fam in ("minmax", "nanminmax") and len(shp) > 1):
            return "zero-chunk"
        return None
    if kind == "arg" and len(shp) > 1 and case[5] is None and has_ties(case[4]):
        return "ties-axis-None-nd"
    return None


# ---------------------------------------------------------------------------------------------- one case
def run_case(case, ctx):
    with warnings.catch_warnings(), np.errstate(all="ignore"):
        warnings.simplefilter("ignore")
        _run_case(case, ctx)


def _run_case(case, ctx):
    import dask.array as da

    kind = case[0]
    check = None  # custom comparison (argtopk)
    if kind == "red":
        _, op, shp, ch, dk, ax, kd, se = case
        x = build(shp, dk, ctx.seed)
        axn = ax if not isinstance(ax, list) else tuple(ax)
        f_np = lambda: np_red(op, x, axn, kd)
        f_da = lambda d: da_red(op, d, axn, kd, se)
        axes = norm_axes(len(shp), ax)
    elif kind == "arg":
        _, op, shp, ch, dk, ax, kd, se = case
        x = build(shp, dk, ctx.seed)
        f_np = lambda: getattr(np, op)(x, axis=ax, keepdims=kd)
        f_da = lambda d: getattr(da, op)(d, axis=ax, keepdims=kd, split_every=se_obj(se))
        axes = norm_axes(len(shp), ax)
    elif kind == "cum":
        _, op, shp, ch, dk, ax, method = case
        x = build(shp, dk, ctx.seed)
        f_np = lambda: getattr(np, op)(x, axis=ax)
        f_da = lambda d: getattr(da, op)(d, axis=ax, method=method)
        axes = norm_axes(len(shp), ax)
    elif kind in ("topk", "argtopk"):
        op, shp, ch, dk, ax, k, se = case
        x = build(shp, dk, ctx.seed)
        f_np = lambda: np_topk(x, k, ax)
        f_da = lambda d: getattr(da, op)(d, k, axis=ax, split_every=se_obj(se))
        axes = norm_axes(len(shp), ax)
        if op == "argtopk":
            n = shp[axes[0]]

            def check(got, want):
                got = np.asanyarray(got)
                if got.shape != want.shape:
                    return f"shape {got.shape} != {want.shape}"
                if got.dtype != np.intp:
                    return f"dtype {got.dtype} != intp"
                if got.size and (got.min() < 0 or got.max() >= n):
                    return f"index out of range: {got!r}"
                s = np.sort(got, axis=axes[0])
                if np.any(np.diff(s, axis=axes[0]) == 0):
                    return f"repeated index along the axis: {got!r}"
                return arr.equal(np.take_along_axis(x, got, axis=axes[0]), want)

    elif kind == "med":
        _, op, shp, ch, dk, ax, kd, q, method = case
        x = build(shp, dk, ctx.seed)
        axn = ax
        if q is None:
            f_np = lambda: getattr(np, op)(x, axis=axn, keepdims=kd)
            f_da = lambda d: getattr(da, op)(d, axis=axn, keepdims=kd)
        else:
            qq = list(q) if isinstance(q, tuple) else q
            f_np = lambda: getattr(np, op)(x, qq, axis=axn, keepdims=kd, method=method)
            f_da = lambda d: getattr(da, op)(d, qq, axis=axn, keepdims=kd, method=method)
        axes = norm_axes(len(shp), ax)
    else:
        raise ValueError(kind)

    opname = op.partition("/")[0]
    fam = FAMILY.get(opname, opname)
    nontrivial = nblocks_on(ch, axes) >= 2
    try:
        want = f_np()
        np_exc = None
    except (ValueError, IndexError, TypeError, ZeroDivisionError) as e:
        want, np_exc = None, e
    sub = known_class(case)
    suffix = f":{sub}" if sub else ""
    try:
        d = da.from_array(x, chunks=ch)
        r = f_da(d)
        got, problem = arr.compute_blocks(r)
        d_exc = None
    except Hang:
        raise
    except Exception as e:  # noqa: BLE001
        got, problem, d_exc = None, None, e
    ctx.case(
        case,
        nontrivial=nontrivial,
        outcome=(opname, None if want is None else (np.shape(want), np.asarray(want).ravel()[:6].tolist().__repr__()), type(np_exc).__name__),
    )
    if np_exc is None and opname in ("nanargmin", "nanargmax") and x.size:
        # NumPy artefact, excluded a priori: np.nanargmin([nan, inf]) == 0 -- NumPy substitutes +inf for NaN and then names the NaN
        # cell itself.  Where the reference index points at a NaN there is no meaningful reference result.
        w = np.asanyarray(want)
        picked = x.ravel()[w] if ax is None else np.take_along_axis(x, w if kd else np.expand_dims(w, axes[0]), axis=axes[0])
        if np.isnan(picked).any():
            ctx.count("inapplicable")
            ctx.count("inapplicable_numpy_nanarg_names_a_nan")
            return
    if np_exc is not None:
        if d_exc is None:
            # the statement promises equality with NumPy's *results*; where NumPy has none there is nothing to equal
            ctx.count("inapplicable")
        else:
            ctx.count("both_raise")
        return
    if d_exc is not None:
        if isinstance(d_exc, NotImplementedError):
            ctx.count("rejected")
            return
        if x.size == 0 and isinstance(d_exc, ValueError) and "zero-size array to reduction operation" in str(d_exc):
            # explicit refusal in dask (reductions.nanmin/nanmax: `if a.size == 0: raise ValueError(...)`; min/max reach NumPy's own
            # message): min/max of ANY zero-size array is refused, also where NumPy returns an empty result for a non-empty reduced axis
            ctx.count("rejected")
            ctx.count("rejected_zero_size_minmax")
            return
        ctx.violation(f"{fam}:dask-raises:{type(d_exc).__name__}{suffix}", case, f"{opname}: dask raised {d_exc!r}; NumPy gives {want!r}")
        return
    if problem:
        ctx.violation(f"{fam}:lazy-metadata{suffix}", case, f"{opname}: {problem}")
        return
    if check is not None:
        why = check(got, np.asanyarray(want))
    else:
        t = tol_for(op, x, want)
        why = arr.equal(got, want, rtol=t, atol=t)
        if why is None and r.dtype != np.asanyarray(want).dtype:
            why = f"lazy dtype {r.dtype} != {np.asanyarray(want).dtype}"
    if why:
        ctx.violation(f"{fam}:wrong-value{suffix}", case, f"{opname}: {why}  (data {x.tolist()!r})")


def run_shard(shard, ctx):
    for case in cases_of(shard, ctx.tier):
        if ctx.out_of_time():
            return
        ctx.guard(case, run_case, case, ctx)


def replay(case, ctx):
    run_case(case, ctx)
