"""C43 -- the DataFrame optimizer preserves results and converges (DESIGN 5/C43)."""
from __future__ import annotations

from mc.props import _dfprog as P  # first: installs the pyarrow stand-in through mc.dfh

import zlib

import numpy as np
import pandas as pd

import dask  # noqa: F401
from mc import dfh
from mc.run import Hang

ID = "C43"
LEVEL = "exploration"
WATCHDOG_S = 60.0
HANG_IS_VIOLATION = True  # the statement says the optimizer terminates
NROWS = 6
STAGES = ("simplified-logical", "tuned-logical", "physical", "simplified-physical", "fused")
ASSUMPTIONS = [
    "sync scheduler; pyarrow stand-in; expressions are executed WITHOUT the implicit optimisation of .compute(): graph = expr.lower_completely().__dask_graph__(), run "
    "with dask.local.get_sync and finalised with the collection's __dask_postcompute__",
    "baseline = the expression lowered without any simplification (Expr.lower_completely); optimized = dask._expr.optimize_until(expr, 'fused'); "
    "re-optimized = optimize_until(optimized, 'fused')",
    "a program whose result is ALREADY different from pandas without the optimizer (baseline != pandas, or baseline raises) belongs to C36-C40/C46 and is only counted "
    "here (baseline_differs / baseline_raises); for it C43 only demands that optimize() terminates and converges",
    "row order / index are compared exactly for row-wise programs; programs containing merge, set_index, sort_values, drop_duplicates, unique, value_counts, concat are "
    "compared as multisets of rows (index ignored for merge/drop_duplicates/unique/describe) -- what pandas and dask promise for them",
    "a step on which pandas raises is dropped from the alphabet (inapplicable)",
    "the frames do not depend on VERIF_SEED (the seed only rotates the shard order)",
]
CONFIGS = [("range", (2, 4), "auto"), ("sorted_dup", (2, 1, 3), "auto"), ("unsorted", (0, 3, 0, 3), "auto")]
# family -> (frames, levels, steps function name, number of configurations per program (rotating), shards per frame)
FAMILIES = {
    "quick": {
        "O2": (("num", "str"), ("full", "full"), "opt_steps_for", 1, 8),
        "X2": (("num",), ("full", "full"), "opt_ext_steps_for", 1, 12),
        "O3": (("num",), ("core", "core", "core"), "opt_steps_for", 1, 8),
        "R2": (("dt",), ("core", "full"), "steps_for", 1, 4),
        "OR": (("num",), ("or4", "core"), "or_then_core", 1, 6),
    },
    "thorough": {
        "O2": (("num", "str", "bool", "dt", "cat", "nullable"), ("full", "full"), "opt_steps_for", 3, 8),
        "X2": (("num", "str", "bool", "dt", "cat", "nullable"), ("full", "full"), "opt_ext_steps_for", 2, 12),
        "O3": (("num", "str", "bool", "dt", "cat", "nullable"), ("core", "core", "core"), "opt_steps_for", 3, 4),
        "F3": (("num",), ("full", "full", "full"), "opt_steps_for", 1, 48),
        "O4": (("num",), ("core", "core", "core", "core"), "opt_steps_for", 1, 24),
        "R2": (("num", "str", "bool", "dt", "cat", "nullable"), ("core", "full"), "steps_for", 2, 6),
        "OR": (("num", "nullable"), ("or5", "core"), "or_then_core", 2, 12),
        "OR3": (("num",), ("core", "or4", "core"), "or_then_core3", 1, 12),
    },
}


def RULE(tier):
    common = (
        "optimizer alphabet (per frame ~43 steps: projections incl. reordering, 10 boolean filters incl. reductions in the predicate, OR-predicates with a common AND part "
        "and empty selections, 9 assigns incl. shadowing/swapping/reduction-valued, rename incl. swap, astype, fillna, arithmetic, drop, dropna, where, clip, 8 DAG-shaped "
        "steps that consume x twice, 6 reductions; per series kind 6-16 steps).  For every program: optimize terminates (watchdog = HANG violation) without "
        "'Optimizer does not converge'; baseline (lowered, never simplified), optimized and re-optimized expressions are materialised without implicit optimisation and "
        "compared with the pandas result; on a difference every optimizer stage is materialised to name the first wrong stage.  non-trivial = >= 2 partitions and the "
        "optimized expression differs from the baseline expression.  "
    )
    if tier == "quick":
        return common + (
            "O2: EVERY 2-step program over the optimizer alphabet on frames num/str; X2: every 2-step program over the alphabet extended with 26 producers (groupby "
            "aggregations, set_index, sort_values, merges incl. a filtered right side, drop_duplicates, value_counts, cumsum, rolling, shift, repartition, concat, describe) that "
            "contains an extended step, frame num; O3: every 3-step program over the 13-step core alphabet, frame num; R2: every C36 program (core x full row-wise alphabet, all "
            "str/dt accessor members) on frame dt; OR: EVERY filter whose predicate is an OR of 3 or 4 clauses built from a pool of 4 atomic predicates -- all 24 assignments of "
            "distinct atoms to (X,Y,Z,W) x the 6 clause shapes (X&Y)|(X&Z)|W, (X&Y)|W|(X&Z), W|(X&Y)|(X&Z), (X&Y)|(X&Z)|W|Z, (X&Y)|W|(X&Z)|(W&Y), W|(X&Y)|Z|(X&Z) -- "
            "followed by every consumer of the 13-step core alphabet, frame num.  One configuration per program, rotating over 3 (known divisions / duplicated labels / unknown divisions with empty partitions)."
        )
    return common + "O2, X2, R2 on all 6 frames x 2-3 configurations; O3 = core^3 on all frames x 3 configurations; F3 = EVERY 3-step program over the full optimizer alphabet on frame num (~64k); O4 = core^4 on frame num; OR with a pool of 5 atoms (120 assignments x 6 shapes) on frames num/nullable x 2 configurations; OR3 = core producer x OR-filter x core consumer."


def shards(tier):
    out = []
    for fam, (frames, levels, fn, ncfg, nsh) in FAMILIES[tier].items():
        for f in frames:
            for part in range(nsh):
                out.append((fam, f, part, nsh))
    return out


def or_then_core3(p, level="full"):
    return P.or_filter_steps(p, 4) if level == "or4" else P.opt_steps_for(p, "core")


def cases_of(shard, tier, counters=None):
    fam, fname, part, n = shard
    frames, levels, fn, ncfg, nsh = FAMILIES[tier][fam]
    steps = or_then_core3 if fn == "or_then_core3" else getattr(P, fn)
    pdf0 = dfh.base_frames(0, NROWS)[fname]
    pick = lambda i: i % n == part  # noqa: E731
    for ki, kind in enumerate(sorted({c[0] for c in CONFIGS})):
        root = dfh.with_index(pdf0, kind)
        base = P.opt_steps_for if fam == "X2" else None
        for prog, xs in P.enumerate_programs(root, levels, first_filter=pick, counters=counters if ki == 0 else None, steps=steps):
            if len(prog) != len(levels):
                continue
            if fam == "X2" and all(step in base(xs[i]) for i, step in enumerate(prog)):
                continue  # no extended step: already in O2
            j = zlib.crc32(repr(prog).encode())  # which configuration(s) a program meets is a fixed function of the program
            for ci, c in enumerate(CONFIGS):
                if c[0] == kind and (j + ci) % len(CONFIGS) < ncfg:
                    yield (fam, fname, kind, c[1], c[2], prog), xs


# ------------------------------------------------------------------------------------------------ execution without implicit optimisation
def materialize(expr):
    from dask.dataframe.dask_expr import new_collection
    from dask.local import get_sync

    expr = expr.lower_completely()
    coll = new_collection(expr)
    finalize, args = coll.__dask_postcompute__()
    return finalize(get_sync(expr.__dask_graph__(), expr.__dask_keys__()), *args)


def attempt(fn):
    """('ok', value) | ('exc', exception) ; Hang propagates"""
    try:
        with np.errstate(all="ignore"):
            return "ok", fn()
    except Hang:
        raise
    except Exception as e:  # noqa: BLE001
        return "exc", e


def same(got, want, mode):
    ordered, check_index = mode
    if isinstance(want, np.ndarray) and want.ndim == 1 and isinstance(got, pd.Series):
        want = pd.Series(want, name=got.name)  # documented: Series.unique() is a Series in dask, an ndarray in pandas
    if isinstance(want, (pd.DataFrame, pd.Series)) and not check_index:
        if not isinstance(got, type(want)):
            return f"type {type(got).__name__} != {type(want).__name__}"
        return dfh.equal(got, want, ordered=ordered, check_index=False)
    return P.same(got, want, ordered=ordered)


def evaluate(case, pxs):
    """-> (status, problems, pxs, nontrivial).  problems: list of (stage, failure, detail)"""
    from dask._expr import optimize_until

    fam, fname, kind, parts, divmode, prog = case[:6]
    root = dfh.with_index(dfh.base_frames(0, NROWS)[fname], kind)
    if pxs is None:
        with np.errstate(all="ignore"):
            pxs = P.run_pandas(prog, root, None)
    want = pxs[-1]
    mode = P.compare_mode(prog)
    droot = dfh.build(root, parts, divisions="auto" if divmode == "auto" else None)
    st, d = attempt(lambda: P.run_dask(prog, droot, pxs, root))
    if st == "exc":
        return ("unsupported_api" if isinstance(d, P.UnsupportedAPI) else "construct_raises"), [], pxs, False
    if not (hasattr(d, "compute") and hasattr(d, "expr")):
        return "not_lazy", [], pxs, False
    e = d.expr
    # ---- baseline: lowered, never simplified
    bst, base = attempt(lambda: materialize(e))
    reference, note = want, "ok"
    if bst == "exc":
        if isinstance(base, dfh.PyArrowUnavailable):
            return "out_of_scope", [], pxs, False
        note = "baseline_raises"
    else:
        why = same(base, want, mode)
        if why:
            note, reference = "baseline_differs", base
    problems = []
    # ---- optimize: terminates, converges
    ost, opt = attempt(lambda: optimize_until(e, "fused"))
    if ost == "exc":
        if isinstance(opt, RuntimeError) and "does not converge" in str(opt):
            problems.append(("optimize", "non-convergence", repr(opt)[:300]))
        elif note == "ok":
            problems.append(("optimize", f"raises:{type(opt).__name__}", repr(opt)[:300]))
        return ("fail" if problems else note), problems, pxs, len(parts) >= 2
    cst, changed = attempt(lambda: opt._name != e.lower_completely()._name)
    changed = bool(changed) if cst == "ok" else False
    rst, res = attempt(lambda: materialize(opt))
    if rst == "exc":
        if note == "ok" and not isinstance(res, dfh.PyArrowUnavailable):
            problems.append(("optimized", f"raises:{type(res).__name__}", repr(res)[:300]))
    elif note == "ok":
        why = same(res, reference, mode)
        if why:
            problems.append(("optimized", "wrong:" + P.diff_class(res, reference, mode[0]), why))
    # ---- re-optimizing the optimized expression
    if not problems and note == "ok":
        ost2, opt2 = attempt(lambda: optimize_until(opt, "fused"))
        if ost2 == "exc":
            kind_ = "non-convergence" if (isinstance(opt2, RuntimeError) and "does not converge" in str(opt2)) else f"raises:{type(opt2).__name__}"
            problems.append(("reoptimize", kind_, repr(opt2)[:300]))
        elif opt2._name != opt._name:
            rst2, res2 = attempt(lambda: materialize(opt2))
            if rst2 == "exc":
                if rst == "ok":
                    problems.append(("reoptimized", f"raises:{type(res2).__name__}", repr(res2)[:300]))
            elif rst == "ok":
                why = same(res2, res, mode)
                if why:
                    problems.append(("reoptimized", "wrong:" + P.diff_class(res2, res, mode[0]), why))
    # ---- name the first stage whose result is wrong
    if problems and problems[0][0] == "optimized":
        for stage in STAGES:
            sst, sres = attempt(lambda: materialize(optimize_until(e, stage)))
            bad = (sst == "exc") if rst == "exc" else (sst == "ok" and same(sres, reference, mode) is not None)
            if bad:
                problems[0] = (stage,) + problems[0][1:]
                break
    return ("fail" if problems else note), problems, pxs, (len(parts) >= 2 and changed)


QUIET = ("ok", "baseline_differs", "baseline_raises", "construct_raises", "not_lazy", "out_of_scope", "unsupported_api")


def first_failing_prefix(case):
    prog = case[5]
    for k in range(1, len(prog)):
        r = evaluate(case[:5] + (prog[:k],), None)
        if r[0] == "fail":
            return k, r
    return len(prog), None


REDUCTIONS = {"sum", "count", "max", "min", "mean", "nunique", "std", "var", "size", "any", "all", "prod", "median", "describe", "value_counts", "unique"}


def consumer_class(step):
    t = step[0]
    if t in ("col", "cols", "iloc"):
        return "projection"
    if t in ("item", "loc", "locs"):
        return "filter"
    if t in ("bin", "un"):
        return "binary"
    if t == "lib":
        return step[1]
    if t == "call":
        m = step[2]
        if m in P.ARITH or m in P.COMPARE:
            return "binary"
        if m in REDUCTIONS:
            return "groupby-reduction" if "groupby" in P.chain_sig(step) else "reduction"
        return m
    if t in ("acc", "accitem"):
        return "accessor"
    return P.chain_sig(step)


def ALPHABET(p, level="full"):
    return P.opt_ext_steps_for(p) + P.steps_for(p, "full") + P.or_filter_steps(p, 5)


def producer_name(step):
    """like P.chain_sig, but a filter whose predicate is an OR is its own producer class (it is rewritten by rewrite_filters)"""
    if step[0] in ("item", "loc") and step[2][0] == "bin" and step[2][1] == "|":
        return "filter[or]"
    return P.chain_sig(step)


def minimize(case, problems):
    """delta-debugging on the step sequence: drop steps while the program stays valid for pandas and still fails in the same way
    (same stage-independent failure kind); the surviving steps name the finding"""
    prog = list(case[5])
    kind0 = problems[0][1].split(":")[0]
    root = dfh.with_index(dfh.base_frames(0, NROWS)[case[1]], case[2])
    progress = True
    while progress and len(prog) > 1:
        progress = False
        for i in range(len(prog) - 1, -1, -1):
            cand = tuple(prog[:i] + prog[i + 1 :])
            st, cxs = attempt(lambda: P.run_pandas(cand, root, None))
            if st == "exc" or not P.in_alphabet(cand, cxs, ALPHABET):
                continue  # stay inside the enumerated space
            r = evaluate(case[:5] + (cand,), None)
            if r[0] == "fail" and r[1][0][1].split(":")[0] == kind0:
                prog, problems, progress = list(cand), r[1], True
                break
    return tuple(prog), problems


def run_case(case, ctx, pxs=None):
    status, problems, pxs, nontrivial = evaluate(case, pxs)
    ctx.case(case, nontrivial=nontrivial, outcome=(P.summary(pxs[-1]), status))
    if status == "ok":
        return
    if status in QUIET:
        ctx.count(status)
        return
    prog, problems = minimize(case, problems)
    # name = the producer whose rewrite goes wrong (every consumer class of it is one finding); a 1-step program is named by itself
    name = (producer_name(prog[-2]) + ">*") if len(prog) >= 2 else producer_name(prog[-1])
    for stage, failure, detail in problems:
        ctx.violation(f"{stage}:{failure}:{name}", case, f"minimal failing program [{P.program_src(prog)}]: {detail}")


def run_shard(shard, ctx):
    counters = {}
    for case, xs in cases_of(shard, ctx.tier, counters):
        if ctx.out_of_time():
            break
        ctx.guard(case, run_case, case, ctx, xs, hang_key="optimize:HANG")
    for name, n in counters.items():
        ctx.count(name, n)


def replay(case, ctx):
    run_case(case, ctx)
