"""C47 -- DataFrame file round trips preserve data, CSV half (DESIGN 5/C47; the parquet half needs the real pyarrow C++
library and is not applicable in this sandbox, DESIGN section 6).

E4: exhaustive small scope on the real dask.dataframe.read_csv / to_csv.
  read : a CSV file (hand-written corner files + EVERY file of a small generated grammar) x EVERY blocksize from 1 byte to
         len+1 and None  ->  dd.read_csv(path, blocksize=b, **kw).compute() must equal pandas.read_csv(path, **kw).
  rt   : a small frame x EVERY partitioning (empty partitions included) x to_csv layout (globstring, directory, explicit
         list, name_function, single_file) x index x header_first_partition_only -> read back with dd.read_csv (whole files
         and a small blocksize) must equal the pandas round trip of the unpartitioned frame, which must equal the frame.
"""
from __future__ import annotations

import io
import itertools
import os
import shutil
import tempfile

from mc import dfh  # FIRST: installs the pyarrow stand-in and imports dask.dataframe

import numpy as np
import pandas as pd

from mc.run import Hang

ID = "C47"
LEVEL = "exploration"
WATCHDOG_S = 30.0
ASSUMPTIONS = [
    "CSV half only: to_parquet/read_parquet call into the pyarrow C++ library, which is absent (DESIGN section 6)",
    "local files in a per-shard tempfile.mkdtemp() that is removed; sync scheduler",
    "row labels: dd.read_csv documents per-partition RangeIndexes, so frames are compared after reset_index(drop=True) "
    "(rows, order, values, columns and dtypes are compared exactly)",
    "documented limitations are excluded a priori: quoted fields containing the line terminator are only read with "
    "blocksize=None (read_csv docstring); every column of a file has one type and files have <= sample_rows rows or "
    "homogeneous columns (dtype inference from the head sample is documented); ValueError('Sample is not large enough') "
    "(skiprows with a tiny blocksize) counts as rejected",
    "when the first written file of a multi-file layout holds no data row, read_csv is given explicit dtypes (the "
    "docstring's recommended remedy: inference reads the start of the first file only)",
    "empty strings are outside the alphabet (the CSV text format itself cannot tell '' from NA: pandas alone does not round-trip them)",
]

# ------------------------------------------------------------------ read: files
HAND = {
    # name: (text, read kwargs)
    "num": ("a,b\n1,2.5\n3,\n5,0.5\n-7,1e3\n", {}),
    "noeol": ("a,b\n1,2.5\n3,\n5,0.5", {}),
    "crlf": ("a,b\r\n1,2.5\r\n3,\r\n5,0.5\r\n", {}),
    "blank": ("a,b\n1,2.5\n\n3,\n\n\n5,0.5\n", {}),
    "quoted": ('s,n\n"x,y",1\n"he said ""hi""",2\nplain,3\n" lead",4\n,5\n', {}),
    "utf8": ('s,n\né,1\n"ü,ö",2\nz,3\n', {}),
    "bool": ("b,c\nTrue,x\nFalse,y\nTrue,z\n", {}),
    "dt": ("t,v\n2020-01-01 06:00:00,1\n2020-01-02 12:30:00,2\n,3\n2020-01-04 00:00:00,4\n", {"parse_dates": ["t"]}),
    "dt2": ("t,v\n2020-01-01 06:00:00,1\n2020-01-02 12:30:00,2\n2020-01-04 00:00:00,4\n", {"parse_dates": ["t"]}),
    "names": ("1,2.5\n3,\n5,0.5\n", {"header": None, "names": ["a", "b"]}),
    "rename": ("a,b\n1,2\n3,4\n5,6\n", {"header": 0, "names": ["x", "y"]}),
    "skiprows": ("junk line\na,b\n1,2.5\n3,\n5,0.5\n", {"skiprows": 1}),
    "comment": ("a,b\n#c1\n1,2.5\n3, #x\n5,0.5\n", {"comment": "#"}),
    "headeronly": ("a,b\n", {}),
    "onerow": ("a,b\n1,2\n", {}),
    "rows12": ("a,b\n" + "".join(f"{i},{i / 2}\n" for i in range(12)), {}),
    "hdrprefix": ("a\napple\nbanana\navocado\ncherry\n", {}),
    "hdrrow": ("a,b\nx,y\na,b\nz,w\n", {}),
    "nlquote": ('s,n\n"x\ny",1\nz,2\n', {}),
    "sep": ("a;b\n1;2\n3;4\n", {"sep": ";"}),
    "dtype": ("a,b\n1,2\n3,4\n", {"dtype": {"a": "float64"}}),
    "usecols": ("a,b,c\n1,2,3\n4,5,6\n", {"usecols": ["a", "c"]}),
}
G2_S = ("x", '"x,y"', '"q""r"', "", "s")
G2_N = ("1", "22", "")
G2_ROWS = tuple(f"{s},{n}" for s in G2_S for n in G2_N)  # 15 row texts, header "s,n"
G1_VALS = ("a", "ab", "b", "c d")  # single column named "a": values that do / do not start with the header text
G2_K = {"quick": 2, "thorough": 3}
G2_SUB = (0, 4, 8, 9, 13, 11)  # quick tier: 3-row files over these 6 row texts only (x,1 / "x,y",22 / "q""r", / ,1 / s,22 / ,)
G1_K = {"quick": 4, "thorough": 6}


def file_of(fid):
    """-> (text, read kwargs)"""
    if fid[0] == "h":
        return HAND[fid[1]]
    if fid[0] == "g2":
        return "s,n\n" + "".join(G2_ROWS[i] + "\n" for i in fid[1]), {}
    if fid[0] == "g1":
        return "a\n" + "".join(G1_VALS[i] + "\n" for i in fid[1]), {}
    raise ValueError(fid)


def all_files(tier):
    out = [("h", k) for k in HAND]
    for k in range(1, G2_K[tier] + 1):
        out += [("g2", rs) for rs in itertools.product(range(len(G2_ROWS)), repeat=k)]
    if tier == "quick":
        out += [("g2", rs) for rs in itertools.product(G2_SUB, repeat=3)]
    for k in range(1, G1_K[tier] + 1):
        out += [("g1", rs) for rs in itertools.product(range(len(G1_VALS)), repeat=k)]
    return out


# ------------------------------------------------------------------ rt: frames
FRAMES = ("num", "str", "nl", "dt", "dtmid", "bool")
RT_ROWS = {"quick": 5, "thorough": 6}
RT_MAXPARTS = {"quick": 3, "thorough": 4}
LAYOUTS = ("glob", "dir", "list", "namefn", "single")
DATE_FMT = "%Y-%m-%d %H:%M:%S"


def name_fn(i):
    return f"part{i:03d}x"


def make_frame(name, n, seed):
    rng = np.random.RandomState(seed)
    perm = rng.permutation(5)[:n] if n <= 5 else np.concatenate([rng.permutation(5), np.arange(n - 5) % 5])
    ints = np.array([3, -1, 20, 5, 0])[perm]
    if name == "num":
        cols = {"i": ints, "f": np.array([1.5, np.nan, 0.1, -2.0, 1e-7])[perm]}
    elif name == "num11":
        cols = {"i": np.arange(n) * 7 % 11, "f": np.arange(n) / 4.0}
    elif name == "str":
        cols = {"s": np.array(["x,y", 'he said "hi"', None, " lead", "s,n"], dtype=object)[perm], "n": ints}
    elif name == "nl":
        cols = {"s": np.array(["x\ny", "plain", "a,\nb", None, '"'], dtype=object)[perm], "n": ints}
    elif name == "dt":
        t = pd.to_datetime(["2020-01-01 06:00:00", "2020-01-02 12:30:00", None, "2021-05-05 23:59:59", "2019-12-31 00:00:01"])
        cols = {"t": t[perm], "v": ints}
    elif name == "dtmid":
        t = pd.to_datetime(["2020-01-01 00:00:00", "2020-01-02 12:30:00", "2020-01-03 00:00:00", "2021-05-05 00:00:00", "2019-12-31 00:00:01"])
        cols = {"t": t[perm], "v": ints}
    elif name == "bool":
        cols = {"b": np.array([True, False, True, True, False])[perm], "i": ints}
    else:
        raise ValueError(name)
    return pd.DataFrame(cols, index=pd.Index(np.arange(n) * 10 + 10, name="idx"))


# ------------------------------------------------------------------ enumeration
NSHARD = {"quick": {"read": 24, "rt": 24}, "thorough": {"read": 64, "rt": 64}}


def RULE(tier):
    nf = len(all_files(tier))
    return (
        f"read: {len(HAND)} hand-written corner files (NA, no final newline, CRLF, blank lines, quoted commas/quotes/newline, UTF-8, bool, "
        f"parse_dates, names/header/skiprows/comment/sep/dtype/usecols, rows equal to or starting with the header text) + EVERY file of the "
        f"grammars header 's,n' x rows over {len(G2_ROWS)} row texts (<= {G2_K[tier]} rows) (quick: 3-row files over 6 of them) and header 'a' x values {G1_VALS} (<= {G1_K[tier]} rows): "
        f"{nf} files x EVERY blocksize 1..len+1 and None; oracle = pandas.read_csv on the same file. "
        f"rt: frames {FRAMES} of {RT_ROWS[tier]} rows x EVERY partitioning into <= {RT_MAXPARTS[tier]} partitions incl. empty ones x to_csv layout "
        f"{LAYOUTS} x index True/False (+ header_first_partition_only, + an 11-partition frame for file ordering) x read-back blocksize None/16; "
        f"oracle = pandas round trip of the whole frame == original. non-trivial = >= 2 blocks / >= 2 partitions."
    )


def shards(tier):
    out = []
    for fam in ("rt", "read"):
        k = NSHARD[tier][fam]
        out += [(fam, part, k) for part in range(k)]
    return out


def cases_of(shard, tier):
    fam, part, nparts = shard
    if fam == "read":
        for fi, fid in enumerate(all_files(tier)):
            if fi % nparts != part:
                continue
            text, _ = file_of(fid)
            nbytes = len(text.encode())
            yield ("read", fid, None)
            if fid == ("h", "nlquote"):
                continue  # documented: quoted line terminators need blocksize=None
            for b in range(1, nbytes + 2):
                yield ("read", fid, b)
    else:
        n = RT_ROWS[tier]
        allparts = dfh.partitionings(n, RT_MAXPARTS[tier])
        i = -1
        for frame in FRAMES:
            for parts in allparts:
                i += 1
                if i % nparts != part:
                    continue
                for rb in (None, 16):
                    if frame == "nl" and rb is not None:
                        continue  # documented: quoted line terminators need blocksize=None
                    for index in (True, False):
                        for layout in LAYOUTS:
                            yield ("rt", frame, n, parts, layout, index, None, rb)
                    yield ("rt", frame, n, parts, "glob", True, True, rb)
        if part == 0:
            for layout in ("glob", "dir", "single"):
                yield ("rt", "num11", 11, (1,) * 11, layout, True, None, None)
                yield ("rt", "num11", 11, (1,) * 11, layout, False, None, 16)


# ------------------------------------------------------------------ known findings: narrow input classes
def read_class(text, kw, blocksize):
    if blocksize is None:
        return None
    lines = text.encode().split(b"\n")
    if "names" not in kw and "skiprows" not in kw and len(lines) > 1:
        hdr = lines[0].rstrip()
        if any(ln.startswith(hdr) for ln in lines[1:] if ln):
            return "row-starts-with-header-text"
    if "parse_dates" in kw:
        return "parse_dates-empty-or-all-NaT-block"
    return None


def rt_class(case, pdf):
    _, frame, n, parts, layout, index, hfpo, rb = case
    nonempty = [p for p in parts if p > 0]
    if frame == "dtmid" and len(nonempty) >= 2:
        return "datetime-midnight-partitions"  # pandas.to_csv picks the date text format per call (= per partition)
    if frame in ("dt", "dtmid"):
        b = np.cumsum((0,) + tuple(parts))
        blocks = [pdf["t"].iloc[int(b[i]) : int(b[i + 1])] for i in range(len(parts))]
        if rb is not None or (layout != "single" and hfpo is None and any(len(x) == 0 or x.isna().all() for x in blocks)):
            return "parse_dates-empty-or-all-NaT-block"
    return None


# ------------------------------------------------------------------ running
_TMP = {"dir": None}


def tmpdir():
    if _TMP["dir"] is None or not os.path.isdir(_TMP["dir"]):
        _TMP["dir"] = tempfile.mkdtemp(prefix="c47-")
    return _TMP["dir"]


def cleanup():
    if _TMP["dir"] is not None:
        shutil.rmtree(_TMP["dir"], ignore_errors=True)
        _TMP["dir"] = None


def messages(e):
    out, seen = [], 0
    while e is not None and seen < 5:
        out.append(str(e))
        e = e.__cause__ or e.__context__
        seen += 1
    return " | ".join(out)


def classify(e):
    c = dfh.classify_exc(e)
    if c != "crash":
        return c
    if isinstance(e, ValueError) and "Sample is not large enough" in messages(e):
        return "rejected"
    return "crash"


def run_read(case, ctx):
    _, fid, blocksize = case
    text, kw = file_of(fid)
    path = os.path.join(tmpdir(), "in.csv")
    with open(path, "wb") as f:
        f.write(text.encode())
    try:
        want = pd.read_csv(path, **kw)
    except Hang:
        raise
    except Exception as e:  # noqa: BLE001
        ctx.count("inapplicable")
        ctx.case(case, nontrivial=False, outcome=("ref-raises", type(e).__name__))
        return
    nblocks = None
    try:
        d = dfh.dd.read_csv(path, blocksize=blocksize, **kw)
        nblocks = d.npartitions
        got = d.compute().reset_index(drop=True)
        exc = None
    except Hang:
        raise
    except Exception as e:  # noqa: BLE001
        got, exc = None, e
    nontrivial = bool(nblocks and nblocks >= 2)
    if exc is not None:
        cls = classify(exc)
        if cls in ("rejected", "out_of_scope"):
            ctx.case(case, nontrivial=False, outcome=("read", cls))
            ctx.count(cls)
            return
        ctx.case(case, nontrivial=nontrivial, outcome=("read", "raises", type(exc).__name__))
        sub = read_class(text, kw, blocksize)
        ctx.violation(f"read_csv:dask-raises:{type(exc).__name__}" + (f":{sub}" if sub else ""), case, f"dask raised {messages(exc)[:700]!r}; pandas gives\n{want!r}")
        return
    why = dfh.equal(got, want)
    ctx.case(case, nontrivial=nontrivial, outcome=("read", fid[0], nblocks, why is None))
    if why is None:
        return
    failure = "wrong-dtype" if dfh.equal(got, want, check_dtype=False) is None else "wrong-value"
    sub = read_class(text, kw, blocksize)
    ctx.violation(f"read_csv:{failure}" + (f":{sub}" if sub else ""), case, f"{why}\n got:\n{got!r}\n want:\n{want!r}")


def run_rt(case, ctx):
    _, frame, n, parts, layout, index, hfpo, rb = case
    pdf = make_frame(frame, n, ctx.seed)
    has_dt = "t" in pdf.columns
    wkw = {"index": index}
    if has_dt and frame != "dtmid":
        wkw["date_format"] = DATE_FMT
    rkw = {"parse_dates": ["t"]} if has_dt else {}
    # reference: the pandas round trip of the whole frame; it must reproduce the frame itself
    want = pd.read_csv(io.StringIO(pdf.to_csv(**wkw)), **rkw)
    if dfh.equal(want, pdf.reset_index(drop=not index), check_dtype=True) is not None:
        ctx.count("inapplicable_pandas_roundtrip_lossy")
        ctx.case(case, nontrivial=False, outcome=("rt", "lossy-reference"))
        return
    out = os.path.join(tmpdir(), "out")
    shutil.rmtree(out, ignore_errors=True)
    os.makedirs(out)
    k = len(parts)
    nontrivial = sum(1 for p in parts if p > 0) >= 2
    sub = rt_class(case, pdf)
    suffix = f":{sub}" if sub else ""
    try:
        d = dfh.build(pdf, parts)
        kwargs = dict(wkw)
        if hfpo is not None:
            kwargs["header_first_partition_only"] = hfpo
        if layout == "glob":
            target, expect = os.path.join(out, "p-*.csv"), None
        elif layout == "dir":
            target, expect = os.path.join(out, "sub"), None
        elif layout == "list":
            expect = [f"f{chr(97 + i)}.csv" for i in range(k)]
            target = [os.path.join(out, x) for x in expect]
        elif layout == "namefn":
            target, expect = os.path.join(out, "p-*.csv"), [f"p-{name_fn(i)}.csv" for i in range(k)]
            kwargs["name_function"] = name_fn
        elif layout == "single":
            target, expect = os.path.join(out, "all.csv"), ["all.csv"]
            kwargs["single_file"] = True
        else:
            raise ValueError(layout)
        names = d.to_csv(target, **kwargs)
        # ---- written layout
        base = [os.path.basename(x) for x in names]
        on_disk = sorted(os.path.relpath(os.path.join(r, f), out) for r, _, fs in os.walk(out) for f in fs)
        nfiles = 1 if layout == "single" else k
        problem = None
        if len(names) != nfiles or any(not os.path.isfile(x) for x in names):
            problem = f"returned names {names} are not {nfiles} existing files"
        elif sorted(os.path.relpath(x, out) for x in names) != on_disk:
            problem = f"files on disk {on_disk} != returned names {names}"
        elif expect is not None and base != expect:
            problem = f"file names {base} != {expect}"
        elif sorted(names) != list(names):
            problem = f"file names {base} do not sort in partition order"
        if problem:
            ctx.case(case, nontrivial=nontrivial, outcome=("rt", "files"))
            ctx.violation(f"to_csv:wrong-files{suffix}", case, problem)
            return
        # ---- read back
        if hfpo:
            # only the first file carries the header: the concatenated text must be the CSV of the whole frame
            textcat = "".join(open(x, newline="").read() for x in names)
            got = pd.read_csv(io.StringIO(textcat), **rkw)
        else:
            rk = dict(rkw)
            if layout != "single":
                # documented: dtypes are inferred from the start of the FIRST file only.  Where pandas itself infers other
                # dtypes from the first file alone (no rows, or only NA in a column), use the documented remedy dtype=...;
                # for a date column there is no such remedy: out of scope.
                first = pd.read_csv(io.StringIO(pdf.iloc[: parts[0]].to_csv(**wkw)), **rkw).dtypes
                differ = [c for c in want.columns if first[c] != want.dtypes[c]]
                if "t" in differ:
                    ctx.count("out_of_scope_first_file_dtype_inference")
                    ctx.case(case, nontrivial=False, outcome=("rt", "first-file-inference"))
                    return
                if differ:
                    rk["dtype"] = {c: want.dtypes[c] for c in differ}
            src = os.path.join(out, "sub", "*.part") if layout == "dir" else (list(names) if layout == "list" else target)
            got = dfh.dd.read_csv(src, blocksize=rb, **rk).compute().reset_index(drop=True)
        exc = None
    except Hang:
        raise
    except Exception as e:  # noqa: BLE001
        got, exc = None, e
    if exc is not None:
        cls = classify(exc)
        if cls in ("rejected", "out_of_scope"):
            ctx.case(case, nontrivial=False, outcome=("rt", cls))
            ctx.count(cls)
            return
        ctx.case(case, nontrivial=nontrivial, outcome=("rt", "raises", type(exc).__name__))
        ctx.violation(f"roundtrip:dask-raises:{type(exc).__name__}{suffix}", case, f"dask raised {messages(exc)[:700]!r}; expected\n{want!r}")
        return
    why = dfh.equal(got, want)
    ctx.case(case, nontrivial=nontrivial, outcome=("rt", frame, layout, index, why is None))
    if why is None:
        return
    failure = "wrong-dtype" if dfh.equal(got, want, check_dtype=False) is None else "wrong-value"
    ctx.violation(f"roundtrip:{failure}{suffix}", case, f"{why}\n got:\n{got!r}\n want:\n{want!r}")


def run_case(case, ctx):
    if case[0] == "read":
        run_read(case, ctx)
    else:
        run_rt(case, ctx)


def run_shard(shard, ctx):
    try:
        for case in cases_of(shard, ctx.tier):
            if ctx.out_of_time():
                return
            ctx.guard(case, run_case, case, ctx)
    finally:
        cleanup()


def replay(case, ctx):
    try:
        run_case(case, ctx)
    finally:
        cleanup()
