"""C37 -- DataFrame/Series reductions and aggregations equal pandas (DESIGN 5/C37).  E4: exhaustive small scope.

program = (frame, index kind, target (whole frame | one column | column pair), reduction, keyword options);
configuration = (partitioning incl. empty partitions, split_every).  Reference = the same call on the whole pandas object."""
from __future__ import annotations

from mc import dfh  # FIRST: installs the pyarrow stand-in

import numpy as np
import pandas as pd

from mc.run import Hang

ID = "C37"
LEVEL = "exploration"
WATCHDOG_S = 30.0
NSHARDS = 64
NROWS = {"quick": 4, "thorough": 5}
ASSUMPTIONS = [
    "sync scheduler; pyarrow stand-in (object-dtype strings); pandas 3.0.5 on the whole frame is the reference",
    "a case where pandas itself raises is inapplicable (dask is then not run); NotImplementedError from dask is a documented refusal (counted)",
    "floating results: rtol 1e-9*nrows; integer/bool/datetime results exact; dtype, index labels, names and (where pandas defines it) order are part "
    "of the value; value_counts is compared as a multiset of (label, count) plus monotone counts when sort=True (order of ties is not promised)",
    "for <= 8 partitions split_every None/False and every int >= npartitions build the same tree (TreeReduce._layer), so the quick tier runs "
    "only the values that give distinct trees per partition count plus None once; the thorough tier runs all four everywhere",
]

STATS = ("sum", "prod", "min", "max", "mean", "var", "std", "sem")
DESCRIBE_ROWS = ("count", "mean", "std", "min", "max")
SPLIT_EVERY = (2, 3, False, None)


def RULE(tier):
    n = NROWS[tier]
    if tier == "quick":
        parts = f"every split of the {n} rows into <= 3 consecutive partitions incl. empty ones, plus (1,1,1,1)"
        se = "split_every: 1-2 partitions {False}, 3 partitions {2} (+None when no partition is empty), 4 partitions {2,3,False,None}"
        idx = "RangeIndex (idxmin/idxmax/nlargest/nsmallest additionally: unsorted index with duplicate labels)"
    else:
        parts = f"every split of the {n} rows into <= 4 consecutive partitions incl. empty ones"
        se = "split_every in {2,3,False,None} for every partitioning"
        idx = "RangeIndex (frame 'num' also with an unsorted index = unknown divisions; idxmin/idxmax and Series.nlargest/nsmallest: all 5 index kinds; frame nlargest/nsmallest: 3 kinds)"
    return (
        f"7 frames of {n} rows (int+float-with-NaN, two float-with-NaN columns, bool, str, datetime, categorical, nullable Int64 columns) x target (whole frame, each "
        "distinctive column) x {sum,prod,min,max,mean,var,std,sem} x axis {0,1} x skipna x numeric_only (+ddof=0, min_count in {1, nrows}); count; any/all; "
        "idxmin/idxmax; nunique x dropna; value_counts x sort x ascending x dropna x normalize; mode; nlargest/nsmallest x n x columns; describe "
        "(count/mean/std/min/max rows); cov/corr x min_periods (frame, and column pairs); len -- x " + parts + "; " + se + "; index: " + idx + ". "
        "Oracle: result equals the pandas call on the whole object. non-trivial = >= 2 non-empty partitions."
    )


# ------------------------------------------------------------------ data
_FR = {}


def frames(seed, nrows):
    if (seed, nrows) not in _FR:
        _FR[(seed, nrows)] = _frames(seed, nrows)
    return _FR[(seed, nrows)]


def _frames(seed, nrows):
    fr = dict(dfh.base_frames(seed, nrows))
    perm = np.random.RandomState(seed).permutation(nrows)  # same permutation as dfh.base_frames
    f = fr["num"]["f"].to_numpy()
    h = np.array([np.nan, 0.5, -1.0, 8.0, 2.5, np.nan][:nrows])[perm]
    fr["flt2"] = pd.DataFrame({"a": fr["num"]["a"].to_numpy(), "f": f, "h": h, "g": fr["num"]["g"].to_numpy()})
    return fr


# columns that get a Series-level sweep (a/g are the same int columns in every frame: swept once, in "num")
SERIES_COLS = {"num": ("a", "g", "f"), "flt2": ("h",), "bool": ("b",), "str": ("s",), "dt": ("t",), "cat": ("c",), "nullable": ("n",)}
FRAME_ORDER = ("num", "flt2", "bool", "nullable", "str", "dt", "cat")
PAIRS = {"num": (("a", "f"), ("a", "g")), "flt2": (("f", "h"),), "nullable": (("a", "n"),)}


def kw(**k):
    return tuple(sorted(k.items()))


def programs(tier):
    """-> list of (frame, index_kind, target, op, kwargs, uses_split_every)"""
    n = NROWS[tier]
    out = []
    lab_idx = ("range", "unsorted") if tier == "quick" else dfh.INDEX_KINDS  # "unsorted" also has duplicate labels
    ns = (1, 2) if tier == "quick" else (1, 2, 3, n, n + 1)
    for fname in FRAME_ORDER:
        # label-independent reductions: RangeIndex (known divisions); thorough adds an unsorted index (unknown divisions) for "num"
        base_idx = ("range", "unsorted") if tier == "thorough" and fname == "num" else ("range",)
        # ---------------- whole frame
        for ik in base_idx:
            P = lambda op, k, se=True: out.append((fname, ik, "df", op, k, se))  # noqa: E731
            # quick: numeric_only=True on the dt/cat frames selects the same [a, g] sub-frame as on the str frame -> once
            nos = (False,) if tier == "quick" and fname in ("dt", "cat") else (False, True)
            for op in STATS:
                for skipna in (True, False):
                    for numeric_only in nos:
                        P(op, kw(axis=0, skipna=skipna, numeric_only=numeric_only))
                        P(op, kw(axis=1, skipna=skipna, numeric_only=numeric_only), False)
            if True in nos:
                for op in ("var", "std", "sem"):
                    P(op, kw(axis=0, ddof=0, numeric_only=True))
                for op in ("sum", "prod"):
                    P(op, kw(axis=0, min_count=1, numeric_only=True))
                    P(op, kw(axis=0, min_count=n, numeric_only=True))
            for numeric_only in (False, True):
                P("count", kw(axis=0, numeric_only=numeric_only))
                P("count", kw(axis=1, numeric_only=numeric_only), False)
            for op in ("any", "all"):
                for skipna in (True, False):
                    P(op, kw(axis=0, skipna=skipna))
                    P(op, kw(axis=1, skipna=skipna), False)
            for dropna in (True, False):
                P("nunique", kw(axis=0, dropna=dropna))
                P("nunique", kw(axis=1, dropna=dropna), False)
                for numeric_only in (False, True):
                    P("mode", kw(dropna=dropna, numeric_only=numeric_only))
            P("describe", ())
            for op in ("cov", "corr"):
                for mp in (None, 2, n):
                    P(op, kw(min_periods=mp, numeric_only=True))
                P(op, kw(numeric_only=False))
            P("len", (), False)
        for ik in lab_idx:
            P = lambda op, k, se=True: out.append((fname, ik, "df", op, k, se))  # noqa: E731
            for op in ("idxmin", "idxmax"):
                for skipna in (True, False):
                    for numeric_only in (False, True):
                        P(op, kw(axis=0, skipna=skipna, numeric_only=numeric_only))
                        if ik == "range":  # axis=1 returns column labels: independent of the row index
                            P(op, kw(axis=1, skipna=skipna, numeric_only=numeric_only), False)
            distinctive = SERIES_COLS[fname][-1]
            if tier == "quick" or ik in ("range", "sorted_dup", "unsorted"):
                for op in ("nlargest", "nsmallest"):
                    for k in ns if tier == "quick" else (1, 2, n + 1):
                        for cols in ("a", ("g", distinctive)) if tier == "quick" else ("a", ("g", "a"), distinctive, ("g", distinctive)):
                            P(op, kw(n=k, columns=cols))
        # ---------------- one column
        for col in SERIES_COLS[fname]:
            for ik in base_idx:
                P = lambda op, k, se=True: out.append((fname, ik, col, op, k, se))  # noqa: E731
                for op in STATS:
                    for skipna in (True, False):
                        P(op, kw(skipna=skipna))
                for op in ("var", "std", "sem"):
                    P(op, kw(ddof=0))
                for op in ("sum", "prod"):
                    P(op, kw(min_count=1))
                    P(op, kw(min_count=n))
                P("count", ())
                for op in ("any", "all"):
                    for skipna in (True, False):
                        P(op, kw(skipna=skipna))
                for dropna in (True, False):
                    P("nunique", kw(dropna=dropna))
                    P("mode", kw(dropna=dropna))
                    for normalize in (False, True):
                        for sort, asc in ((None, False), (True, False), (True, True), (False, False)):
                            P("value_counts", kw(sort=sort, ascending=asc, dropna=dropna, normalize=normalize))
                P("describe", ())
                P("len", (), False)
            for ik in lab_idx:
                P = lambda op, k, se=True: out.append((fname, ik, col, op, k, se))  # noqa: E731
                for op in ("idxmin", "idxmax"):
                    for skipna in (True, False):
                        P(op, kw(skipna=skipna))
                for op in ("nlargest", "nsmallest"):
                    for k in ns:
                        P(op, kw(n=k))
        # ---------------- column pairs (Series.cov / Series.corr)
        for pair in PAIRS.get(fname, ()):
            for op in ("cov", "corr"):
                for mp in (None, 2, n):
                    out.append((fname, "range", ("pair",) + pair, op, kw(min_periods=mp), True))
    return out


def configs(tier):
    """-> list of (parts, split_every) for reductions that take split_every, and list of parts for the others"""
    n = NROWS[tier]
    if tier == "quick":
        parts = dfh.partitionings(n, 3, zeros=True) + [(1,) * n]
        with_se = []
        for p in parts:
            ses = (False,) if len(p) <= 2 else (((2, None) if 0 not in p else (2,)) if len(p) == 3 else SPLIT_EVERY)
            with_se += [(p, se) for se in ses]
    else:
        parts = dfh.partitionings(n, 4, zeros=True)
        with_se = [(p, se) for p in parts for se in SPLIT_EVERY]
    return with_se, [(p, False) for p in parts]


def shards(tier):
    return [("progs", i, NSHARDS) for i in range(NSHARDS)]


def cases_of(shard, tier):
    _, i, k = shard
    progs = programs(tier)
    with_se, without = configs(tier)
    for prog in progs[i::k]:
        fname, ik, target, op, kws, uses_se = prog
        for parts, se in with_se if uses_se else without:
            yield (fname, ik, target, op, kws, parts, se)


# ------------------------------------------------------------------ evaluation
def select(obj, target):
    if target == "df":
        return obj, None
    if isinstance(target, tuple):  # ("pair", x, y)
        return obj[target[1]], obj[target[2]]
    return obj[target], None


def call(obj, other, op, kws, split_every, is_dask):
    k = dict(kws)
    if "columns" in k and isinstance(k["columns"], tuple):
        k["columns"] = list(k["columns"])
    if op == "len":
        return len(obj)
    if is_dask and not (k.get("axis") == 1):
        k["split_every"] = split_every
    if op == "value_counts" and not is_dask and k.get("sort") is None:
        k["sort"] = True  # dask's default sort=None promises no order; compared unordered
    if op in ("cov", "corr") and other is not None:
        r = getattr(obj, op)(other, **k)
    else:
        r = getattr(obj, op)(**k)
    if is_dask:
        r = r.compute()
    if op == "describe":
        rows = [x for x in DESCRIBE_ROWS if x in r.index]
        r = r.loc[rows]
    return r


_REF = {}


def reference(case, seed, nrows):
    key = (seed, nrows) + tuple(case[:5])
    if key not in _REF:
        if len(_REF) > 64:
            _REF.clear()
        fname, ik, target, op, kws = case[:5]
        pdf = dfh.with_index(frames(seed, nrows)[fname], ik)
        obj, other = select(pdf, target)
        try:
            _REF[key] = ("ok", call(obj, other, op, kws, None, False))
        except Hang:
            raise
        except Exception as e:  # noqa: BLE001
            _REF[key] = ("exc", e)
    return _REF[key]


def scalar_kind(x):
    if isinstance(x, (pd.Timestamp, pd.Timedelta)) or x is pd.NaT:
        return "M"
    if x is pd.NA:
        return "NA"
    try:
        return np.asarray(x).dtype.kind
    except Exception:  # noqa: BLE001
        return type(x).__name__


def _scalar_diff(g, w, rtol):
    """-> None | ("wrong-dtype"|"wrong-value", text).  Time-valued results are derived through float arithmetic: 2 us slack."""
    gna, wna = pd.isna(g) is True, pd.isna(w) is True
    if gna or wna:
        if gna != wna:
            return "wrong-value", f"scalar {g!r} != {w!r}"
    elif isinstance(w, pd.Timedelta) and isinstance(g, pd.Timedelta):
        if not np.isclose(g.total_seconds(), w.total_seconds(), rtol=rtol, atol=2e-6):
            return "wrong-value", f"scalar {g!r} != {w!r}"
    elif isinstance(w, pd.Timestamp) and isinstance(g, pd.Timestamp):
        if abs((g - w).total_seconds()) > 2e-6:
            return "wrong-value", f"scalar {g!r} != {w!r}"
    else:
        why = dfh.equal(g, w, rtol=rtol)
        if why:
            return "wrong-value", why
    gk, wk = scalar_kind(g), scalar_kind(w)
    if gk != wk and not (gna and wna and {gk, wk} <= {"f", "M", "NA", "O"}):
        return "wrong-dtype", f"scalar kind {gk!r} ({g!r}) != {wk!r} ({w!r})"
    return None


def _plain_index(obj):
    """RangeIndex vs materialised int64 Index is a representation detail (pandas' nlargest returns RangeIndex(3,-3,-3))"""
    if isinstance(obj, (pd.Series, pd.DataFrame)) and isinstance(obj.index, pd.RangeIndex):
        obj = obj.copy()
        obj.index = pd.Index(obj.index.to_numpy(), name=obj.index.name)
    return obj


def _series_diff(g, w, rtol, check_dtype=True):
    if w.dtype == object or w.dtype.kind in "mM":
        if check_dtype and g.dtype != w.dtype:
            return f"dtype {g.dtype} != {w.dtype}"
        if g.name != w.name:
            return f"name {g.name!r} != {w.name!r}"
        why = dfh.equal(g.index, w.index)
        if why:
            return why
        for i, (a, b) in enumerate(zip(g.tolist() if g.dtype == object else list(g), w.tolist() if w.dtype == object else list(w))):
            d = _scalar_diff(a, b, rtol)
            if d and (check_dtype or d[0] == "wrong-value"):
                return f"element {i} ({w.index[i]!r}): {d[1]}"
        return None
    return dfh.equal(g, w, ordered=True, rtol=rtol, check_dtype=check_dtype)


def _strict(g, w, rtol, check_dtype=True):
    if isinstance(w, pd.DataFrame):
        if not isinstance(g, pd.DataFrame):
            return f"type {type(g).__name__} != DataFrame"
        if list(g.columns) != list(w.columns):
            return f"columns {list(g.columns)} != {list(w.columns)}"
        if any(w[c].dtype == object or w[c].dtype.kind in "mM" for c in w.columns) and w.columns.is_unique:
            for c in w.columns:
                why = _series_diff(g[c], w[c], rtol, check_dtype)
                if why:
                    return f"column {c!r}: {why}"
            return None
        return dfh.equal(g, w, ordered=True, rtol=rtol, check_dtype=check_dtype)
    if isinstance(w, pd.Series):
        if not isinstance(g, pd.Series):
            return f"type {type(g).__name__} != Series"
        return _series_diff(g, w, rtol, check_dtype)
    return dfh.equal(g, w, ordered=True, rtol=rtol, check_dtype=check_dtype)


def _sort_like(obj):
    key = pd.Series([tuple("~" if pd.isna(v) else repr(v) for v in (lab if isinstance(lab, tuple) else (lab,))) for lab in obj.index], dtype=object)
    rows = obj.astype(object).itertuples(index=False, name=None) if isinstance(obj, pd.DataFrame) else obj.tolist()
    body = [repr(v) for v in rows]
    pos = sorted(range(len(obj)), key=lambda i: (key.iloc[i], body[i]))
    return obj.iloc[pos]


def compare(got, want, op, kws, nrows):
    """-> None | (failure class, text): wrong-order (equal as labelled multiset), wrong-dtype (equal values), wrong-value"""
    rtol = 1e-9 * max(nrows, 1)
    k = dict(kws)
    got, want = _plain_index(got), _plain_index(want)
    if isinstance(want, (pd.DataFrame, pd.Series)):
        if type(got) is not type(want):
            return "wrong-value", f"type {type(got).__name__} != {type(want).__name__}"
        if op == "value_counts":
            if k.get("sort"):
                v = got.to_numpy()
                mono = np.all(v[:-1] <= v[1:]) if k.get("ascending") else np.all(v[:-1] >= v[1:])
                if not mono:
                    return "wrong-order", f"sort=True but counts not monotone: {v.tolist()}"
            got, want = _sort_like(got), _sort_like(want)
        why = _strict(got, want, rtol)
        if why is None:
            return None
        if len(got) == len(want) and _strict(_sort_like(got), _sort_like(want), rtol) is None:
            return "wrong-order", why
        if _strict(got, want, rtol, check_dtype=False) is None:
            return "wrong-dtype", why
        return "wrong-value", why
    d = _scalar_diff(got, want, rtol)
    return d


NA_COLS = {"num": ("f",), "flt2": ("f", "h"), "nullable": ("n",)}  # columns holding NaN / NA


def _cols_of(fname, target):
    if target == "df":
        return tuple(frames(0, 4)[fname].columns)
    return tuple(target[1:]) if isinstance(target, tuple) else (target,)


def _has_allna_partition(pdf, cols, parts):
    b = np.cumsum((0,) + tuple(parts))
    return any(b1 > b0 and any(pdf[c].iloc[b0:b1].isna().all() for c in cols if c in pdf.columns) for b0, b1 in zip(b[:-1], b[1:]))


FAMILY = {"min": "minmax", "max": "minmax", "var": "varstdsem", "std": "varstdsem", "sem": "varstdsem", "cov": "covcorr", "corr": "covcorr",
          "any": "anyall", "all": "anyall", "idxmin": "idxminmax", "idxmax": "idxminmax"}


def finding_key(case, failure, pdf):
    """'<op>[<df|series|pair>]:<failure>' for an unclassified failure; '<op family>:<failure>:<input class>' for the input
    classes of recorded findings (one key per defect, not per operation that shows it)"""
    op, target = case[3], case[2]
    cls = known_class(case, failure, pdf)
    if cls:
        return f"{FAMILY.get(op, op)}:{failure}:{cls}"
    tk = "df" if target == "df" else ("pair" if isinstance(target, tuple) else "series")
    return f"{op}[{tk}]:{failure}"


def known_class(case, failure, pdf):
    """narrow input classes of the findings recorded in C37.findings.json.  A failure of the same operation outside these
    classes (or of another failure kind) keeps its bare '<op>[..]:<failure>' key and is reported as new."""
    fname, ik, target, op, kws, parts, se = case
    k = dict(kws)
    cols = _cols_of(fname, target)
    is_df = target == "df"
    axis0 = k.get("axis", 0) == 0
    empty = 0 in parts
    nonnumeric = {"str": "s", "dt": "t", "cat": "c"}.get(fname)
    has_nonnumeric = nonnumeric in cols and not (is_df and k.get("numeric_only"))
    has_nullable = "n" in cols
    if op in ("min", "max") and axis0:
        if has_nullable and not is_df and k.get("skipna") is False and failure == "dask-raises:TypeError":
            return "nullable-skipna-false"
        if failure == "wrong-dtype" and (empty or _has_allna_partition(pdf, cols, parts)):
            return "empty-or-all-na-partition"  # a partition without any valid value contributes NaN
        if empty and failure == "dask-raises:TypeError":
            return "empty-partition"
        if empty and failure == "wrong-value" and k.get("skipna") is False:
            return "skipna-false-empty-partition"
    if op in ("var", "std", "sem") and axis0:
        if is_df and has_nullable and failure == "dask-raises:TypeError":
            return "nullable-int-column"
        if k.get("skipna") is False and empty and failure == "wrong-value":
            return "skipna-false-empty-partition"
    if op == "mean" and axis0 and fname == "dt" and has_nonnumeric and failure == "dask-raises:TypeError":
        return "datetime-column"
    if op == "corr" and is_df and fname == "dt" and failure == "dask-raises:TypeError":
        return "datetime-column"
    if op in ("cov", "corr") and k.get("min_periods") == sum(parts) and any(c in cols for c in NA_COLS.get(fname, ())) and failure == "wrong-value":
        return "min_periods-with-na"
    if op == "describe":
        if has_nullable and failure == "dask-raises:TypeError":
            return "nullable-int-column"
        if fname == "dt" and has_nonnumeric and failure == "wrong-value":
            return "datetime-column"
    if op in ("any", "all") and has_nullable and k.get("skipna") is False and axis0 and failure in ("wrong-value", "dask-raises:TypeError"):
        return "nullable-skipna-false"
    if op in ("any", "all", "prod") and is_df and k.get("axis") == 1 and fname in ("cat", "str") and has_nonnumeric and empty and failure == "dask-raises:TypeError":
        return "axis1-nonnumeric-empty-partition"
    if op in ("idxmin", "idxmax") and axis0:
        if failure == "wrong-order" and is_df:
            return "result-labels"
        if failure == "dask-raises:TypeError" and fname == "cat" and has_nonnumeric:
            return "unordered-categorical"
        if failure == "dask-raises:ValueError":
            if fname == "str" and has_nonnumeric and k.get("skipna") is False:
                return "str-skipna-false"
            if k.get("skipna", True) and _has_allna_partition(pdf, cols, parts):
                return "all-na-partition"
    return None


def n_nonempty(parts):
    return sum(1 for p in parts if p)


def summarize(r):
    if isinstance(r, pd.DataFrame):
        return ("frame", r.shape)
    if isinstance(r, pd.Series):
        return ("series", len(r), str(r.dtype))
    return ("scalar", scalar_kind(r))


def run_case(case, ctx):
    fname, ik, target, op, kws, parts, se = case
    nrows = sum(parts)
    status, want = reference(case, ctx.seed, nrows)
    nontrivial = n_nonempty(parts) >= 2
    if status == "exc":
        ctx.case(case, nontrivial=False, outcome=(op, "ref-raises", type(want).__name__))
        ctx.count("inapplicable")
        return
    pdf = dfh.with_index(frames(ctx.seed, nrows)[fname], ik)
    try:
        d = dfh.build(pdf, parts)
        obj, other = select(d, target)
        got = call(obj, other, op, kws, se, True)
        exc = None
    except Hang:
        raise
    except Exception as e:  # noqa: BLE001
        got, exc = None, e
    ctx.case(case, nontrivial=nontrivial, outcome=(op, summarize(want), type(exc).__name__))
    if exc is not None:
        cls = dfh.classify_exc(exc)
        if cls in ("rejected", "out_of_scope"):
            ctx.count(cls)
            return
        ctx.violation(finding_key(case, f"dask-raises:{type(exc).__name__}", pdf), case, f"dask raised {exc!r}; pandas gives {want!r}")
        return
    bad = compare(got, want, op, kws, nrows)
    if bad:
        ctx.violation(finding_key(case, bad[0], pdf), case, f"{bad[1]} | got {got!r} | want {want!r}")


def run_shard(shard, ctx):
    for case in cases_of(shard, ctx.tier):
        if ctx.out_of_time():
            return
        ctx.guard(case, run_case, case, ctx)


def replay(case, ctx):
    run_case(case, ctx)
