"""Helpers shared by C41 / C44: seed-chosen value alphabets, truthful known-division sources with empty partitions,
and the literal divisions oracle of C41 (also checks that divisions are ordered, which dfh.divisions_problem does not)."""
from __future__ import annotations

import mc.dfh as dfh  # FIRST: installs the pyarrow stand-in
import numpy as np
import pandas as pd

import dask
from dask import delayed

KINDS = ("int", "float", "str", "dt")


def alphabet(kind, size, seed):
    """strictly increasing values; the seed only moves the concrete values"""
    rng = np.random.RandomState(2000 + seed)
    ints = (np.cumsum(rng.randint(1, 4, size=size)) - 2).astype("int64")
    if kind == "int":
        return [int(v) for v in ints]
    if kind == "float":
        return [float(v) * 0.75 - 0.5 for v in ints]
    if kind == "str":
        pool = sorted(["B", "Zz", "a", "ab", "b", "ba", "c", "d", "e", "ea", "x", "yy", "z"])
        pick = sorted(rng.choice(len(pool), size=size, replace=False).tolist())
        return [pool[i] for i in pick]
    if kind == "dt":
        return [pd.Timestamp("2020-01-01") + pd.Timedelta(hours=36 * int(v)) for v in ints]
    raise ValueError(kind)


def index_of(kind, seq, size, seed, name="idx"):
    al = alphabet(kind, size, seed)
    vals = [al[i] for i in seq]
    if kind == "int":
        return pd.Index(np.array(vals, dtype="int64"), name=name)
    if kind == "float":
        return pd.Index(np.array(vals, dtype="float64"), name=name)
    if kind == "str":
        return pd.Index(vals, dtype="str", name=name)  # pandas-3 default string dtype (an object index would be converted by dask: documented convert-string)
    return pd.DatetimeIndex(vals, name=name).as_unit("ns") if len(vals) else pd.DatetimeIndex([], name=name).as_unit("ns")


def frame_of(kind, seq, size, seed):
    """rows are traceable: column 'a' holds distinct ints (seed permutation), 'f' floats with NaN"""
    n = len(seq)
    rng = np.random.RandomState(seed)
    a = (rng.permutation(n) * 3 + 1).astype("int64")
    f = np.array([1.5, np.nan, 2.0, -3.0, np.nan, 4.25, 0.5, 8.0][:n] + [float(i) for i in range(max(0, n - 8))], dtype="float64")
    return pd.DataFrame({"a": a, "f": f}, index=index_of(kind, seq, size, seed))


def div_values(kind, vec, size, seed):
    al = alphabet(kind, size, seed)
    return tuple(al[i] for i in vec)


def division_vectors(size):
    """every legal division vector over alphabet indices 0..size-1: strictly increasing, length >= 2, plus the
    forms whose LAST element repeats (dask allows exactly that duplicate)"""
    out = []
    for mask in range(1, 1 << size):
        v = tuple(i for i in range(size) if mask >> i & 1)
        if len(v) >= 2:
            out.append(v)
        out.append(v + (v[-1],))
    out.sort(key=lambda v: (len(v), v))
    return out


def spans(vec, seq):
    return bool(seq) and vec[0] <= min(seq) and vec[-1] >= max(seq)


def rows_by_divisions(seq, vec):
    """row positions of the sorted index-sequence `seq` falling into each partition of division vector `vec`"""
    out = []
    last = len(vec) - 2
    for i in range(len(vec) - 1):
        lo, hi = vec[i], vec[i + 1]
        out.append([p for p, v in enumerate(seq) if v >= lo and (v < hi or (i == last and v <= hi))])
    return out


def build_known(pdf, seq, vec, divs):
    """from_delayed with TRUTHFUL divisions `divs` (= values of `vec`); partitions may be empty"""
    groups = rows_by_divisions(seq, vec)
    assert sorted(p for g in groups for p in g) == list(range(len(seq))), (seq, vec)
    pieces = [delayed(pdf.iloc[g], name=f"piece-{dask.base.tokenize(pdf, vec, i)}") for i, g in enumerate(groups)]
    return dfh.dd.from_delayed(pieces, meta=pdf.iloc[:0], divisions=tuple(divs))


def truth_problem(npartitions_attr, divisions, parts, demand_sorted=True):
    """C41, literally: npartitions == len(divisions)-1 == number of partitions, divisions ordered, every index value
    of partition i in [div[i], div[i+1]) (closed for the last)"""
    div = list(divisions)
    if any(d is None for d in div):
        return None  # unknown divisions: nothing is claimed
    if npartitions_attr != len(div) - 1:
        return "npartitions-attr", f"npartitions {npartitions_attr} != len(divisions)-1 = {len(div) - 1} (divisions {tuple(div)!r})"
    if len(parts) != len(div) - 1:
        return "partition-count", f"{len(parts)} partitions computed for divisions {tuple(div)!r}"
    try:
        if demand_sorted and any(b < a for a, b in zip(div, div[1:])):
            return "divisions-unsorted", f"divisions {tuple(div)!r} decrease"
    except TypeError as e:
        return "divisions-incomparable", f"divisions {tuple(div)!r}: {e!r}"
    last = len(parts) - 1
    for i, p in enumerate(parts):
        if p is None or len(p) == 0:
            continue
        idx = p.index if isinstance(p, (pd.DataFrame, pd.Series)) else p
        lo, hi = idx.min(), idx.max()
        try:
            bad = lo < div[i] or hi > div[i + 1] or (i != last and hi >= div[i + 1])
        except TypeError as e:
            return "divisions-incomparable", f"partition {i} index vs divisions {tuple(div)!r}: {e!r}"
        if bad:
            return "outside", f"partition {i} has index range [{lo!r}, {hi!r}] outside [{div[i]!r}, {div[i + 1]!r}{']' if i == last else ')'} (divisions {tuple(div)!r})"
    return None
