"""C32 -- approximate percentiles stay within the data and are monotone; nanpercentile equals NumPy (DESIGN 5/C32).
E4: exhaustive small scope on the real dask.array.percentile / merge_percentiles / nanpercentile."""
from __future__ import annotations

import itertools
import warnings

import numpy as np

from mc import arr, enums
from mc.run import Hang

ID = "C32"
LEVEL = "exploration"
WATCHDOG_S = 60.0  # generous: a case needs ~2 ms; only guards against starvation on a shared machine
QFULL = (0, 25, 50, 75, 100)
METHODS = ("linear", "lower", "higher", "nearest", "midpoint")
NMAX = {"quick": 4, "thorough": 6}
ASSUMPTIONS = [
    "sync scheduler; internal_method='dask' (default) only -- 'tdigest' needs the optional crick package, which is not installed",
    "part A demands only what the statement says: every returned value lies in [min(x), max(x)], the vector is non-decreasing in q, and "
    "q=0 / q=100 give min / max -- all within a slack of 1e-9*max(1,|value|); the result has one entry per q and no NaN. No comparison with "
    "np.percentile is made for multi-chunk input (the result is approximate by design)",
    "data containing +-inf is used only with the value-selecting methods lower/higher/nearest: linear and midpoint compute inf-inf = NaN in "
    "NumPy's own percentile as well, so no bound can be demanded there",
    "part B: np.nanpercentile on the whole array is the reference (rtol = atol = 1e-9*size); NotImplementedError (axis=None over several "
    "blocks) is a documented refusal and is counted",
]


def RULE(tier):
    n = NMAX[tier]
    return (
        f"A: da.percentile on EVERY 1-d array of length 1..{n} over 4 levels (duplicates) x EVERY chunking (plus every chunking with zero-length "
        f"chunks, <= 3 chunks, n <= 3) x every non-empty sorted sub-vector of {QFULL} (31; "
        + ("n >= 5: the 8 listed in QSUB, n = 6 with methods linear/lower on int data" if tier == "thorough" else "n = 4: the first 4 listed in QSUB")
        + ") and scalar q, plus every pair of interior multiples of 12.5 (21 pairs of close q values) on every multi-chunk chunking of n <= " + ("4" if tier == "thorough" else "3") + " x methods linear/lower/higher/nearest/midpoint x dtypes i8, f8 (" + ("f8 in full for n <= 4, linear only for n = 5, none for n = 6" if tier == "thorough" else "f8 in full for n <= 2, linear x QSUB for n = 3, none for n = 4") + ") and f8 with levels (-inf, a, b, +inf) for "
        "lower/higher/nearest: bounds, monotone in q, end-points. B: da.nanpercentile along each axis vs np.nanpercentile on 1-d (n <= 4) and "
        "2-d (2,2),(2,3),(3,2) arrays with EVERY NaN placement x every chunking x q in {0, 50, 100, 30, [25,75], [0,50,100]} x keepdims x "
        "methods (and every NaN/+inf placement on (2,2)" + (", (2,3) and (5,)" if tier == "thorough" else "") + " with lower/higher/nearest). non-trivial = >= 2 chunks (A) / >= 2 chunks along the reduced axis (B)."
    )


QSUB = ((0, 25, 50, 75, 100), (0, 100), (50,), (25, 75), (0,), (100,), (0, 50, 100), (25, 50, 75))  # quick, n = 4: the first 4
QB = (0, 50, 100, 30, (25, 75), (0, 50, 100))
QPAIRS = list(itertools.combinations([12.5 * i for i in range(1, 8)], 2))  # 21 pairs of close / distant interior percentiles


def all_q():
    out = []
    for L in range(1, len(QFULL) + 1):
        out.extend(itertools.combinations(QFULL, L))
    return out


# ---------------------------------------------------------------------------------------------- enumeration
def shards(tier):
    out = []
    n = NMAX[tier]
    big = []
    for k in range(1, n + 1):
        nparts = 1 if k <= 2 else (4 if k == 3 else 12 if k == 4 else 24 if k == 5 else 48)
        for part in range(nparts):
            (out if k <= 4 else big).append(("pct", k, part, nparts))
    for k, nparts in ((2, 1), (3, 4)) + (((4, 12),) if tier == "thorough" else ()):
        for part in range(nparts):
            out.append(("pctpair", k, part, nparts))
    out.append(("pctz", 0, 0, 1))
    out.append(("pctinf", 0, 0, 1))
    for shp in [(1,), (2,), (3,), (4,), (2, 2)]:
        out.append(("nanpct", shp, "vn", 0, 1))
    out.append(("nanpct", (2, 2), "vnp", 0, 1))
    for shp in [(2, 3), (3, 2)]:
        for part in range(6):
            out.append(("nanpct", shp, "vn", part, 6))
    if tier == "thorough":
        for shp in [(2, 3)]:
            for part in range(16):
                out.append(("nanpct", shp, "vnp", part, 16))
        for part in range(4):
            out.append(("nanpct", (5,), "vnp", part, 4))
    return out + big  # simplest first: the n >= 5 percentile shards (thorough) come last


def pct_cases(n, chunkings, tier, datas=None, dtypes=("i8", "f8"), methods=METHODS, qs=None):
    for data in datas if datas is not None else itertools.product(range(4), repeat=n):
        for ch in chunkings:
            for q in qs:
                for m in methods:
                    for dt in dtypes:
                        if dt == "f8" and tier == "quick" and (n >= 4 or (n == 3 and (m != "linear" or q not in QSUB))):
                            continue  # quick tier: float data for n <= 2 in full, n = 3 with the linear method and the 8 QSUB vectors, not for n = 4
                        if dt == "f8" and tier == "thorough" and (n >= 6 or (n == 5 and m != "linear")):
                            continue
                        yield ("pct", n, ch, tuple(data), dt, q, m)


def cases_of(shard, tier):
    kind = shard[0]
    if kind == "pct":
        _, n, part, nparts = shard
        chs = [(c,) for c in enums.compositions(n)]
        qs = all_q() if (n < NMAX[tier] or tier == "thorough") else list(QSUB[:4])
        methods = METHODS
        if tier == "thorough" and n >= 5:
            qs = list(QSUB)  # thorough, n >= 5: the 8 QSUB vectors; n = 6: methods linear/lower on int data
            methods = METHODS if n == 5 else ("linear", "lower")
        datas = [d for i, d in enumerate(itertools.product(range(4), repeat=n)) if i % nparts == part]
        yield from pct_cases(n, chs, tier, datas=None if nparts == 1 else datas, qs=qs, methods=methods)
        if part == 0:
            for data in itertools.product(range(4), repeat=min(n, 3)):
                for ch in chs if n <= 3 else []:
                    for m in ("linear", "nearest"):
                        yield ("pct", n, ch, tuple(data), "i8", 50, m)  # scalar q -> 0-d result
                        yield ("pct", n, ch, tuple(data), "i8", 0, m)
    elif kind == "pctpair":
        # close q values: every pair from the interior grid of multiples of 12.5, so that two requested percentiles can fall into the
        # same gap between adjacent merged summary points (monotonicity is then judged between neighbours inside one gap)
        _, n, part, nparts = shard
        chs = [(c,) for c in enums.compositions(n) if len(c) >= 2]
        datas = [d for i, d in enumerate(itertools.product(range(4), repeat=n)) if i % nparts == part]
        yield from pct_cases(n, chs, tier, datas=datas, dtypes=("i8",), qs=QPAIRS)
    elif kind == "pctz":
        for n in (1, 2, 3):
            chs = [(c,) for c in enums.compositions_with_zeros(n, 3) if 0 in c and len(c) > 1]
            yield from pct_cases(n, chs, tier, dtypes=("i8",), qs=list(QSUB), methods=METHODS if tier == "thorough" else ("linear", "lower"))
    elif kind == "pctinf":
        for n in (1, 2, 3) + ((4,) if tier == "thorough" else ()):
            chs = [(c,) for c in enums.compositions(n)]
            yield from pct_cases(n, chs, tier, dtypes=("f8inf",), methods=("lower", "higher", "nearest"), qs=list(QSUB))
    elif kind == "nanpct":
        _, shp, alpha, part, nparts = shard
        size = int(np.prod(shp))
        pats = ["".join(p) for p in itertools.product(alpha, repeat=size)]
        if alpha == "vnp":
            pats = [p for p in pats if "p" in p]  # the {v,nan} placements are enumerated by the "vn" shard
        axes = [0] if len(shp) == 1 else [0, 1, None]
        ci = -1
        for pat in pats + (["i8"] if alpha == "vn" else []):
            for ch in enums.chunkings(shp):
                ci += 1
                if ci % nparts != part:
                    continue
                for ax in axes:
                    if "p" in pat:
                        # a priori: with +inf in the data only the value-selecting methods have a reference -- np.nanpercentile's own
                        # linear interpolation computes inf*0 (np.nanpercentile([2., inf], 0) is nan, the minimum is 2)
                        for m in ("lower", "higher", "nearest"):
                            for q in (0, 50, 100, (30, 50)):
                                yield ("nanpct", shp, ch, pat, ax, q, m, False)
                        continue
                    for q in QB:
                        yield ("nanpct", shp, ch, pat, ax, q, "linear", False)
                    yield ("nanpct", shp, ch, pat, ax, 50, "linear", True)
                    yield ("nanpct", shp, ch, pat, ax, (25, 75), "linear", True)
                    for m in METHODS[1:]:
                        yield ("nanpct", shp, ch, pat, ax, (30, 50), m, False)


# ---------------------------------------------------------------------------------------------- data
def levels(seed, dt):
    """4 increasing levels; the seed only picks the gaps between them"""
    if seed == 0:
        lv = np.arange(4.0)
    else:
        lv = np.cumsum(np.random.RandomState(seed).permutation(4) + 1).astype("f8") - 3.0
    if dt == "f8inf":
        lv = lv.copy()
        lv[0], lv[3] = -np.inf, np.inf
    return lv


def build_pct(data, dt, seed):
    lv = levels(seed, dt)
    x = lv[list(data)] if len(data) else np.zeros(0)
    return x.astype("i8") if dt == "i8" else x.astype("f8")


def build_nan(shp, pat, seed):
    if pat == "i8":
        return arr.data(shp, seed, dtype="i8", lo=1)
    x = arr.data(shp, seed, dtype="f8", lo=1).ravel()
    for i, c in enumerate(pat):
        if c == "n":
            x[i] = np.nan
        elif c == "p":
            x[i] = np.inf
    return x.reshape(shp)


def known_class(case):
    """narrow input classes of the findings recorded in C32.findings.json; appended to the finding key"""
    if case[0] == "pct" and sum(1 for c in case[2][0] if c) >= 2:
        return f"multichunk-{case[6]}"  # >= 2 non-empty chunks, by interpolation method (merge_percentiles has one branch per method)
    return None


# ---------------------------------------------------------------------------------------------- one case
def run_case(case, ctx):
    with warnings.catch_warnings(), np.errstate(all="ignore"):
        warnings.simplefilter("ignore")
        if case[0] == "pct":
            run_pct(case, ctx)
        else:
            run_nanpct(case, ctx)


def run_pct(case, ctx):
    import dask.array as da

    _, n, ch, data, dt, q, method = case
    x = build_pct(data, dt, ctx.seed)
    scalar = not isinstance(q, tuple)
    qv = [q] if scalar else list(q)
    sub = known_class(case)
    suffix = f":{sub}" if sub else ""
    try:
        d = da.from_array(x, chunks=ch)
        r = da.percentile(d, q if scalar else list(q), method=method)
        got, problem = arr.compute_blocks(r)
        exc = None
    except Hang:
        raise
    except Exception as e:  # noqa: BLE001
        got, problem, exc = None, None, e
    lo, hi = x.min(), x.max()
    ctx.case(case, nontrivial=len(ch[0]) >= 2, outcome=None if got is None else (method, np.asarray(got).ravel().tolist().__repr__()))
    if exc is not None:
        ctx.violation(f"percentile:dask-raises:{type(exc).__name__}{suffix}", case, f"dask raised {exc!r} on data {x.tolist()!r}")
        return
    if problem:
        ctx.violation(f"percentile:lazy-metadata{suffix}", case, problem)
        return
    got = np.asarray(got)
    want_shape = () if scalar else (len(qv),)
    if got.shape != want_shape:
        ctx.violation(f"percentile:wrong-shape{suffix}", case, f"shape {got.shape} != {want_shape}")
        return
    g = got.reshape(-1).astype("f8")
    info = f"percentile({x.tolist()!r} chunks {ch[0]}, q={q!r}, method={method!r}) = {g.tolist()!r}; min {lo!r} max {hi!r}"
    if np.isnan(g).any():
        ctx.violation(f"percentile:nan-result{suffix}", case, info)
        return

    def slack(v):
        return 1e-9 * max(1.0, abs(v)) if np.isfinite(v) else 0.0

    if any(v < lo - slack(lo) or v > hi + slack(hi) for v in g):
        ctx.violation(f"percentile:out-of-bounds{suffix}", case, info)
    if any(b < a - slack(a) for a, b in zip(g[:-1], g[1:])):
        ctx.violation(f"percentile:not-monotone{suffix}", case, info)
    for qi, v in zip(qv, g):
        if qi == 0 and not (v == lo or abs(v - lo) <= slack(lo)):
            ctx.violation(f"percentile:q0-not-min{suffix}", case, info)
        if qi == 100 and not (v == hi or abs(v - hi) <= slack(hi)):
            ctx.violation(f"percentile:q100-not-max{suffix}", case, info)


def run_nanpct(case, ctx):
    import dask.array as da

    _, shp, ch, pat, ax, q, method, kd = case
    x = build_nan(shp, pat, ctx.seed)
    qq = list(q) if isinstance(q, tuple) else q
    axes = tuple(range(len(shp))) if ax is None else (ax,)
    nontrivial = max(len(ch[a]) for a in axes) >= 2
    sub = known_class(case)
    suffix = f":{sub}" if sub else ""
    try:
        want = np.nanpercentile(x, qq, axis=ax, method=method, keepdims=kd)
        np_exc = None
    except (ValueError, IndexError, TypeError) as e:
        want, np_exc = None, e
    try:
        d = da.from_array(x, chunks=ch)
        r = da.nanpercentile(d, qq, axis=ax, method=method, keepdims=kd)
        got, problem = arr.compute_blocks(r)
        d_exc = None
    except Hang:
        raise
    except Exception as e:  # noqa: BLE001
        got, problem, d_exc = None, None, e
    ctx.case(case, nontrivial=nontrivial, outcome=None if want is None else (np.shape(want), np.asarray(want).ravel()[:6].tolist().__repr__()))
    if np_exc is not None:
        ctx.count("inapplicable" if d_exc is None else "both_raise")
        return
    if d_exc is not None:
        if isinstance(d_exc, NotImplementedError):
            ctx.count("rejected")
            return
        ctx.violation(f"nanpercentile:dask-raises:{type(d_exc).__name__}{suffix}", case, f"dask raised {d_exc!r}; NumPy gives {want!r}")
        return
    if problem:
        ctx.violation(f"nanpercentile:lazy-metadata{suffix}", case, problem)
        return
    t = 1e-9 * max(x.size, 1)
    why = arr.equal(got, want, rtol=t, atol=t)
    if why is None and r.dtype != np.asanyarray(want).dtype:
        why = f"lazy dtype {r.dtype} != {np.asanyarray(want).dtype}"
    if why:
        ctx.violation(f"nanpercentile:wrong-value{suffix}", case, f"{why}  (data {x.tolist()!r})")


def run_shard(shard, ctx):
    for case in cases_of(shard, ctx.tier):
        if ctx.out_of_time():
            return
        ctx.guard(case, run_case, case, ctx)


def replay(case, ctx):
    run_case(case, ctx)
