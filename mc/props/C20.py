"""C20 -- array indexing equals NumPy indexing (DESIGN 5/C20).  E4: exhaustive small scope."""
from __future__ import annotations

import itertools

import numpy as np

from mc import arr, enums
from mc.run import Hang

ID = "C20"
LEVEL = "exploration"
WATCHDOG_S = 20.0
NMAX = {"quick": 5, "thorough": 7}
ASSUMPTIONS = [
    "sync scheduler; data are distinct integers so every element is traceable",
    "IndexError raised by both NumPy and dask counts as agreement; a dask NotImplementedError is a documented refusal (counted, never silent)",
]


def RULE(tier):
    n = NMAX[tier]
    return (
        f"1-d: every length 0..{n} x EVERY chunking x every slice with start/stop in {{None}} U [-n-1,n+1], step in +-1..3|None; every int in "
        "[-n-1,n]; every index vector of length <= 3 over [-n,n) as list / ndarray / dask array; every boolean mask (numpy and dask-chunked). "
        "2-d: shapes (2,3),(3,2),(3,4) x every chunking x every index tuple over per-axis alphabets {ints, boundary-hitting slices, one list axis, "
        "None, Ellipsis}; vindex with all point lists of length <= 2; .blocks with every int/slice/list indexer. Oracle: value, dtype, lazy "
        "shape/chunks and per-block shapes equal NumPy's result. non-trivial = >= 2 chunks on an indexed axis."
    )


def shards(tier):
    n = NMAX[tier]
    out = []
    for k in range(0, n + 1):
        for part in range(8 if k >= 4 else 1):
            out.append(("slice1", k, part, 8 if k >= 4 else 1))
        out.append(("int1", k))
        out.append(("mask1", k))
    for k in range(1, min(n, 5) + 1):
        for kind in ("list", "nd", "da"):
            for part in range(4 if k >= 4 else 1):
                out.append(("vec1", k, kind, part, 4 if k >= 4 else 1))
    shapes = [(2, 3), (3, 2)] + ([(3, 4)] if tier == "thorough" else [])
    for shp in shapes + ([(3, 4)] if tier == "quick" else []):
        for part in range(8):
            out.append(("tuple2", shp, part))
    for shp in [(2, 3), (3, 2)]:
        out.append(("vindex", shp))
        out.append(("blocks", shp))
    out.append(("blocks", (4,)))
    return out


def axis_alphabet(n, chunks):
    """per-axis index alphabet hitting chunk edges: ints, slices, a list"""
    edges = sorted({0, n} | set(np.cumsum(chunks).tolist()))
    ints = sorted({0, n - 1, -1, -n} & set(range(-n, n)))
    sls = {("s", None, None, None), ("s", None, None, -1), ("s", 1, None, None), ("s", None, -1, None), ("s", None, None, 2), ("s", n, None, -2)}
    for e in edges:
        sls.add(("s", e, None, None))
        sls.add(("s", None, e, None))
        sls.add(("s", max(e - 1, 0), e + 1, None))
    lists = [("l", (n - 1, 0)), ("l", (0, 0, -1))]
    return ints, sorted(sls, key=repr), lists


def cases_of(shard, tier):
    kind = shard[0]
    if kind == "slice1":
        n, part, nparts = shard[1], shard[2], shard[3]
        for ci, ch in enumerate(enums.compositions(n) if n else [(0,)]):
            if ci % nparts != part:
                continue
            for a, b, s in enums.slices(n):
                yield ("slice1", n, ch, ("s", a, b, s))
    elif kind == "int1":
        n = shard[1]
        for ch in enums.compositions(n) if n else [(0,)]:
            for i in range(-n - 1, n + 1):
                yield ("int1", n, ch, i)
    elif kind == "mask1":
        n = shard[1]
        for ch in enums.compositions(n) if n else [(0,)]:
            for m in enums.masks(n):
                yield ("mask1", n, ch, ("b", tuple(m)), None)
                if n:
                    for mch in {ch, (n,), (1,) * n}:
                        yield ("mask1", n, ch, ("b", tuple(m)), mch)
    elif kind == "vec1":
        n, vk, part, nparts = shard[1], shard[2], shard[3], shard[4]
        for ci, ch in enumerate(enums.compositions(n)):
            if ci % nparts != part:
                continue
            for v in enums.index_vectors(n, 3):
                yield ("vec1", n, ch, vk, tuple(v))
    elif kind == "tuple2":
        shp, part = shard[1], shard[2]
        allch = list(enums.chunkings(shp))
        for ci, ch in enumerate(allch):
            if ci % 8 != part:
                continue
            per_axis = []
            for n, c in zip(shp, ch):
                ints, sls, lists = axis_alphabet(n, c)
                per_axis.append((ints, sls, lists))
            a0 = per_axis[0][0] + per_axis[0][1] + per_axis[0][2]
            a1 = per_axis[1][0] + per_axis[1][1] + per_axis[1][2]
            for i0 in a0:
                yield ("tuple2", shp, ch, (i0,))
                yield ("tuple2", shp, ch, (i0, "..."))
                yield ("tuple2", shp, ch, ("None", i0))
                for i1 in a1:
                    if isinstance(i0, tuple) and i0[0] == "l" and isinstance(i1, tuple) and i1[0] == "l":
                        continue  # two list axes = pointwise (NumPy fancy) semantics; dask documents that it refuses them
                    yield ("tuple2", shp, ch, (i0, i1))
                    yield ("tuple2", shp, ch, (i0, "None", i1))
            for i1 in a1:
                yield ("tuple2", shp, ch, ("...", i1))
    elif kind == "vindex":
        shp = shard[1]
        pts = list(itertools.product(range(-shp[0], shp[0]), range(-shp[1], shp[1])))
        for ch in enums.chunkings(shp):
            for L in (1, 2):
                for ps in itertools.product(pts, repeat=L):
                    yield ("vindex", shp, ch, tuple(ps))
            for p0 in range(shp[0]):
                yield ("vindex1", shp, ch, p0)
    elif kind == "blocks":
        shp = shard[1]
        for ch in enums.chunkings(shp):
            nb = tuple(len(c) for c in ch)
            per_axis = []
            for k in nb:
                opts = list(range(-k, k)) + [("s", a, b, s) for a, b, s in enums.slices(k, steps=(None, 1, 2, -1), lo=-k, hi=k)][::3]
                opts += [("l", (k - 1, 0)), ("l", (0,))]
                per_axis.append(opts)
            for ix in itertools.product(*per_axis):
                if sum(1 for i in ix if isinstance(i, tuple) and i[0] == "l") > 1:
                    continue
                yield ("blocks", shp, ch, tuple(ix))


def to_index(t):
    if isinstance(t, tuple) and t and t[0] == "l":
        return list(t[1])
    return arr.sl(t)


def known_class(case):
    """narrow input classes of recorded findings (known_findings.json); appended to the finding key"""
    if case[0] == "tuple2":
        pat = tuple(
            "int" if isinstance(t, int) else ("list" if isinstance(t, tuple) and t[0] == "l" else ("slice" if isinstance(t, tuple) else t))
            for t in case[3]
        )
        if pat == ("int", "None", "list"):
            return "int-None-list"
        if pat == ("slice", "None", "list"):
            return "slice-None-list"
    return None


def run_case(case, ctx):
    import dask.array as da

    kind = case[0]
    nontrivial = True
    if kind in ("slice1", "int1", "mask1", "vec1"):
        n, ch = case[1], case[2]
        x = arr.data((n,), ctx.seed)
        d = da.from_array(x, chunks=(ch,))
        nontrivial = len(ch) >= 2
        if kind == "slice1":
            ix = nix = arr.sl(case[3])
        elif kind == "int1":
            ix = nix = case[3]
        elif kind == "mask1":
            m = np.array(case[3][1], dtype=bool)
            nix = m
            ix = m if case[4] is None else da.from_array(m, chunks=(case[4],))
        else:
            v = list(case[4])
            nix = np.array(v, dtype=np.intp)
            ix = v if case[3] == "list" else (nix if case[3] == "nd" else da.from_array(nix, chunks=max(1, (len(v) + 1) // 2)))
        f_np = lambda: x[nix]
        f_da = lambda: d[ix]
    elif kind == "tuple2":
        shp, ch = case[1], case[2]
        x = arr.data(shp, ctx.seed)
        d = da.from_array(x, chunks=ch)
        nontrivial = any(len(c) >= 2 for c in ch)
        ix = tuple(to_index(t) for t in case[3])
        f_np = lambda: x[ix]
        f_da = lambda: d[ix]
    elif kind == "vindex":
        shp, ch = case[1], case[2]
        x = arr.data(shp, ctx.seed)
        d = da.from_array(x, chunks=ch)
        nontrivial = any(len(c) >= 2 for c in ch)
        r = [p[0] for p in case[3]]
        c = [p[1] for p in case[3]]
        f_np = lambda: x[r, c]
        f_da = lambda: d.vindex[r, c]
    elif kind == "vindex1":
        shp, ch = case[1], case[2]
        x = arr.data(shp, ctx.seed)
        d = da.from_array(x, chunks=ch)
        nontrivial = any(len(c) >= 2 for c in ch)
        p0 = case[3]
        cols = list(range(shp[1] - 1, -1, -1))
        f_np = lambda: x[p0, cols]
        f_da = lambda: d.vindex[p0, cols]
    elif kind == "blocks":
        shp, ch = case[1], case[2]
        x = arr.data(shp, ctx.seed)
        d = da.from_array(x, chunks=ch)
        nontrivial = any(len(c) >= 2 for c in ch)
        ix = tuple(to_index(t) for t in case[3])
        # reference: select whole chunks along each axis
        def f_np():
            out = x
            for ax, (i, c) in enumerate(zip(ix, ch)):
                bounds = np.concatenate([[0], np.cumsum(c)])
                ids = np.arange(len(c))[i] if not isinstance(i, list) else np.arange(len(c))[i]
                ids = np.atleast_1d(ids)
                sel = np.concatenate([np.arange(bounds[j], bounds[j + 1]) for j in ids]) if len(ids) else np.array([], dtype=int)
                out = np.take(out, sel.astype(int), axis=ax)
            return out

        f_da = lambda: d.blocks[ix if len(ix) > 1 else ix[0]]
        if any(np.size(np.arange(len(c))[i]) == 0 for i, c in zip(ix, ch)):
            ctx.count("out_of_scope_empty_block_selection")
            return
    else:
        raise ValueError(kind)

    try:
        want = f_np()
        np_exc = None
    except (IndexError, ValueError) as e:
        want, np_exc = None, e
    sub = known_class(case)
    suffix = f":{sub}" if sub else ""
    try:
        r = f_da()
        got, problem = arr.compute_blocks(r) if hasattr(r, "dask") else (np.asanyarray(r), None)
        d_exc = None
    except Hang:
        raise
    except Exception as e:  # noqa: BLE001
        got, problem, d_exc = None, None, e
    ctx.case(case, nontrivial=nontrivial, outcome=(None if want is None else want.shape, type(np_exc).__name__))
    if np_exc is not None:
        if d_exc is None:
            if kind == "blocks":
                ctx.count("inapplicable")
                return
            ctx.violation(f"{kind}:numpy-raises-dask-returns{suffix}", case, f"NumPy raises {np_exc!r}; dask returned {got!r}")
        else:
            ctx.count("both_raise")
        return
    if d_exc is not None:
        if isinstance(d_exc, NotImplementedError):
            ctx.count("rejected")
            return
        ctx.violation(f"{kind}:dask-raises:{type(d_exc).__name__}{suffix}", case, f"dask raised {d_exc!r}; NumPy gives {want!r}")
        return
    if problem:
        ctx.violation(f"{kind}:lazy-metadata{suffix}", case, problem)
        return
    why = arr.equal(got, want)
    if why:
        ctx.violation(f"{kind}:wrong-value{suffix}", case, why)


def run_shard(shard, ctx):
    for case in cases_of(shard, ctx.tier):
        if ctx.out_of_time():
            return
        ctx.guard(case, run_case, case, ctx)


def replay(case, ctx):
    run_case(case, ctx)
