"""C08 -- task-spec conversion and execution preserve the graph's meaning (DESIGN 5/C08).  E4 over a term grammar."""
from __future__ import annotations

import itertools
import pickle

from mc.run import Hang

ID = "C08"
LEVEL = "exploration"
WATCHDOG_S = 20.0
DEPTH = {"quick": 2, "thorough": 3}
ASSUMPTIONS = [
    "reference = a 20-line interpreter of the legacy semantics as the statement gives them: callable-headed tuple = call, lists and dicts "
    "elementwise, hashable value equal to a key = reference, literal()/quote() protect their content",
    "NOT enumerated (the statement is silent, dask.core and the converter disagree): keys or tasks nested inside a NON-task tuple; pure-data tuples are enumerated",
]


def f(*args, **kw):
    return ("f", args) if not kw else ("f", args, tuple(sorted(kw.items())))


def g(*args):
    return ("g", args)


KEYSETS = [["a", ("t", 0)], [0, ""]]  # the second set: legal but FALSY keys
KEYS = list(KEYSETS[0])
ENV = {}


def use_keyset(i):
    KEYS[:] = KEYSETS[i]
    ENV.clear()
    ENV.update({KEYS[0]: ("val-a",), KEYS[1]: ("val-t0",)})


use_keyset(0)


def RULE(tier):
    return (
        f"legacy graphs {{'a': .., ('t',0): .., 'out': EXPR}} for EVERY expression EXPR of depth <= {DEPTH[tier]} over two key sets ({'a', ('t',0)} and the falsy keys {0, ''}): int, non-key string, "
        "pure-data tuple, literal(key-like), quote(task-like), call f/g with 0-2 arguments, two-element list, one-entry dict; evaluated by dask.get, dask.core.get (if present), "
        "threaded.get and convert_legacy_graph+execute_graph; dependencies of the converted node == syntactically referenced keys; pickle round trip keeps dependencies and value. "
        "Task-object graphs: every node built from Task/Alias/DataNode/TaskRef/List/Tuple/Set/Dict by the same grammar, called on the dependency values. non-trivial = expression references a key."
    )


ATOMS = [("key", 0), ("key", 1), ("int", 7), ("str", "zz"), ("tuplit", (1, "q")), ("lit", "a"), ("quote", 0)]


def exprs(depth):
    cur = list(ATOMS)
    for _ in range(depth):
        new = list(ATOMS)
        for h in "fg":
            new.append(("call", h, ()))
            for x in cur:
                new.append(("call", h, (x,)))
        for x in cur:
            for y in cur[:6] if len(cur) > 12 else cur:
                new.append(("call", "f", (x, y)))
                new.append(("list", (x, y)))
            new.append(("list", (x,)))
            new.append(("dict", (("p", x),)))
        new.append(("list", ()))
        cur = list(dict.fromkeys(new))
    return cur


def to_legacy(e):
    from dask.core import literal, quote

    k = e[0]
    if k == "key":
        return KEYS[e[1]]
    if k in ("int", "str", "tuplit"):
        return e[1]
    if k == "lit":
        return (literal(e[1]),)  # the documented way to protect a key-like value: a task whose head is the literal object
    if k == "quote":
        return quote((f, 1))
    if k == "call":
        return ({"f": f, "g": g}[e[1]],) + tuple(to_legacy(a) for a in e[2])
    if k == "list":
        return [to_legacy(a) for a in e[1]]
    if k == "dict":
        return {kk: to_legacy(v) for kk, v in e[1]}
    raise ValueError(e)


def to_nodes(e, key=None):
    from dask._task_spec import DataNode, Dict, List, Task, TaskRef

    k = e[0]
    if k == "key":
        return TaskRef(KEYS[e[1]])
    if k in ("int", "str", "tuplit"):
        return e[1]
    if k == "lit":
        return DataNode(None, e[1])
    if k == "quote":
        return DataNode(None, (f, 1))
    if k == "call":
        return Task(key, {"f": f, "g": g}[e[1]], *[to_nodes(a) for a in e[2]])
    if k == "list":
        return List(*[to_nodes(a) for a in e[1]])
    if k == "dict":
        return Dict({kk: to_nodes(v) for kk, v in e[1]})
    raise ValueError(e)


def ref_eval(e):
    k = e[0]
    if k == "key":
        return ENV[KEYS[e[1]]]
    if k in ("int", "str", "tuplit", "lit"):
        return e[1]
    if k == "quote":
        return (f, 1)
    if k == "call":
        return ({"f": "f", "g": "g"}[e[1]], tuple(ref_eval(a) for a in e[2]))
    if k == "list":
        return [ref_eval(a) for a in e[1]]
    if k == "dict":
        return {kk: ref_eval(v) for kk, v in e[1]}


def refs(e):
    k = e[0]
    if k == "key":
        return {KEYS[e[1]]}
    if k == "call":
        return set().union(*[refs(a) for a in e[2]]) if e[2] else set()
    if k == "list":
        return set().union(*[refs(a) for a in e[1]]) if e[1] else set()
    if k == "dict":
        return set().union(*[refs(v) for _, v in e[1]])
    return set()


def has_dict(e):
    k = e[0]
    if k == "dict":
        return True
    if k == "call":
        return any(has_dict(a) for a in e[2])
    if k == "list":
        return any(has_dict(a) for a in e[1])
    return False


def same(a, b):
    if type(a) is not type(b):
        return False
    if isinstance(a, (list, tuple)):
        return len(a) == len(b) and all(same(x, y) for x, y in zip(a, b))
    if isinstance(a, dict):
        return a.keys() == b.keys() and all(same(a[k], b[k]) for k in a)
    return a == b


def shards(tier):
    return [("legacy", i, 24) for i in range(24)] + [("nodes", i, 8) for i in range(8)]


def known_class(e):
    """narrow classes: where a dict sits"""
    def walk(x, inside):
        k = x[0]
        if k == "dict":
            return "dict-nested-in-list" if inside == "list" else ("dict-as-graph-value" if inside == "top" else "dict-argument")
        if k == "call":
            for a in x[2]:
                r = walk(a, "call")
                if r:
                    return r
        if k == "list":
            for a in x[1]:
                r = walk(a, "list")
                if r:
                    return r
        return None

    return walk(e, "top")


def run_legacy(e, ctx):
    import dask
    import dask.threaded
    from dask._task_spec import convert_legacy_graph, execute_graph

    case = ("legacy", e, KEYSETS.index(list(KEYS)))
    ctx.case(case, nontrivial=bool(refs(e)), outcome=e[0])
    want = ref_eval(e)
    cls = known_class(e) if has_dict(e) else None
    suffix = f":{cls}" if cls else ""

    def graph():
        return {KEYS[0]: ("val-a",), KEYS[1]: (lambda: ("val-t0",),), "out": to_legacy(e)}

    runners = [("dask.get", lambda: dask.get(graph(), "out")), ("threaded.get", lambda: dask.threaded.get(graph(), "out", num_workers=2))]
    runners.append(("execute_graph", lambda: execute_graph(convert_legacy_graph(graph()), keys={"out"})["out"]))
    for name, run in runners:
        try:
            got = run()
        except Hang:
            raise
        except Exception as ex:  # noqa: BLE001
            ctx.violation(f"legacy:{name}:raises:{type(ex).__name__}{suffix}", case, f"{ex!r}"[:300])
            continue
        if not same(got, want):
            ctx.violation(f"legacy:{name}:wrong-value{suffix}", case, f"got {got!r} want {want!r}")
    # dependencies + pickle of the converted node
    try:
        conv = convert_legacy_graph(graph())
        node = conv["out"]
    except Hang:
        raise
    except Exception as ex:  # noqa: BLE001
        ctx.violation(f"legacy:convert-raises:{type(ex).__name__}{suffix}", case, repr(ex)[:300])
        return
    deps = set(getattr(node, "dependencies", ()))
    if deps != refs(e):
        ctx.violation(f"legacy:dependencies{suffix}", case, f"node.dependencies {deps!r} != referenced keys {refs(e)!r}")
    if not cls:  # with an un-evaluated dict the node holds raw literal objects (no __eq__): nothing meaningful to compare
        check_pickle(node, case, ctx, suffix, "legacy")


def check_pickle(node, case, ctx, suffix, tag):
    from dask._task_spec import GraphNode

    if not isinstance(node, GraphNode):
        return
    try:
        n2 = pickle.loads(pickle.dumps(node))
    except Hang:
        raise
    except Exception as ex:  # noqa: BLE001
        # the local lambda in the graph is not picklable by plain pickle: only nodes built from module-level functions are judged
        ctx.count("pickle_inapplicable")
        return
    if set(n2.dependencies) != set(node.dependencies):
        ctx.violation(f"{tag}:pickle-changes-dependencies{suffix}", case, f"{n2.dependencies!r} vs {node.dependencies!r}")
        return
    env = {k: ENV[k] for k in node.dependencies}
    try:
        v1, v2 = node(env), n2(env)
    except Hang:
        raise
    except Exception as ex:  # noqa: BLE001
        ctx.violation(f"{tag}:pickled-node-call-raises:{type(ex).__name__}{suffix}", case, repr(ex)[:300])
        return
    if not same(v1, v2):
        ctx.violation(f"{tag}:pickle-changes-value{suffix}", case, f"{v1!r} vs {v2!r}")


def run_nodes(e, ctx):
    from dask._task_spec import Alias, GraphNode, execute_graph

    case = ("nodes", e, KEYSETS.index(list(KEYS)))
    ctx.case(case, nontrivial=bool(refs(e)), outcome=e[0])
    node = to_nodes(e, key="out")
    want = ref_eval(e)
    if not isinstance(node, GraphNode):
        if e[0] == "key":
            node = Alias("out", KEYS[e[1]])
        else:
            return
    if set(node.dependencies) != refs(e):
        ctx.violation("nodes:dependencies", case, f"{node.dependencies!r} != {refs(e)!r}")
        return
    try:
        got = node({k: ENV[k] for k in node.dependencies})
    except Hang:
        raise
    except Exception as ex:  # noqa: BLE001
        ctx.violation(f"nodes:call-raises:{type(ex).__name__}", case, repr(ex)[:300])
        return
    if not same(got, want):
        ctx.violation("nodes:wrong-value", case, f"got {got!r} want {want!r}")
    check_pickle(node, case, ctx, "", "nodes")


def run_shard(shard, ctx):
    kind, part, nparts = shard
    es = exprs(DEPTH[ctx.tier])
    for i, e in enumerate(es):
        if i % nparts != part:
            continue
        if ctx.out_of_time():
            return
        for ks in (0, 1):
            use_keyset(ks)
            if kind == "legacy":
                ctx.guard(("legacy", e, ks), run_legacy, e, ctx)
            else:
                ctx.guard(("nodes", e, ks), run_nodes, e, ctx)
        use_keyset(0)


def replay(case, ctx):
    use_keyset(case[2] if len(case) > 2 else 0)
    (run_legacy if case[0] == "legacy" else run_nodes)(case[1], ctx)
    use_keyset(0)
