"""C15 -- delayed programs evaluate like the eager Python program (DESIGN 5/C15).

E4: all expression programs up to a depth bound over the delayed alphabet (delayed functions / objects,
attribute and item access, operators incl. reflected ones, method calls, nested container arguments mixing
delayed and plain values, pure modes, dask_key_name, nout).  The same AST is evaluated lazily with dask and
eagerly with plain Python.  Extra oracles: applying a pure root operation twice to the same operands gives the
same key; pure calls whose eager arguments differ never share a key; nout-unpacking yields the tuple's elements.
"""
from __future__ import annotations

import collections
import dataclasses
import itertools
import operator
import warnings
import zlib

from mc.props._c1x import same
from mc.run import Hang

import dask  # noqa: E402
from dask import delayed  # noqa: E402
from dask.delayed import Delayed  # noqa: E402

ID = "C15"
LEVEL = "exploration"
WATCHDOG_S = 20.0
NSHARDS = 48
DEPTH = {"quick": 3, "thorough": 4}
ASSUMPTIONS = [
    "sync scheduler; programs whose EAGER evaluation raises are not programs (pruned, counted as inapplicable)",
    "excluded a priori: attribute names starting with '_' (Delayed reserves them), a plain container indexed by a Delayed (Python's own "
    "tuple/list.__getitem__ rejects it before dask is involved), truth-testing / iterating a Delayed without nout (documented TypeError), "
    "re-using an explicit name for different data (documented as the caller's responsibility)",
    "levels >= 2 take exactly one non-atomic operand, drawn from one representative per (operation, detail, result type) class of the "
    "previous level; the remaining operands come from a reduced atom set (quick: 3 pure modes and 2 container partners at levels >= 2)",
]


def RULE(tier):
    progs = programs(tier)
    per = collections.Counter(depth_of(p) for p in progs)
    return (
        f"{len(progs)} valid programs {dict(sorted(per.items()))} by depth (<= {DEPTH[tier]}): level 1 = EVERY operation (9 binary operators both "
        "sides incl. reflected, 3 unary, item access with plain/slice/delayed indices, attribute access, 8 method calls x pure, delayed functions "
        "inc/add/tup/swap/ident x pure mode {None, False, True, pure=True at call time, config delayed_pure} x positional/keyword/nested-container "
        "arguments (list, tuple, set, dict value, dict key, slice, dataclass, namedtuple, 2-level nesting), delayed(container) x pure, "
        "dask_key_name, nout + unpacking; plus tup(w1, w2) for every ordered pair of the 72 pure delayed(container) objects over items {D(2), D(3), 3}) over 11 delayed and 8 plain atoms (int, str, list, tuple, dict, dataclass, namedtuple); deeper levels: "
        "every operation with one operand from the previous level's representatives. Oracles: computed value == eager value (type-strict); a "
        "pure root applied twice to the same operands -> same key; all pure calls grouped by key -> same function and equal eager arguments; "
        "nout=k -> len k and element i computes to result[i]. non-trivial = depth >= 2 or a nested container argument."
    )


# ====================================================================== types and functions of the programs
@dataclasses.dataclass
class P:
    a: object
    b: object


NT = collections.namedtuple("NT", ["p", "q"])


def inc(x):
    return x + 1


def add(x, y):
    return x + y


def tup(*args, **kwargs):
    return (args, sorted(kwargs.items()))


def swap(x, y):
    return (y, x)


def ident(x):
    return x


FUNCS = {"inc": inc, "add": add, "tup": tup, "swap": swap, "ident": ident}
BIN = {
    "add": operator.add,
    "sub": operator.sub,
    "mul": operator.mul,
    "floordiv": operator.floordiv,
    "mod": operator.mod,
    "eq": operator.eq,
    "lt": operator.lt,
    "and": operator.and_,
    "pow": operator.pow,
}
UN = {"neg": operator.neg, "abs": operator.abs, "invert": operator.invert}


# ====================================================================== value encodings (plain data)
def decv(e):
    if not isinstance(e, tuple):
        return e
    t = e[0]
    if t == "L":
        return [decv(x) for x in e[1]]
    if t == "T":
        return tuple(decv(x) for x in e[1])
    if t == "D":
        return {decv(k): decv(v) for k, v in e[1]}
    if t == "S":
        return {decv(x) for x in e[1]}
    if t == "P":
        return P(decv(e[1]), decv(e[2]))
    if t == "N":
        return NT(decv(e[1]), decv(e[2]))
    if t == "s":
        return slice(e[1], e[2], e[3])
    raise ValueError(e)


# ====================================================================== AST
#  ("v", enc)                       plain value
#  ("d", enc, pure, name)           delayed(value, pure=, name=)
#  ("c", shape, items)              container of sub-expressions (only as an argument)
#  ("bin", op, x, y) ("un", op, x) ("item", x, i) ("attr", x, name) ("meth", x, name, args, pure)
#  ("call", fname, puremode, args, kwargs, nout, keyname)      args/kwargs values are expressions
#  ("wrap", container-expr, pure)   delayed(container)
#  ("unpack", call-expr, i)         i-th element of iterating a nout-call
def operands_of(e):
    k = e[0]
    if k in ("v", "d"):
        return []
    if k == "c":
        return list(e[2])
    if k == "bin":
        return [e[2], e[3]]
    if k == "un":
        return [e[2]]
    if k == "item":
        return [e[1], e[2]]
    if k == "attr":
        return [e[1]]
    if k == "meth":
        return [e[1]] + list(e[3])
    if k == "call":
        return list(e[3]) + [v for _, v in e[4]]
    if k == "wrap":
        return [e[1]]
    if k == "unpack":
        return [e[1]]
    raise ValueError(e)


def assemble(shape, vals):
    if shape == "L":
        return list(vals)
    if shape == "T":
        return tuple(vals)
    if shape == "S":
        return set(vals)
    if shape == "Dv":
        return {f"k{i}": v for i, v in enumerate(vals)}
    if shape == "Dk":
        return {v: i for i, v in enumerate(vals)}
    if shape == "sl":
        return slice(*vals)
    if shape == "P":
        return P(*vals)
    if shape == "N":
        return NT(*vals)
    if shape == "LL":  # two-level nesting
        return [[vals[0]], {"k": (vals[1],)}]
    raise ValueError(shape)


def apply_root(e, vals, lazy):
    """apply the root operation of e to already evaluated operands"""
    k = e[0]
    if k == "v":
        return decv(e[1])
    if k == "d":
        if not lazy:
            return decv(e[1])
        kw = {}
        if e[2] is not None:
            kw["pure"] = e[2]
        if e[3] is not None:
            kw["name"] = e[3]
        return delayed(decv(e[1]), **kw)
    if k == "c":
        return assemble(e[1], vals)
    if k == "bin":
        return BIN[e[1]](vals[0], vals[1])
    if k == "un":
        return UN[e[1]](vals[0])
    if k == "item":
        return vals[0][vals[1]]
    if k == "attr":
        return getattr(vals[0], e[2])
    if k == "meth":
        m = getattr(vals[0], e[2])
        if lazy and e[4] is not None and isinstance(vals[0], Delayed):
            return m(*vals[1:], pure=e[4])
        return m(*vals[1:])
    if k == "call":
        _, fname, mode, args, kwargs, nout, keyname = e
        f = FUNCS[fname]
        a = vals[: len(args)]
        kw = {name: v for (name, _), v in zip(kwargs, vals[len(args) :])}
        if not lazy:
            return f(*a, **kw)
        ckw = dict(kw)
        if keyname is not None:
            ckw["dask_key_name"] = keyname
        df = delayed_function(fname, mode, nout)
        if mode == "cfg":
            with dask.config.set(delayed_pure=True):
                return df(*a, **ckw)
        if mode == "call":
            return df(*a, pure=True, **ckw)
        return df(*a, **ckw)
    if k == "wrap":
        if not lazy:
            return vals[0]
        return delayed(vals[0]) if e[2] is None else delayed(vals[0], pure=e[2])
    if k == "unpack":
        return (list(vals[0]) if lazy else vals[0])[e[2]]
    raise ValueError(e)


_DF = {}


def delayed_function(fname, mode, nout):
    """the program's delayed function objects are created once (like a decorated function) and called many times"""
    k = (fname, mode, nout)
    if k not in _DF:
        dkw = {} if nout is None else {"nout": nout}
        if mode == "cfg":
            with dask.config.set(delayed_pure=True):
                _DF[k] = delayed(FUNCS[fname], **dkw)
        elif mode in (None, "call"):
            _DF[k] = delayed(FUNCS[fname], **dkw)
        else:
            _DF[k] = delayed(FUNCS[fname], pure=mode, **dkw)
    return _DF[k]


def lazy_eval(e, memo=None):
    """a sub-expression that occurs twice in one program is one variable: it is built once"""
    memo = {} if memo is None else memo
    if e not in memo:
        memo[e] = apply_root(e, [lazy_eval(o, memo) for o in operands_of(e)], True)
    return memo[e]


def eager_eval(e):
    return apply_root(e, [eager_eval(o) for o in operands_of(e)], False)


_EAGER = {}


def eager_cached(e):
    """('ok', value) | ('exc', exception)"""
    try:
        return _EAGER[e]
    except KeyError:
        pass
    try:
        r = ("ok", eager_eval(e))
    except Hang:
        raise
    except Exception as ex:  # noqa: BLE001
        r = ("exc", ex)
    _EAGER[e] = r
    return r


def has_delayed(e):
    return e[0] == "d" or any(has_delayed(o) for o in operands_of(e))


def depth_of(e):
    if e[0] in ("v", "d"):
        return 0
    sub = [depth_of(o) for o in operands_of(e)]
    return (0 if e[0] == "c" else 1) + (max(sub) if sub else 0)


def has_container(e):
    return e[0] == "c" or any(has_container(o) for o in operands_of(e))


def root_is_pure(e):
    k = e[0]
    if k in ("bin", "un", "item", "attr"):
        return True  # operators and attribute access are always pure
    if k == "meth":
        return e[4] is True
    if k == "call":
        return e[2] in (True, "call", "cfg") and e[6] is None
    return False


# ====================================================================== enumeration
def V(x):
    return ("v", x)


def D(x, pure=None, name=None):
    return ("d", x, pure, name)


LST, TPL, DCT, PP, NN = ("L", (1, 2, 3)), ("T", (4, 5)), ("D", (("k", 7), ("j", 8))), ("P", 1, 2), ("N", 3, 4)
PLAIN = [V(2), V(3), V("ab"), V(LST), V(TPL), V(DCT), V(PP), V(NN)]
DELAYED = [D(p[1]) for p in PLAIN] + [D(2, True), D(LST, True), D(3, None, "nm3")]
ATOMS = DELAYED + PLAIN
REDUCED = [D(2), D("ab"), D(LST), D(2, True), V(3), V("ab")]
INDICES = [V(0), V(1), V(-1), V("k"), V(("s", 1, None, None)), V(("s", None, None, -1)), D(0), D("k"), D(1, True)]
ATTRS = ["a", "b", "p", "q", "real", "imag"]
METHS = [("count", (V(1),)), ("index", (V(2),)), ("upper", ()), ("get", (V("k"),)), ("get", (V("zz"), V(0))), ("keys", ()), ("bit_length", ()), ("count", (D(1),))]
SHAPES2 = ["L", "T", "S", "Dv", "Dk", "P", "N", "LL"]
PUREMODES = [None, False, True, "call", "cfg"]
DEEP_PUREMODES = [None, True, "cfg"]  # levels >= 2 (quick tier; thorough uses all five)
DEEP_CONTAINER_OTHERS = 2  # levels >= 2: container partners are REDUCED[:2] (quick tier; thorough uses all six)
WRAP_ITEMS = [D(2), D(3), V(3)]
WRAP_SHAPES = ["L", "T", "S", "Dv", "Dk", "sl", "P", "N"]


def keyname(e):
    return f"kn-{zlib.crc32(repr(e).encode())}"


def ops_over(xs, others, level1, full=False):
    """every operation with the 'main' operand from xs and the remaining operands from others"""
    for x in xs:
        for op in BIN:
            for y in others:
                yield ("bin", op, x, y)
                if level1 or y[0] == "v" or x != y:
                    yield ("bin", op, y, x)
        for op in UN:
            yield ("un", op, x)
        for i in INDICES:
            yield ("item", x, i)
        for a in ATTRS:
            yield ("attr", x, a)
        for name, args in METHS:
            for pure in (None, True):
                yield ("meth", x, name, args, pure)
        for mode in PUREMODES if (level1 or full) else DEEP_PUREMODES:
            yield ("call", "inc", mode, (x,), (), None, None)
            yield ("call", "ident", mode, (x,), (), None, None)
            for y in others:
                yield ("call", "add", mode, (x, y), (), None, None)
                yield ("call", "add", mode, (y, x), (), None, None)
                yield ("call", "tup", mode, (x,), (("w", y),), None, None)
                yield ("call", "tup", mode, (), (("w", x), ("v", y)), None, None)
                yield ("call", "swap", mode, (x, y), (), 2, None)
                if mode in (None, True):
                    yield ("unpack", ("call", "swap", mode, (x, y), (), 2, None), 0)
                    yield ("unpack", ("call", "swap", mode, (y, x), (), 2, None), 1)
        yield ("call", "inc", True, (x,), (), None, "KN")
        yield ("call", "tup", None, (x,), (), 1, None)
        yield ("call", "tup", True, (), (), 0, None)
        for shape in SHAPES2:
            for y in others if (level1 or full) else others[:DEEP_CONTAINER_OTHERS]:
                for items in ((x, y), (y, x)):
                    c = ("c", shape, items)
                    for mode in (None, True):
                        yield ("call", "ident", mode, (c,), (), None, None)
                        yield ("wrap", c, mode)
                    yield ("call", "tup", True, (c,), (("w", c),), None, None)
        for y in others:
            c = ("c", "sl", (x, y, V(None)))
            yield ("call", "ident", True, (c,), (), None, None)
            yield ("item", D(LST), c)
            yield ("wrap", c, None)
        for c in (("c", "L", (x,)), ("c", "T", ()), ("c", "L", (x, x))):
            yield ("wrap", c, None)
            yield ("wrap", c, True)
            yield ("call", "ident", None, (c,), (), None, None)


def wrap_pairs():
    """programs holding TWO near-identical pure delayed(container) objects (same items, other order / container kind)"""
    wraps = []
    for shape in WRAP_SHAPES:
        for x in WRAP_ITEMS:
            for y in WRAP_ITEMS:
                items = (x, y, V(None)) if shape == "sl" else (x, y)
                wraps.append(("wrap", ("c", shape, items), True))
    for w1 in wraps:
        for w2 in wraps:
            yield ("call", "tup", True, (w1, w2), (), None, None)


def fix_keyname(e):
    if e[0] == "call" and e[6] == "KN":
        return e[:6] + (keyname(e),)
    return e


def excluded(e):
    """a-priori exclusions (see ASSUMPTIONS)"""
    if e[0] == "item" and not produces_delayed(e[1]) and has_delayed(e[2]):
        return True  # plain container indexed by a Delayed: Python's own __getitem__ decides
    if e[0] == "meth" and not produces_delayed(e[1]):
        return True  # a method of a plain object called with Delayed arguments is not a dask operation
    if e[0] == "bin" and e[1] == "mod" and not produces_delayed(e[2]):
        ev = eager_cached(e[2])
        if ev[0] == "ok" and isinstance(ev[1], str):
            return True  # "ab" % Delayed is str formatting, not a Delayed operation
    return False


def produces_delayed(e):
    """does the lazily evaluated expression yield a Delayed?  (containers and plain values do not)"""
    k = e[0]
    if k == "d":
        return True
    if k in ("v", "c"):
        return False
    if k in ("call", "wrap", "unpack"):
        return True
    return any(produces_delayed(o) for o in operands_of(e))


def class_of(e):
    detail = e[1] if e[0] in ("bin", "un", "call") else (e[2] if e[0] in ("attr", "meth") else (e[1][1] if e[0] == "wrap" else None))
    ev = eager_cached(e)
    return (e[0], detail, type(ev[1]).__name__)


_PROGS = {}


def programs(tier):
    if tier in _PROGS:
        return _PROGS[tier]
    out, seen = [], set()
    stats = collections.Counter()

    def admit(cands):
        new = []
        for e in cands:
            e = fix_keyname(e)
            if e in seen:
                continue
            seen.add(e)
            if not produces_delayed(e) or excluded(e):
                continue
            if eager_cached(e)[0] != "ok":
                stats["inapplicable"] += 1
                continue
            new.append(e)
        return new

    level = admit(ops_over(ATOMS, ATOMS, True))
    out.extend(level)
    out.extend(admit(wrap_pairs()))
    for d in range(2, DEPTH[tier] + 1):
        reps, seen_cls = [], set()
        for e in level:
            if e[0] == "call" and e[6] is not None:
                continue  # explicit key names are unique per program; do not nest them
            c = class_of(e)
            if c not in seen_cls:
                seen_cls.add(c)
                reps.append(e)
        level = admit(ops_over(reps, REDUCED, False, full=(tier == "thorough")))
        out.extend(level)
    _PROGS[tier] = out
    _PROGS[tier + ":inapplicable"] = stats["inapplicable"]
    return out


# ====================================================================== cases / shards
def shards(tier):
    programs(tier)  # enumerated once in the master; forked workers inherit the list
    k = NSHARDS if tier == "quick" else 3 * NSHARDS
    return [("prog", i, k) for i in range(k)] + [("keys", f) for f in ("inc", "add", "tup", "swap", "ident", "op")]


def cases_of(shard, tier):
    progs = programs(tier)
    if shard[0] == "prog":
        _, i, k = shard
        for idx, e in enumerate(progs):
            if idx % k == i:
                yield ("prog", e)


# ====================================================================== canonical form of eager arguments
def canon(v):
    """hashable, type-strict canonical form (equal dicts / sets are equal regardless of order)"""
    t = type(v).__name__
    if isinstance(v, (list, tuple)):
        return (t, tuple(canon(x) for x in v))
    if isinstance(v, dict):
        return (t, tuple(sorted(((canon(k), canon(x)) for k, x in v.items()), key=repr)))
    if isinstance(v, (set, frozenset)):
        return (t, tuple(sorted((canon(x) for x in v), key=repr)))
    if dataclasses.is_dataclass(v) and not isinstance(v, type):
        return (t, tuple((f.name, canon(getattr(v, f.name))) for f in dataclasses.fields(v)))
    if isinstance(v, slice):
        return (t, canon(v.start), canon(v.stop), canon(v.step))
    return (t, repr(v))


def call_signature(e):
    """(function / operator identity, canonical eager arguments) of a pure root"""
    vals = [eager_cached(o)[1] for o in operands_of(e)]
    k = e[0]
    if k == "call":
        names = [None] * len(e[3]) + [n for n, _ in e[4]]
        pos = tuple(canon(v) for n, v in zip(names, vals) if n is None)
        kws = tuple(sorted((n, canon(v)) for n, v in zip(names, vals) if n is not None))
        return ("call", e[1], e[5], pos, kws)
    if k == "meth":
        return ("meth", e[2], tuple(canon(v) for v in vals))
    if k == "bin" and e[1] == "eq" and not produces_delayed(e[2]):
        vals = vals[::-1]  # plain == Delayed: Python itself dispatches to Delayed.__eq__(plain), the very same call
    return (k, e[1] if k in ("bin", "un") else (e[2] if k == "attr" else None), tuple(canon(v) for v in vals))


def known_class(e, failure):
    return None


# ====================================================================== one program
def run_prog(case, ctx):
    e = case[1]
    root = e[0] if e[0] != "call" else f"call-{e[1]}"
    st, want = eager_cached(e)
    if st != "ok":
        ctx.count("inapplicable")
        return
    nontrivial = depth_of(e) >= 2 or has_container(e)
    failure = detail = None
    with warnings.catch_warnings():
        warnings.simplefilter("ignore")
        try:
            memo = {}
            ops = [lazy_eval(o, memo) for o in operands_of(e)]
            r1 = apply_root(e, ops, True)
            r2 = apply_root(e, ops, True)
        except Hang:
            raise
        except Exception as ex:  # noqa: BLE001
            failure, detail = f"build-raises:{type(ex).__name__}", f"building the lazy program raised {ex!r}; eager value {want!r}"[:600]
        if failure is None and not isinstance(r1, Delayed):
            failure, detail = "not-delayed", f"lazy program evaluated to {type(r1).__name__} {r1!r}"[:300]
        if failure is None:
            try:
                got = r1.compute(scheduler="sync")
            except Hang:
                raise
            except Exception as ex:  # noqa: BLE001
                failure, detail = f"compute-raises:{type(ex).__name__}", f".compute() raised {ex!r}; eager value {want!r}"[:600]
        if failure is None:
            why = same(got, want)
            if why:
                failure, detail = "wrong-value", f"computed {got!r}, eager {want!r}: {why}"[:600]
        if failure is None and root_is_pure(e) and r1.key != r2.key:
            failure, detail = "pure-key-not-repeatable", f"the same pure operation applied twice to the same operands gave keys {r1.key!r} and {r2.key!r}"
        if failure is None and e[0] == "call" and e[6] is not None and r1.key != e[6]:
            failure, detail = "dask_key_name-ignored", f"key {r1.key!r} != dask_key_name {e[6]!r}"
        if failure is None and e[0] == "call" and e[5] is not None:
            n = e[5]
            try:
                if not (isinstance(want, (tuple, list)) and len(want) == n):
                    ctx.count("inapplicable_nout")
                else:
                    parts = list(r1)
                    if len(r1) != n or len(parts) != n:
                        failure, detail = "nout-wrong-length", f"nout={n}: len()={len(r1)}, iteration yields {len(parts)}"
                    else:
                        vals = dask.compute(*parts, scheduler="sync") if parts else ()
                        why = same(list(vals), list(want))
                        if why:
                            failure, detail = "nout-wrong-elements", f"unpacked {vals!r}, eager {want!r}: {why}"[:500]
            except Hang:
                raise
            except Exception as ex:  # noqa: BLE001
                failure, detail = f"nout-raises:{type(ex).__name__}", f"unpacking nout={n} raised {ex!r}"[:500]
    ctx.case(case, nontrivial=nontrivial, outcome=(root, type(want).__name__, failure))
    if failure:
        sub = known_class(e, failure)
        ctx.violation(f"{root}:{failure}" + (f":{sub}" if sub else ""), case, f"{detail}  [program {e!r}]")


# ====================================================================== key injectivity of pure calls
def key_group(e):
    return e[1] if e[0] == "call" else "op"


def run_keys(shard, ctx):
    """all pure-root programs of one function group: programs sharing a key must be the same call on equal eager arguments"""
    grp = shard[1]
    by_key = {}
    with warnings.catch_warnings():
        warnings.simplefilter("ignore")
        for e in programs(ctx.tier):
            if ctx.out_of_time():
                return
            if not root_is_pure(e) or key_group(e) != grp:
                continue
            try:
                r = lazy_eval(e)
                key = r.key
            except Hang:
                raise
            except Exception:  # noqa: BLE001
                continue  # reported by the program sweep
            sig = call_signature(e)
            first = by_key.setdefault(key, (sig, e))
            clash = first[0] != sig
            ctx.case(("key", e), nontrivial=True, outcome=(grp, clash))
            if clash:
                ctx.violation(f"{grp}:pure-key-collision", ("pair", first[1], e), f"both have key {key!r} but differ: {first[0]!r} vs {sig!r}"[:900])


def run_pair(case, ctx):
    _, e1, e2 = case
    with warnings.catch_warnings():
        warnings.simplefilter("ignore")
        k1, k2 = lazy_eval(e1).key, lazy_eval(e2).key
    s1, s2 = call_signature(e1), call_signature(e2)
    ctx.case(case, nontrivial=True, outcome=(k1 == k2, s1 == s2))
    if k1 == k2 and s1 != s2:
        ctx.violation(f"{key_group(e1)}:pure-key-collision", case, f"both have key {k1!r} but differ: {s1!r} vs {s2!r}"[:900])


def run_shard(shard, ctx):
    if shard[0] == "keys":
        ctx.guard(("shard", shard), run_keys, shard, ctx, seconds=600)
        return
    programs(ctx.tier)
    ctx.count("inapplicable", _PROGS.get(ctx.tier + ":inapplicable", 0) if shard[1] == 0 else 0)
    for case in cases_of(shard, ctx.tier):
        if ctx.out_of_time():
            return
        ctx.guard(case, run_prog, case, ctx)


def replay(case, ctx):
    if case[0] == "pair":
        run_pair(case, ctx)
    else:
        run_prog(case, ctx)
