"""Shared scheduler sweep for C01-C05(a) and C52(a).

case = (entry, n, mask, kinds, style, rev, req_form, nworkers, chunksize, fail)
       fail: tuple of (node, exc_kind) pairs
For each case EVERY completion order is explored (engine E1 over harness E2) and the
oracles of the selected property are evaluated on every execution.
"""
from __future__ import annotations

import itertools

from mc import sched
from mc.explore import Chooser, explore
from mc.sched import (
    Recorder,
    build_graph,
    deps_of,
    flat,
    kind_assignments,
    needed,
    pack,
    ref_values,
    req_keys,
    request_forms,
    run_entry,
)

CONFIGS = [(1, 1), (2, 1), (3, 1), (2, 2), (3, 2), (1, 2), (2, -1), (3, -1), (1, -1)]


def graph_space(tier, n):
    """-> iterable of (mask, kinds, style, rev) for node count n"""
    nmask = 1 << (n * (n - 1) // 2)
    for mask in range(nmask):
        deps = deps_of(n, mask)
        if tier == "quick":
            max_special = None if n <= 3 else 1
        else:
            max_special = None if n <= 4 else 1
        for kinds in kind_assignments(deps, max_special=max_special):
            plain = all(c in "td" for c in kinds)
            yield mask, kinds, "int", False
            if plain or n <= 3:
                yield mask, kinds, "tup", True
                yield mask, kinds, "str", False
                if n <= 3:
                    yield mask, kinds, "int", True


def shards_for(tier, entries, nmax):
    out = []
    for n in range(1, nmax + 1):
        nmask = 1 << (n * (n - 1) // 2)
        step = max(1, nmask // 16)
        for entry in entries:
            for lo in range(0, nmask, step):
                out.append((entry, n, lo, min(nmask, lo + step)))
    return out


def failsets(n, mask, kinds, maxf, exc_kinds):
    tasks = [i for i in range(n) if kinds[i] in "tnum"]
    for r in range(1, maxf + 1):
        for sub in itertools.combinations(tasks, r):
            for ek in exc_kinds:
                yield tuple((i, ek) for i in sub)


def descendants(n, mask, roots):
    deps = deps_of(n, mask)
    out = set()
    changed = True
    while changed:
        changed = False
        for i in range(n):
            if i not in out and any((j in roots or j in out) for j in deps[i]):
                out.add(i)
                changed = True
    return out


def split_extras(fail):
    """the last slot of a case holds (node, exc_kind) pairs plus optional ('cache', nodes) / ('legacy', True) markers"""
    real, precache, legacy = [], None, False
    for a, b in fail:
        if a == "cache":
            precache = tuple(b)
        elif a == "legacy":
            legacy = bool(b)
        else:
            real.append((a, b))
    return tuple(real), precache, legacy


class Exec:
    """Everything observed in one execution."""

    __slots__ = ("status", "value", "ex", "h", "recs", "log", "choices", "points")


def run_case_once(case, ch=None, ncb=1, extra_callbacks=None):
    entry, n, mask, kinds, style, rev, req_form, nw, cs, fail = case
    fail, precache, legacy = split_extras(fail)
    dsk, K = build_graph(n, mask, kinds, style, rev, dict(fail))
    keys = req_keys(req_form, K)
    cache = None
    if precache is not None:
        # the pre-cached keys are literal nodes that are REMOVED from the graph and supplied through cache= instead
        # (a key that is both a task of the graph and in the cache has no defined meaning and is not enumerated)
        from dask._task_spec import convert_legacy_graph

        vals = ref_values(n, mask, kinds)
        dsk = dict(convert_legacy_graph(dsk))
        cache = {}
        for i in precache:
            assert kinds[i] == "d"
            del dsk[K[i]]
            cache[K[i]] = vals[i]
    if any(ek == "W" for _, ek in fail) and entry in ("mp", "mp_noopt"):
        # prelude: an earlier failing computation in the same process whose exception class shares its NAME with kind W
        d0, K0 = build_graph(1, 0, "t", style, False, {0: "U"})
        run_entry(entry, d0, K0[0], 1, 1, Chooser(()))
    recs = [Recorder() for _ in range(ncb)]
    cbs = [r.tuple for r in recs]
    if extra_callbacks:
        cbs = cbs + list(extra_callbacks)
    ch = ch if ch is not None else Chooser(())
    status, value, ex, h = run_entry(entry, dsk, keys, nw, cs, ch, callbacks=cbs, cache=cache, legacy=legacy)
    e = Exec()
    e.status, e.value, e.ex, e.h, e.recs = status, value, ex, h, recs
    e.log = list(sched.LOG)
    e.choices, e.points = ch.choices, ch.points
    return e, K


def all_executions(case, bound=None, ncb=1, extra_callbacks=None):
    holder = {}

    def run(ch):
        e, K = run_case_once(case, ch, ncb, extra_callbacks() if extra_callbacks else None)
        holder["K"] = K
        return e

    for ch, e in explore(run, bound=bound):
        yield e, holder["K"]


# ------------------------------------------------------------------------- oracles
def expected_value(case):
    entry, n, mask, kinds, style, rev, req_form, nw, cs, fail = case
    return pack(req_form, ref_values(n, mask, kinds))


def same(a, b):
    """equality that distinguishes list from tuple at every level"""
    if type(a) is not type(b):
        return False
    if isinstance(a, (list, tuple)):
        return len(a) == len(b) and all(same(x, y) for x, y in zip(a, b))
    if isinstance(a, dict):
        return a.keys() == b.keys() and all(same(a[k], b[k]) for k in a)
    return a == b


def check_C01(case, e, K, ctx, viol):
    if e.status != "ok":
        viol(f"C01:{e.status}:{type(e.value).__name__}", f"{e.status}: {e.value!r} choices={e.choices}")
        return
    want = expected_value(case)
    if not same(e.value, want):
        viol("C01:wrong-value", f"got {e.value!r} want {want!r} choices={e.choices}")


def check_C02(case, e, K, ctx, viol):
    entry, n, mask, kinds, style, rev, req_form, nw, cs, fail = case
    fail, precache, legacy = split_extras(fail)
    if precache is not None:
        # with a pre-populated cache the statement does not say which tasks still run: only the values are judged
        if e.status != "ok" or not same(e.value, expected_value(case)):
            viol(f"C02:precache:{e.status}", f"{e.status} {e.value!r} choices={e.choices}")
        return
    if e.status != "ok":
        viol(f"C02:{e.status}:{type(e.value).__name__}", f"{e.status}: {e.value!r} choices={e.choices}")
        return
    need = needed(n, mask, flat(req_form))
    want_run = sorted(i for i in need if kinds[i] in "tnum")
    if sorted(e.log) != want_run:
        viol("C02:executed-multiset", f"task bodies ran {e.log}, needed exactly once each {want_run} choices={e.choices}")
        return
    deps = deps_of(n, mask)
    # body order: every needed task-body ancestor (through aliases / list nodes) ran earlier
    pos = {k: p for p, k in enumerate(e.log)}
    for i in e.log:
        stack = list(deps[i])
        while stack:
            j = stack.pop()
            if kinds[j] in "tnum":
                if pos.get(j, 1 << 30) > pos[i]:
                    viol("C02:body-before-dependency", f"task {i} ran before dependency {j}: {e.log} choices={e.choices}")
                    return
            else:
                stack.extend(deps[j])
    if not same(e.value, expected_value(case)):
        viol("C02:wrong-inputs", f"a task received wrong dependency values: got {e.value!r}")
        return
    if entry in ("mp",):
        return  # fused keys: scheduler-level key protocol is judged on the other entries
    idx = {k: i for i, k in enumerate(K)}
    rec = e.recs[0]
    pre_seen = []
    for kind, key, snap in rec.events:
        if kind == "pre":
            i = idx.get(key)
            if i is None:
                viol("C02:unknown-key", f"pretask for unknown key {key!r}")
                return
            pre_seen.append(i)
            cache, released, finished, running, ready, waiting = snap
            for j in deps[i]:
                if not (K[j] in finished or kinds[j] == "d"):
                    viol("C02:start-before-dependency-finished", f"task {i} started; dependency {j} not finished. choices={e.choices}")
                    return
                if K[j] not in cache:
                    viol("C02:dependency-value-missing", f"task {i} started; dependency {j} not in cache. choices={e.choices}")
                    return
    want_pre = sorted(i for i in need if kinds[i] != "d")
    if sorted(pre_seen) != want_pre:
        viol("C02:scheduled-multiset", f"scheduled {sorted(pre_seen)} want exactly once each {want_pre} choices={e.choices}")


def check_C03(case, e, K, ctx, viol):
    entry, n, mask, kinds, style, rev, req_form, nw, cs, fail = case
    fail, precache, legacy = split_extras(fail)
    if precache is not None:
        # pre-populated cache: requested results must never be released and the call must return the right value
        if e.status != "ok" or not same(e.value, expected_value(case)):
            viol(f"C03:precache:{e.status}:{type(e.value).__name__}", f"{e.status} {e.value!r} choices={e.choices}")
            return
        idx = {k: i for i, k in enumerate(K)}
        for kind, key, snap in e.recs[0].events:
            if snap is not None and any(K[i] in snap[1] for i in set(flat(req_form))):
                viol("C03:precache:requested-released", f"requested key released at {kind} {key!r}; choices={e.choices}")
                return
        return
    if e.status != "ok":
        viol(f"C03:{e.status}:{type(e.value).__name__}", f"{e.status}: {e.value!r} choices={e.choices}")
        return
    if entry == "mp":
        return
    deps = deps_of(n, mask)
    need = needed(n, mask, flat(req_form))
    requested = set(flat(req_form))
    dependents = {i: [d for d in need if i in deps[d]] for i in need}
    idx = {k: i for i, k in enumerate(K)}
    rec = e.recs[0]
    model_finished = set()
    for kind, key, snap in rec.events:
        if snap is None:
            continue
        cache, released, finished, running, ready, waiting = snap
        if kind == "post":
            model_finished.add(idx[key])
        fin = {idx[k] for k in finished if k in idx}
        # conformance of the abstract model with the implementation, both directions
        if fin != model_finished:
            viol("C03:model-divergence", f"finished={sorted(fin)} model={sorted(model_finished)} at {kind} {key!r}")
            return
        ctx.state((kind, tuple(sorted(fin)), tuple(sorted(idx[k] for k in cache if k in idx)), tuple(sorted(idx[k] for k in released if k in idx))))
        ctx.transition()
        for i in need:
            has_value = i in fin or kinds[i] == "d"
            if not has_value:
                continue
            must_hold = i in requested or any(d not in fin for d in dependents[i])
            if must_hold and (K[i] not in cache or K[i] in released):
                viol("C03:released-early", f"key {i} needed but not held at {kind} {key!r}; choices={e.choices}")
                return
        for i in requested:
            if K[i] in released:
                viol("C03:requested-released", f"requested key {i} released; choices={e.choices}")
                return
        if kind == "finish":
            leaked = [i for i in fin if kinds[i] != "d" and i not in requested and K[i] in cache]
            if leaked:
                viol("C03:leaked", f"results {leaked} still cached at return; choices={e.choices}")
                return


def _exc_matches(entry, exc, node, ek):
    """is `exc` the surfaced form of the exception that task `node` raises?"""
    proto = sched.EXC_KINDS[ek](node)
    if entry in ("mp", "mp_noopt") and ek == "P":
        return True  # cannot be transported; only termination / callbacks are judged
    if not isinstance(exc, type(proto)):
        return False
    if ek == "W" and not isinstance(exc, KeyError):
        return False
    if entry not in ("mp", "mp_noopt") and type(exc) is not type(proto):
        return False
    return f"msg-{node}" in str(exc)


def check_C04(case, e, K, ctx, viol):
    entry, n, mask, kinds, style, rev, req_form, nw, cs, fail = case
    fail, precache, legacy = split_extras(fail)
    need = needed(n, mask, flat(req_form))
    failing = {i: ek for i, ek in fail}
    reach = {i for i in failing if i in need}
    # a failing task matters only if none of its ancestors fails first (then it never runs)
    blocked = descendants(n, mask, set(reach))
    live = {i for i in reach if i not in blocked}
    if not live:
        if e.status != "ok" or not same(e.value, expected_value(case)):
            viol("C04:unreachable-failure-affects-result", f"{e.status} {e.value!r}")
        return
    if e.status == "deadlock":
        viol("C04:deadlock", f"scheduler waits forever; choices={e.choices}")
        return
    if e.status == "ok":
        viol("C04:failure-swallowed", f"call returned {e.value!r} although task(s) {sorted(live)} fail; choices={e.choices}")
        return
    exc = e.value
    cands = [i for i in live if i in e.log and _exc_matches(entry, exc, i, failing[i])]
    if not cands:
        viol(
            f"C04:wrong-exception:{entry}:{''.join(sorted(set(failing.values())))}",
            f"raised {type(exc).__mro__[:3]} {str(exc)[:200]!r}; failing tasks {failing}; log={e.log}; choices={e.choices}",
        )
        return
    ran_dependents = [i for i in e.log if i in blocked]
    if ran_dependents:
        viol("C04:dependent-of-failed-task-executed", f"{ran_dependents} ran; failing={failing}; choices={e.choices}")
        return
    for r in e.recs:
        fins = [ev for ev in r.events if ev[0] == "finish"]
        if len(fins) != 1 or fins[0][1] is not True or r.events[-1][0] != "finish":
            viol("C04:finish-callback", f"finish events {[(ev[0], ev[1]) for ev in r.events if ev[0] == 'finish']}; choices={e.choices}")
            return


def check_C05(case, e, K, ctx, viol):
    entry, n, mask, kinds, style, rev, req_form, nw, cs, fail = case
    fail, precache, legacy = split_extras(fail)
    failed = e.status != "ok"
    if e.status == "deadlock":
        viol("C05:deadlock", f"choices={e.choices}")
        return
    for r in e.recs:
        kinds_seq = [ev[0] for ev in r.events]
        if kinds_seq.count("start") != 1 or kinds_seq[0] != "start":
            viol("C05:start", f"events {kinds_seq}")
            return
        if kinds_seq.count("finish") != 1 or kinds_seq[-1] != "finish":
            viol("C05:finish", f"events {kinds_seq}")
            return
        if r.events[-1][1] is not failed:
            viol("C05:finish-flag", f"finish(failed={r.events[-1][1]}) but call status {e.status}")
            return
        pre, post = {}, {}
        for p, (kind, key, snap) in enumerate(r.events):
            if kind == "pre":
                pre.setdefault(key, []).append(p)
            elif kind == "post":
                post.setdefault(key, []).append(p)
        for key, ps in pre.items():
            if len(ps) != 1:
                viol("C05:pretask-count", f"{key!r}: {len(ps)} pretask calls")
                return
            q = post.get(key, [])
            if len(q) > 1 or (not failed and len(q) != 1):
                viol("C05:posttask-count", f"{key!r}: {len(q)} posttask calls (failed={failed})")
                return
            if q and q[0] < ps[0]:
                viol("C05:posttask-before-pretask", f"{key!r}")
                return
        for key in post:
            if key not in pre:
                viol("C05:posttask-without-pretask", f"{key!r}")
                return
    # all active callbacks see the same protocol
    first = [(ev[0], ev[1]) for ev in e.recs[0].events]
    for r in e.recs[1:]:
        if [(ev[0], ev[1]) for ev in r.events] != first:
            viol("C05:callbacks-disagree", "two active callbacks saw different event sequences")
            return
    if entry != "mp" and not failed:
        need = needed(n, mask, flat(req_form))
        want = sorted(repr(K[i]) for i in need if kinds[i] != "d")
        got = sorted(repr(k) for k in pre)
        if want != got:
            viol("C05:pretask-keys", f"pretask keys {got} want {want}")


CHECKS = {"C01": check_C01, "C02": check_C02, "C03": check_C03, "C04": check_C04, "C05": check_C05}


def run_case(prop, case, ctx, ncb=1, bound=None):
    """explore all completion orders of one case; returns number of executions"""
    check = CHECKS[prop]
    nexec = 0
    maxpend = 0
    found = []

    def viol(key, detail):
        found.append((key, detail))

    for e, K in all_executions(case, bound=bound, ncb=ncb):
        nexec += 1
        maxpend = max(maxpend, e.ex.max_pending)
        check(case, e, K, ctx, viol)
        if prop != "C03":
            # states / transitions of the explored scheduler (counted, never used for pruning)
            for r in e.recs[:1]:
                for kind, key, snap in r.events:
                    if snap is not None:
                        ctx.state((case[1:6], kind, tuple(sorted(map(repr, snap[2]))), tuple(sorted(map(repr, snap[3])))))
                        ctx.transition()
        if found:
            break
    ctx.trace(nexec)
    ctx.case(case, nontrivial=maxpend >= 2, outcome=None, n=nexec)
    ctx.counters["max_pending"] = max(ctx.counters.get("max_pending", 0), maxpend)
    ctx.counters["max_execs_per_case"] = max(ctx.counters.get("max_execs_per_case", 0), nexec)
    for key, detail in found[:1]:
        ctx.violation(key, case, detail)
    return nexec


def conformance(ctx):
    from mc.run import HarnessError

    graphs = []
    for n in (3, 4):
        for mask in range(1 << (n * (n - 1) // 2)):
            ks = list(kind_assignments(deps_of(n, mask), max_special=1))
            graphs.append((n, mask, ks[mask % len(ks)], ("int", "tup", "str")[mask % 3]))
    r = sched.thread_affinity_check(graphs)
    if r["scheduler_frames_on_worker_threads"]:
        raise HarnessError("HARNESS-ASSUMPTION-BROKEN: scheduler state functions ran on a worker thread (G3)")
    if r["mismatches"]:
        ctx.violation("conformance:real-threadpool-wrong-value", r["mismatches"][0], "real ThreadPoolExecutor / dask.get result differs from the reference")
    return r
