"""C49 -- bag sampling returns valid samples, reproducibly (DESIGN 5/C49).

E4: exhaustive small scope.  Every population length 0..N (all-distinct, pairs of duplicates, all-equal) x EVERY
partitioning into <= P partitions with real empty partitions (from_delayed) and from_sequence x every k in 0..n+2 x
split_every x random.seed in {0,1,2}, on the real dask.bag.random.sample / choices and Bag.random_sample.
Reference: multiset inclusion (collections.Counter), list length, subsequence test.
"""
from __future__ import annotations

import collections
import random

from mc import enums
from mc.run import Hang

ID = "C49"
LEVEL = "exploration"
WATCHDOG_S = 30.0
NMAX = {"quick": 6, "thorough": 8}
PMAX = {"quick": 4, "thorough": 5}
SPLITS = {"quick": (None, 2), "thorough": (None, 2, 3)}
RSEEDS = (0, 1, 2)
PROBS = {"quick": (0.0, 0.5, 0.9, 1.0), "thorough": (0.0, 0.1, 0.3, 0.5, 0.9, 1.0)}
RSTATES = {"quick": (0, 1, ("R", 1)), "thorough": (0, 1, 2, ("R", 1), ("R", 2))}  # int seeds and random.Random(seed) objects
POP_KINDS = {"quick": ("distinct", "pairs"), "thorough": ("distinct", "pairs", "equal")}
ASSUMPTIONS = [
    "sample/choices draw from the global `random` module: the case seeds it (random.seed(s), s in {0,1,2}) and computes on the sync scheduler; "
    "the enumerated space contains the seed, it is not sampled",
    "k > len(b): Python's random.sample raises ValueError and dask's own tests pin ValueError('Sample larger than population'); the check "
    "accepts either that refusal (counted as `rejected`) or all of b, and nothing else",
    "choices on an empty population: random.choices raises IndexError -> inapplicable (dask may do anything)",
    "random_sample: sync, a real 2-thread pool (threaded scheduler) and a rebuilt-from-scratch bag must give the identical list; "
    "the thread pool's interleaving is not enumerated (C01-C03 cover the scheduler), only its result is compared",
]


def RULE(tier):
    n, p = NMAX[tier], PMAX[tier]
    return (
        f"sample & choices: population length 0..{n} of kind {POP_KINDS[tier]} (range(n) | i//2 | all equal) x EVERY partitioning into <= {p} partitions incl. empty ones "
        f"(from_delayed) + from_sequence(npartitions=1..3) x k in 0..n+2 x split_every in {SPLITS[tier]} x random.seed in {RSEEDS}: "
        "sample -> len == k and Counter(result) <= Counter(b) (k <= n); k > n -> ValueError('Sample larger than population') or all of b; "
        "choices -> len == k and every element in b.  "
        f"random_sample: the same populations/partitionings x prob in {PROBS[tier]} x random_state in {RSTATES[tier]} (('R', s) = random.Random(s)): identical list on "
        "sync twice, threaded, and a rebuilt bag; result is a subsequence of b; prob 0 -> [], prob 1 -> b.  "
        "non-trivial = >= 2 partitions and 0 < k."
    )


def population(kind, n):
    if kind == "distinct":
        return list(range(n))
    if kind == "pairs":
        return [i // 2 for i in range(n)]
    return [7] * n


def shards(tier):
    out = []
    n = NMAX[tier]
    for op in ("sample", "choices"):
        for k in range(0, n + 1):
            for kind in POP_KINDS[tier]:
                if kind != "distinct" and k < 2:
                    continue  # identical to "distinct" for n < 2
                nparts = 1 if k < 5 else (2 if k < 7 else 4)
                for part in range(nparts):
                    out.append((op, kind, k, part, nparts))
    for k in range(0, n + 1):
        out.append(("rs", "distinct", k, 0, 1))
    out.sort(key=lambda s: (s[2], s[0], s[1], s[3]))
    return out


def layouts(n, pmax):
    """('d', sizes) = from_delayed with exactly these partition sizes; ('n', npartitions) = from_sequence"""
    for sizes in enums.compositions_with_zeros(n, pmax):
        yield ("d", sizes)
    if n:
        for npart in (1, 2, 3):
            yield ("n", npart)


def cases_of(shard, tier):
    op, kind, n, part, nparts = shard
    pmax = PMAX[tier]
    if op == "rs":
        for lay in layouts(n, pmax):
            for prob in PROBS[tier]:
                for rs in RSTATES[tier]:
                    yield ("rs", kind, n, lay, prob, rs)
        return
    for i, lay in enumerate(layouts(n, pmax)):
        if i % nparts != part:
            continue
        for k in range(0, n + 3):
            for se in SPLITS[tier]:
                for s in RSEEDS:
                    yield (op, kind, n, lay, k, se, s)


# ---------------------------------------------------------------------------------------------- execution
def build(pop, lay):
    import dask.bag as db
    from dask import delayed

    if lay[0] == "n":
        return db.from_sequence(pop, npartitions=lay[1])
    parts, i = [], 0
    for sz in lay[1]:
        parts.append(pop[i : i + sz])
        i += sz
    return db.from_delayed([delayed(list, pure=False)(p) for p in parts])


def known_class(case, exc):
    op, k = case[0], case[4]
    if k == 0 and op == "sample" and isinstance(exc, ZeroDivisionError):
        return "sample:dask-raises:ZeroDivisionError:k0"
    if k == 0 and op == "choices":
        # one defect (k == 0 is not handled), three manifestations: min() of no reservoirs; next() / [0] on an empty population
        if (isinstance(exc, ValueError) and "min()" in str(exc)) or isinstance(exc, (StopIteration, IndexError)):
            return "choices:dask-raises:k0"
    return None


def run_draw(case, ctx):
    from dask.bag import random as dbr

    op, kind, n, lay, k, se, s = case
    pop = population(kind, n)
    b = build(pop, lay)
    npart = b.npartitions
    nontrivial = npart >= 2 and k > 0
    if op == "choices" and n == 0:
        # random.choices([], k=k) raises IndexError for every k >= 1 (and returns [] for k == 0)
        if k > 0:
            ctx.count("inapplicable")
            ctx.case(case, nontrivial=False, outcome="inapplicable")
            return
    random.seed(s)
    try:
        r = (dbr.sample if op == "sample" else dbr.choices)(b, k, split_every=se)
        got = r.compute(scheduler="sync")
        exc = None
    except Hang:
        raise
    except Exception as e:  # noqa: BLE001
        got, exc = None, e
    ctx.case(case, nontrivial=nontrivial, outcome=(op, n, k, npart, None if got is None else len(got), type(exc).__name__))
    if exc is not None:
        if op == "sample" and k > n and isinstance(exc, ValueError) and "Sample larger than population" in str(exc):
            ctx.count("rejected")  # the documented / tested refusal, as random.sample
            return
        kc = known_class(case, exc)
        ctx.violation(kc or f"{op}:dask-raises:{type(exc).__name__}", case, f"{exc!r} for population {pop!r}, k={k}")
        return
    if not isinstance(got, list):
        ctx.violation(f"{op}:not-a-list", case, repr(got))
        return
    cpop, cgot = collections.Counter(pop), collections.Counter(got)
    if op == "sample":
        if k <= n:
            if len(got) != k:
                ctx.violation("sample:wrong-size", case, f"{len(got)} elements {got!r}, expected {k} of {pop!r}")
            elif cgot - cpop:
                ctx.violation("sample:not-a-sub-multiset", case, f"{got!r} is not a sub-multiset of {pop!r}")
        else:
            if cgot != cpop:
                ctx.violation("sample:k-exceeds-size-not-all-of-b", case, f"k={k} > n={n}: returned {got!r}; expected ValueError or all of {pop!r}")
    else:
        if len(got) != k:
            ctx.violation("choices:wrong-size", case, f"{len(got)} elements {got!r}, expected {k}")
        elif any(g not in cpop for g in got):
            ctx.violation("choices:not-elements-of-b", case, f"{got!r} has elements outside {pop!r}")


_POOL = None


def _pool():
    global _POOL
    if _POOL is None:
        from concurrent.futures import ThreadPoolExecutor

        _POOL = ThreadPoolExecutor(2)
    return _POOL


def is_subsequence(sub, seq):
    it = iter(seq)
    return all(any(x == y for y in it) for x in sub)


def run_rs(case, ctx):
    _, kind, n, lay, prob, rs = case
    pop = population(kind, n)

    def mk():
        state = random.Random(rs[1]) if isinstance(rs, tuple) else rs
        return build(pop, lay).random_sample(prob, random_state=state)

    try:
        r = mk()
        a1 = r.compute(scheduler="sync")
        a2 = r.compute(scheduler="sync")
        a3 = r.compute(scheduler="threads", pool=_pool())
        a4 = mk().compute(scheduler="sync")
    except Hang:
        raise
    except Exception as e:  # noqa: BLE001
        ctx.case(case, nontrivial=False, outcome=("exc", type(e).__name__))
        ctx.violation(f"random_sample:dask-raises:{type(e).__name__}", case, repr(e))
        return
    ctx.case(case, nontrivial=r.npartitions >= 2 and 0 < prob < 1 and n > 0, outcome=(n, tuple(a1)))
    if not (a1 == a2):
        ctx.violation("random_sample:recomputation-differs", case, f"{a1!r} then {a2!r}")
    elif a1 != a3:
        ctx.violation("random_sample:threaded-differs-from-sync", case, f"sync {a1!r}, threaded {a3!r}")
    elif a1 != a4:
        ctx.violation("random_sample:rebuilt-bag-differs", case, f"{a1!r} vs rebuilt {a4!r}")
    elif not is_subsequence(a1, pop):
        ctx.violation("random_sample:not-a-subsequence", case, f"{a1!r} of {pop!r}")
    elif prob == 0.0 and a1:
        ctx.violation("random_sample:prob0-nonempty", case, repr(a1))
    elif prob == 1.0 and a1 != pop:
        ctx.violation("random_sample:prob1-not-all", case, f"{a1!r} of {pop!r}")


def run_case(case, ctx):
    if case[0] == "rs":
        run_rs(case, ctx)
    else:
        run_draw(case, ctx)


def run_shard(shard, ctx):
    for case in cases_of(shard, ctx.tier):
        if ctx.out_of_time():
            return
        ctx.guard(case, run_case, case, ctx)


def replay(case, ctx):
    run_case(case, ctx)
