"""C28 -- random arrays: reproducible when seeded, independent when not, choice(replace=False) draws distinct
elements (DESIGN 5/C28).  E4: exhaustive small scope (seeds x APIs x distributions x shapes x EVERY chunking)."""
from __future__ import annotations

import itertools

import numpy as np

from mc import arr, enums, sched
from mc.explore import Chooser
from mc.run import Hang

ID = "C28"
LEVEL = "exploration"
WATCHDOG_S = 30.0
SEEDS = {"quick": (0, 1, 2), "thorough": (0, 1, 2, 3, 4)}
NMAX1 = {"quick": 5, "thorough": 7}
NCHOICE = {"quick": 5, "thorough": 6}
ASSUMPTIONS = [
    "no reference values exist for random draws (dask documents that its numbers differ from NumPy's); the oracles are the statement's own "
    "relations: equality between rebuilds / recomputations / schedulers / single-block computes, distinctness of names, membership and distinctness for choice",
    "schedulers: sync, the real thread pool (3 workers), the threaded scheduler on a controlled executor completing the NEWEST pending task first "
    "(reverse execution order), and -- once per run, in the master -- the multiprocessing scheduler on a real 2-process spawn pool",
    "unseeded arrays take OS entropy: their values are not reproducible, only name distinctness, joint==separate computes and (continuous "
    "distributions, >= 1 element) value inequality are demanded; a chance collision of two float64 draws has probability < 2^-52 per case",
    "VERIF_SEED is unused by this property (the seeds of the statement are enumerated)",
]

# ------------------------------------------------------------------------------------------------ alphabets
# distribution name -> (code path, needs ndim>=1)
G_DISTS = [
    "random", "random_f4", "integers", "integers_i1_endpoint", "normal", "standard_normal", "uniform", "poisson", "exponential",
    "binomial", "normal_nploc", "normal_daargs", "choice", "choice_p", "choice_arr", "permutation", "multinomial", "gamma",
]  # fmt: skip
RS_DISTS = [
    "random_sample", "randint", "normal", "uniform", "poisson", "binomial", "normal_nploc", "normal_daargs", "choice", "choice_p",
    "choice_arr", "permutation", "multinomial", "tomaxint",
]  # fmt: skip
MOD_DISTS = ["random", "randint", "normal", "choice"]
DISTS = {"G": G_DISTS, "RS": RS_DISTS, "MOD": MOD_DISTS}
CONTINUOUS = {"random", "random_f4", "normal", "standard_normal", "uniform", "exponential", "normal_nploc", "normal_daargs", "random_sample", "gamma"}
NEEDS_AXIS = {"normal_nploc", "normal_daargs", "permutation"}


def path_of(dist):
    return "choice" if dist.startswith("choice") else ("permutation" if dist == "permutation" else "wrap")


def shapes(tier):
    out = [(n,) for n in range(0, NMAX1[tier] + 1)] + [(), (2, 2), (2, 3), (3, 2)]
    if tier == "thorough":
        out += [(3, 4), (2, 2, 2), (1, 4), (2, 0)]
    return out


def shape_chunks(tier):
    for shp in shapes(tier):
        for ch in enums.chunkings(shp):
            yield shp, tuple(ch)


def rng_of(api, seed):
    """seed=None -> unseeded"""
    import dask.array as da

    if api == "G":
        return da.random.default_rng(seed)
    if api == "RS":
        return da.random.RandomState(seed)
    if api == "MOD":
        if seed is not None:
            da.random.seed(seed)
        return da.random
    raise ValueError(api)


def draw(rng, api, dist, shp, ch):
    """one lazy random array of shape shp (+ extra axis for multinomial) with exactly the chunks ch"""
    import dask.array as da

    kw = {"size": shp, "chunks": ch}
    if dist == "random":
        return rng.random(**kw)
    if dist == "random_sample":
        return rng.random_sample(**kw)
    if dist == "random_f4":
        return rng.random(dtype=np.float32, **kw)
    if dist == "integers":
        return rng.integers(0, 1000, **kw)
    if dist == "integers_i1_endpoint":
        return rng.integers(-5, 5, dtype=np.int8, endpoint=True, **kw)
    if dist == "randint":
        return rng.randint(0, 1000, **kw)
    if dist == "tomaxint":
        return rng.tomaxint(**kw)
    if dist == "normal":
        return rng.normal(10, 0.5, **kw)
    if dist == "standard_normal":
        return rng.standard_normal(**kw)
    if dist == "uniform":
        return rng.uniform(-1, 3, **kw)
    if dist == "poisson":
        return rng.poisson(50.0, **kw)
    if dist == "exponential":
        return rng.exponential(2.0, **kw)
    if dist == "gamma":
        return rng.gamma(2.0, scale=3.0, **kw)
    if dist == "binomial":
        return rng.binomial(1000, 0.5, **kw)
    if dist == "normal_nploc":  # ndarray parameter broadcast against size
        return rng.normal(np.arange(shp[-1], dtype="f8") * 100, 0.5, **kw)
    if dist == "normal_daargs":  # dask-array parameters (positional and keyword), rechunked to the output chunks
        loc = da.from_array(np.arange(shp[-1], dtype="f8") * 100, chunks=1)
        scale = da.from_array(np.full(shp, 0.5), chunks=-1)
        return rng.normal(loc, scale=scale, **kw)
    if dist == "choice":
        return rng.choice(1000, **kw)
    if dist == "choice_p":
        return rng.choice(4, p=[0.1, 0.2, 0.3, 0.4], **kw)
    if dist == "choice_arr":
        return rng.choice(da.from_array(np.arange(100, 1100), chunks=300), **kw)
    if dist == "multinomial":
        return rng.multinomial(1000, [0.2, 0.3, 0.5], **kw)
    if dist == "permutation":
        x = da.from_array(arr.data(shp, 0), chunks=ch)
        return rng.permutation(x)
    raise ValueError(dist)


def applicable(dist, shp):
    if dist in NEEDS_AXIS and len(shp) == 0:
        return False
    return True


# ------------------------------------------------------------------------------------------------ schedulers
class Lifo(Chooser):
    """always completes the newest pending batch"""

    def choose(self, n, label=None):
        self.points.append((n, n - 1))
        return n - 1


def compute_lifo(d, nworkers=4):
    ex = sched.ControlledExecutor(nworkers)
    with sched.Harness(ex, Lifo()):
        return d.compute(scheduler="threads", pool=ex)


def same(a, b):
    """bit-for-bit equality incl. dtype and shape"""
    a, b = np.asanyarray(a), np.asanyarray(b)
    return a.shape == b.shape and a.dtype == b.dtype and a.tobytes() == b.tobytes()


def block_slices(d):
    offs = [np.concatenate([[0], np.cumsum(c)]).astype(int) for c in d.chunks]
    for idx in itertools.product(*[range(len(c)) for c in d.chunks]):
        yield idx, tuple(slice(o[i], o[i + 1]) for o, i in zip(offs, idx))


# ------------------------------------------------------------------------------------------------ cases
def shards(tier):
    out = []
    for api in ("G", "RS", "MOD"):
        for dist in DISTS[api]:
            out.append(("det", api, dist))
    for mode in ("G2", "G1", "RS2", "RS1", "MOD"):
        for part in range(2):
            out.append(("pair", mode, part))
    for api in ("G", "RS"):
        for pdist in PARAM_DISTS:
            out.append(("params", api, pdist))
    for api in ("G", "RS"):
        for n in range(0, NCHOICE[tier] + 1):
            for part in range(1 if n < 4 else 4):
                out.append(("choice", api, n, part, 1 if n < 4 else 4))
    return out


PAIR_DISTS = {
    "G": ["random", "integers", "normal", "normal_daargs", "choice", "permutation", "multinomial"],
    "RS": ["random_sample", "randint", "normal", "normal_daargs", "choice", "permutation", "multinomial"],
    "MOD": ["random", "randint", "normal", "choice"],
}


# array-valued distribution parameters: two arrays from IDENTICALLY seeded generators, same shape and chunks, whose parameter
# vectors differ (every ordered pair of vectors over PARAM_VALUES, so pairs sharing a prefix / suffix / nothing are all there)
PARAM_DISTS = ("normal_loc", "normal_scale_kw", "poisson_lam", "uniform_high_kw")
PARAM_KINDS = ("np", "da")
PARAM_VALUES = (1.0, 1000.0)
PARAM_SHAPES = {"quick": [(2,), (3,), (2, 2)], "thorough": [(2,), (3,), (4,), (2, 2), (2, 3), (3, 2)]}


def param_draw(rng, pdist, pkind, vec, shp, ch):
    import dask.array as da

    v = np.array(vec, dtype="f8")  # broadcast against the last axis of shp
    v = v if pkind == "np" else da.from_array(v, chunks=1)
    kw = {"size": shp, "chunks": ch}
    if pdist == "normal_loc":
        return rng.normal(v, 0.01, **kw)
    if pdist == "normal_scale_kw":
        return rng.normal(0.0, scale=v, **kw)
    if pdist == "poisson_lam":
        return rng.poisson(v, **kw)
    if pdist == "uniform_high_kw":
        return rng.uniform(0.0, high=v, **kw)
    raise ValueError(pdist)


def sizes_for_choice(n):
    """size specs for choice(replace=False) from a population of n: None, (), every k in 0..n+1, every 2-d (a, b) with a*b <= n"""
    out = [None, ()]
    out += list(range(0, n + 2))
    out += [(a, b) for a in range(1, n + 1) for b in range(1, n + 1) if a * b <= n and (a > 1 or b > 1) and a <= 3 and b <= 3]
    return out


def cases_of(shard, tier):
    kind = shard[0]
    if kind == "det":
        api, dist = shard[1], shard[2]
        for seed in SEEDS[tier]:
            for shp, ch in shape_chunks(tier):
                if applicable(dist, shp):
                    yield ("det", api, dist, seed, shp, ch)
    elif kind == "pair":
        mode, part = shard[1], shard[2]
        api = mode.rstrip("12")
        i = 0
        for dist in PAIR_DISTS[api]:
            for shp, ch in shape_chunks(tier):
                if applicable(dist, shp) and not (dist == "normal_daargs" and 0 in shp):  # empty parameter arrays: judged once, under "det"
                    i += 1
                    if i % 2 == part:
                        yield ("pair", mode, dist, shp, ch)
    elif kind == "params":
        api, pdist = shard[1], shard[2]
        for seed in SEEDS[tier][: 1 if tier == "quick" else 2]:
            for shp in PARAM_SHAPES[tier]:
                vecs = list(itertools.product(PARAM_VALUES, repeat=shp[-1]))
                for ch in enums.chunkings(shp):
                    for pkind in PARAM_KINDS:
                        for va in vecs:
                            for vb in vecs:
                                if va < vb:  # the pair is symmetric
                                    yield ("params", api, pdist, seed, shp, tuple(ch), pkind, va, vb)
    elif kind == "choice":
        api, n, part, nparts = shard[1:5]
        pops = ["int", "np"] + [("da", c) for c in (enums.compositions(n) if n else [(0,)])]
        i = 0
        for seed in SEEDS[tier]:
            for pop in pops:
                for size in sizes_for_choice(n):
                    shp = () if size is None else ((size,) if isinstance(size, int) else tuple(size))
                    for ch in enums.chunkings(shp):
                        for p in (None, "skew", "skew_da"):
                            if p is not None and (pop != "int" and pop != "np"):
                                continue  # p x dask population: one representative (all-ones chunking) is enough
                            for shuffle in (True, False) if api == "G" else (None,):
                                i += 1
                                if i % nparts == part:
                                    yield ("choice", api, seed, pop, n, size, tuple(ch), p, shuffle)


# ------------------------------------------------------------------------------------------------ oracles
def det_known_class(case):
    """narrow input classes of recorded findings; appended to the finding key"""
    _, api, dist, seed, shp, ch = case
    if dist in ("normal_nploc", "normal_daargs") and 0 in shp:
        return "empty-array-parameter"
    if api == "G" and dist.startswith("choice"):
        return "generator-choice"
    return None


def run_det(case, ctx, processes_pool=None):
    _, api, dist, seed, shp, ch = case
    key = f"seeded-{path_of(dist)}"
    sub = det_known_class(case)
    sfx = f":{sub}" if sub else ""
    nblocks = int(np.prod([len(c) for c in ch])) if ch else 1

    def build():
        """a FRESH generator from the seed and its first two draws"""
        rng = rng_of(api, seed)
        return draw(rng, api, dist, shp, ch), draw(rng, api, dist, shp, ch)

    try:
        a1, b1 = build()  # second draw from the same generator: the SEQUENCE is reproducible too
        a2, b2 = build()
        va, problem = arr.compute_blocks(a1)
        vb = b1.compute()
    except Hang:
        raise
    except Exception as e:  # noqa: BLE001
        ctx.case(case, nontrivial=nblocks >= 2, outcome=("exc", type(e).__name__))
        ctx.violation(f"{key}:dask-raises:{type(e).__name__}{sfx}", case, repr(e))
        return
    ctx.case(case, nontrivial=nblocks >= 2, outcome=(str(va.dtype), va.shape, va.tobytes()[:64]))
    if problem:
        ctx.violation(f"{key}:lazy-metadata{sfx}", case, problem)
        return
    if va.dtype != a1.dtype:
        ctx.violation(f"{key}:lazy-dtype{sfx}", case, f"computed {va.dtype}, declared {a1.dtype}")
    if a1.name != a2.name or b1.name != b2.name:
        ctx.violation(f"{key}:name-not-reproducible{sfx}", case, f"{a1.name} vs {a2.name}; {b1.name} vs {b2.name}")
    if processes_pool is not None:
        vp = a2.compute(scheduler="processes", pool=processes_pool)
        if not same(va, vp):
            ctx.violation(f"{key}:scheduler-differs:processes{sfx}", case, f"{va!r} vs {vp!r}")
        return
    # "same seed, shape and chunks": every comparison below uses a freshly built array that is computed ONCE, so that a failure of
    # one relation (e.g. recomputation) does not drag the others along
    v2a, v2b = a2.compute(), b2.compute()
    if not same(va, v2a) or not same(vb, v2b):
        ctx.violation(f"{key}:rebuild-differs{sfx}", case, f"{va!r} vs {v2a!r}; 2nd draw {vb!r} vs {v2b!r}")
    vt = build()[0].compute(scheduler="threads", num_workers=3)
    if not same(va, vt):
        ctx.violation(f"{key}:scheduler-differs:threads{sfx}", case, f"{va!r} vs {vt!r}")
    vl = compute_lifo(build()[0])
    if not same(va, vl):
        ctx.violation(f"{key}:scheduler-differs:reverse-order{sfx}", case, f"{va!r} vs {vl!r}")
    if nblocks >= 2:
        a3 = build()[0]
        for idx, slc in block_slices(a3):
            v = a3.blocks[idx].compute()
            if not same(v, va[slc]):
                ctx.violation(f"{key}:block-alone-differs{sfx}", case, f"block {idx}: {v!r} vs {va[slc]!r}")
                break
    # "on every recomputation": the SAME array object computed again (sync, then threads)
    r1, r2 = a1.compute(), a1.compute(scheduler="threads", num_workers=3)
    if not same(va, r1) or not same(va, r2):
        ctx.violation(f"{key}:recompute-differs{sfx}", case, f"1st {va!r}, 2nd {r1!r}, 3rd (threads) {r2!r}")


def run_pair(case, ctx):
    import dask.array as da
    from dask.core import flatten

    _, mode, dist, shp, ch = case
    api = mode.rstrip("12")
    key = f"unseeded-{path_of(dist)}"
    # Generator.choice is not recomputable (finding seeded-choice:recompute-differs:generator-choice); joint==separate needs two computes
    sfx = ":generator-choice" if api == "G" and dist.startswith("choice") else ""
    nblocks = int(np.prod([len(c) for c in ch])) if ch else 1
    try:
        if mode.endswith("1"):
            rng = rng_of(api, None)
            xs = [draw(rng, api, dist, shp, ch) for _ in range(3)]
        else:
            xs = [draw(rng_of(api, None), api, dist, shp, ch) for _ in range(3)]
        sep = [x.compute() for x in xs]
        joint = da.compute(*xs)
        joint_t = da.compute(*xs, scheduler="threads", num_workers=3)
        stacked = da.stack(xs).compute()
    except Hang:
        raise
    except Exception as e:  # noqa: BLE001
        ctx.case(case, nontrivial=nblocks >= 2, outcome=("exc", type(e).__name__))
        ctx.violation(f"{key}:dask-raises:{type(e).__name__}{sfx}", case, repr(e))
        return
    ctx.case(case, nontrivial=nblocks >= 2, outcome=(mode, dist, shp, nblocks))
    names = [x.name for x in xs]
    if dist != "permutation":
        # permutation(x) is x[index]: its key is a function of the drawn index, so two equal draws (certain for len(x) <= 1, forced by
        # pigeonhole for 3 draws of len 2) legitimately share one key AND one value -- only joint==separate is demanded there
        if len(set(names)) != 3:
            ctx.violation(f"{key}:same-name{sfx}", case, f"names {names}")
        keysets = [set(map(str, flatten(x.__dask_keys__()))) for x in xs]
        if keysets[0] & keysets[1] or keysets[0] & keysets[2] or keysets[1] & keysets[2]:
            ctx.violation(f"{key}:shared-keys{sfx}", case, f"names {names}")
    for i in range(3):
        if not same(sep[i], joint[i]) or not same(sep[i], joint_t[i]) or not same(sep[i], stacked[i]):
            ctx.violation(f"{key}:joint-compute-differs{sfx}", case, f"array {i}: alone {sep[i]!r}, together {joint[i]!r}, stacked {stacked[i]!r}")
            break
    if dist in CONTINUOUS and sep[0].size >= 1:
        if same(sep[0], sep[1]) or same(sep[0], sep[2]) or same(sep[1], sep[2]):
            ctx.violation(f"{key}:same-draw{sfx}", case, f"{sep!r}")


def run_params(case, ctx):
    import dask.array as da

    _, api, pdist, seed, shp, ch, pkind, va, vb = case
    nblocks = int(np.prod([len(c) for c in ch]))
    key = "seeded-wrap-params"
    try:
        x = param_draw(rng_of(api, seed), pdist, pkind, va, shp, ch)
        y = param_draw(rng_of(api, seed), pdist, pkind, vb, shp, ch)
        x2 = param_draw(rng_of(api, seed), pdist, pkind, va, shp, ch)
        vx, problem = arr.compute_blocks(x)
        vy = y.compute()
        jx, jy = da.compute(x, y)
        tx, ty = da.compute(x, y, scheduler="threads", num_workers=3) if ctx.tier == "thorough" else (jx, jy)
        st = da.stack([x, y]).compute()
        v2 = x2.compute()
    except Hang:
        raise
    except Exception as e:  # noqa: BLE001
        ctx.case(case, nontrivial=nblocks >= 2, outcome=("exc", type(e).__name__))
        ctx.violation(f"{key}:dask-raises:{type(e).__name__}", case, repr(e))
        return
    ctx.case(case, nontrivial=nblocks >= 2, outcome=(pdist, vx.tobytes()[:32]))
    if problem:
        ctx.violation(f"{key}:lazy-metadata", case, problem)
        return
    if x.name != x2.name or not same(vx, v2):
        ctx.violation(f"{key}:rebuild-differs", case, f"{x.name} {vx!r} vs {x2.name} {v2!r}")
    # computing the two arrays in ONE graph is one more recomputation of each: same values as alone
    if not (same(vx, jx) and same(vy, jy) and same(vx, tx) and same(vy, ty) and same(vx, st[0]) and same(vy, st[1])):
        ctx.violation(f"{key}:joint-compute-differs", case, f"alone {vx!r}, {vy!r}; together {jx!r}, {jy!r}; stacked {st!r}")


def choice_known_class(case, exc=None):
    _, api, seed, pop, n, size, ch, p, shuffle = case
    if exc is not None and isinstance(exc, IndexError) and (size is None or size == ()):
        return "0d-size"
    if exc is None and len(ch) == 2 and len(ch[0]) == 1 and len(ch[1]) >= 2:
        return "2d-size-chunked-axis1"
    return None


def run_choice(case, ctx):
    import dask.array as da

    _, api, seed, pop, n, size, ch, p, shuffle = case
    shp = () if size is None else ((size,) if isinstance(size, int) else tuple(size))
    nblocks = int(np.prod([len(c) for c in ch])) if ch else 1
    values = np.arange(n) if pop == "int" else arr.data((n,), 0, lo=100)
    if p is None:
        pv = None
    else:
        pv = np.arange(1, n + 1, dtype="f8")
        pv = pv / pv.sum() if n else pv

    def build():
        rng = rng_of(api, seed)
        a = n if pop == "int" else (values if pop == "np" else da.from_array(values, chunks=(pop[1],)))
        pp = pv if p != "skew_da" else da.from_array(pv, chunks=1)
        kw = {"size": size, "replace": False, "p": pp, "chunks": ch if shp else "auto"}
        if api == "G":
            kw["shuffle"] = shuffle
        return rng.choice(a, **kw)

    # does NumPy accept the request at all?
    try:
        kw = {"size": size, "replace": False, "p": pv}
        if api == "G":
            np.random.default_rng(0).choice(values if pop != "int" else n, shuffle=shuffle, **kw)
        else:
            np.random.RandomState(0).choice(values if pop != "int" else n, **kw)
        np_exc = None
    except (ValueError, IndexError) as e:
        np_exc = e
    nontrivial = n >= 2 and int(np.prod(shp)) >= 2
    try:
        r = build()
        got, problem = arr.compute_blocks(r)
        got2 = build().compute()
        d_exc = None
    except Hang:
        raise
    except Exception as e:  # noqa: BLE001
        d_exc = e
    rejected = isinstance(d_exc, NotImplementedError) and len(ch) >= 1 and len(ch[0]) > 1
    ctx.case(case, nontrivial=nontrivial and not rejected, outcome=(n, shp, nblocks, type(np_exc).__name__, type(d_exc).__name__))
    if d_exc is not None:
        if rejected:
            ctx.count("rejected")  # documented refusal: replace=False with a multi-chunk output
            return
        if np_exc is not None:
            ctx.count("both_raise")
            return
        sub = choice_known_class(case, d_exc)
        ctx.violation(f"choice:dask-raises:{type(d_exc).__name__}" + (f":{sub}" if sub else ""), case, f"dask raised {d_exc!r}; NumPy accepts the call")
        return
    sub = choice_known_class(case)
    suffix = f":{sub}" if sub else ""
    if problem:
        ctx.violation(f"choice:lazy-metadata{suffix}", case, problem)
        return
    if got.shape != shp:
        ctx.violation(f"choice:wrong-shape{suffix}", case, f"shape {got.shape}, requested {shp}")
        return
    flat = got.ravel().tolist()
    if not set(flat) <= set(values.tolist()):
        ctx.violation(f"choice:not-in-population{suffix}", case, f"drew {flat} from {values.tolist()}")
    elif len(set(flat)) != len(flat):
        ctx.violation(f"choice:not-distinct{suffix}", case, f"drew {flat} without replacement from {values.tolist()}")
    elif np_exc is not None:
        ctx.count("inapplicable")
    if not same(got, got2):
        ctx.violation(f"choice:rebuild-differs{suffix}", case, f"{got!r} vs {got2!r}")


def run_case(case, ctx):
    if case[0] == "det":
        run_det(case, ctx)
    elif case[0] == "det-proc":
        import concurrent.futures

        import dask.multiprocessing as dmp

        with concurrent.futures.ProcessPoolExecutor(2, mp_context=dmp.get_context()) as pool:
            run_det(("det",) + tuple(case[1:]), ctx, processes_pool=pool)
    elif case[0] == "pair":
        run_pair(case, ctx)
    elif case[0] == "params":
        run_params(case, ctx)
    elif case[0] == "choice":
        run_choice(case, ctx)
    else:
        raise ValueError(case[0])


def RULE(tier):
    return (
        f"seeded: seeds {SEEDS[tier]} x APIs {{default_rng Generator ({len(G_DISTS)} distributions incl. ndarray/dask-array parameters, choice, "
        f"permutation, multinomial), RandomState ({len(RS_DISTS)}), module-level functions after da.random.seed ({len(MOD_DISTS)})}} x shapes "
        f"{shapes(tier)} x EVERY chunking: rebuild from the same seed (same name, same bits, also for the 2nd draw of the generator), recompute, real "
        "thread pool, reverse-order controlled executor, every block computed alone; multiprocessing scheduler for every chunking of (2,3) in the master. "
        "array-valued parameters: pairs of arrays from identically seeded generators (Generator, RandomState) x {normal loc, normal scale=, poisson lam, uniform high=} x "
        "{ndarray, dask array} x EVERY pair of distinct parameter vectors over {1, 1000} x shapes " + str(PARAM_SHAPES[tier]) + " x every chunking: rebuild equal, "
        "compute(x, y) and stack == the separate computes. unseeded: triples of arrays from {3 fresh generators, one generator used 3 times} x {Generator, RandomState, module-level} x 7 distributions x "
        "every shape/chunking: pairwise distinct names and key sets, compute(a,b,c) (sync, threads) and stack == separate computes. "
        f"choice(replace=False): population n <= {NCHOICE[tier]} as int / ndarray / dask array with EVERY chunking x size in {{None, (), 0..n+1, 2-d a*b<=n}} "
        "x every output chunking x p in {None, skewed ndarray, skewed dask array} x shuffle: drawn elements lie in the population and are pairwise "
        "distinct, or the documented NotImplementedError for a multi-chunk output. non-trivial = >= 2 blocks (choice: >= 2 drawn from >= 2)."
    )


def run_shard(shard, ctx):
    for case in cases_of(shard, ctx.tier):
        if ctx.out_of_time():
            return
        ctx.guard(case, run_case, case, ctx)


def replay(case, ctx):
    run_case(case, ctx)


def conformance(ctx):
    """multiprocessing scheduler (cannot be started from the daemonic shard workers): one real spawn pool, every chunking of (2,3)"""
    import concurrent.futures

    import dask.multiprocessing as dmp

    n = 0
    with concurrent.futures.ProcessPoolExecutor(2, mp_context=dmp.get_context()) as pool:
        for api, dist in (("G", "normal"), ("G", "integers"), ("G", "normal_nploc"), ("G", "choice"), ("RS", "normal"), ("RS", "randint"), ("RS", "choice")):
            for seed in (0, 1):
                for ch in enums.chunkings((2, 3)):
                    case = ("det", api, dist, seed, (2, 3), tuple(ch))
                    before = set(ctx.violations)
                    run_det(case, ctx, processes_pool=pool)
                    for k in set(ctx.violations) - before:  # make the recorded case replay through the processes path
                        ctx.violations[k]["case"] = ("det-proc",) + case[1:]
                    n += 1
    return {"processes_scheduler_cases": n}
