"""C33 -- masked-array operations equal numpy.ma for any masked input and chunking (DESIGN 5/C33).
E4: exhaustive small scope -- every mask (and nomask) of every small array x EVERY chunking x every operation of a fixed
list (construction, elementwise, reductions/scans, accessors, masking functions), against numpy.ma on the whole array."""
from __future__ import annotations

import itertools
import warnings

import numpy as np

from mc import arr, enums
from mc.run import Hang

ID = "C33"
LEVEL = "exploration"
WATCHDOG_S = 30.0
NMAX = {"quick": 4, "thorough": 5}
ASSUMPTIONS = [
    "sync scheduler; reference = the same expression evaluated by numpy / numpy.ma on the whole (unchunked) masked array",
    "oracle = the statement: mask equal (nomask == all-False), data equal at the unmasked cells, dtype equal; the data stored under "
    "masked cells is not compared (numpy.ma leaves it unspecified) except for getdata/filled, whose output is plain data",
    "float tolerance rtol=1e-9*n only for mean/var/std/average/prod on floats; integer data elsewhere",
    "a case on which numpy.ma itself raises is 'inapplicable'",
]

NOMASK = "nomask"
FILL = 7


def RULE(tier):
    n = NMAX[tier]
    q = tier == "quick"
    return (
        f"1-d data of length 0..{n} (seed-chosen permutation of 0..n-1, so one cell is 0) x EVERY one of the 2^n masks + nomask x EVERY chunking "
        "x 3 constructions (da.ma.masked_array with a dask mask / a numpy mask, from_array of a numpy masked array) x fill_value {None, 7} x "
        f"{len(UNARY)} unary ops (construct, scalar mask, dtype, filled(None/99), getmaskarray, getdata, -x, abs, x+3, 2*x, 6/x (domain masking), "
        "x<2, x==2, x**2, sqrt, astype, x[::-1], x[-1:], set_fill_value, ones/zeros_like, ma.nonzero, ma.where, masked_where (numpy/dask "
        "condition), masked_equal/not_equal/greater(_equal)/less(_equal) with scalar and array values, masked_inside/outside/values)"
        + (" (quick: for n >= 3 the numpy-mask/from_array constructions and fill 7 meet a rotating third of the ops)" if q else "")
        + "; reductions {sum, prod, mean, var, std, min, max, any, all, argmin, argmax, ma.count, ma.average(weights), cumsum, cumprod} x "
        "keepdims x split_every {None, 2} x int/float data; 2-d (2,2) all masks and (2,3) "
        + ("(masks with an all-masked row/column or <= 1 masked cell)" if q else "all masks, (3,2)")
        + f" x every chunking x every axis; binary ops {{+,-,*,/,<,==,!=,maximum,where}} between two independently masked and independently "
        f"chunked operands of length <= {3 if q else 4} (masked dask | plain dask | numpy.ma | masked scalar) and (2,2) against (2,) "
        "broadcasting; float data over {1.5,NaN,inf,0} for masked_invalid / fix_invalid. Oracle: mask equal, data equal at unmasked "
        "cells, dtype, fill_value where the statement names it, block shapes; fill values {default, 7, NaN, inf, negative} x int/float data "
        "x every mask x every chunking x {compute assembly, filled, rechunk to every other chunking, filled after rechunk} with the "
        "fill_value compared NaN-aware. non-trivial = >= 2 chunks on some operand."
    )


# ---------------------------------------------------------------------------------------------- alphabets
def masks_of(n):
    """every boolean mask of length n, plus nomask"""
    yield NOMASK
    for m in enums.masks(n):
        yield tuple(int(b) for b in m)


UNARY = [
    ("construct",),
    ("filled", None),
    ("filled", 99),
    ("getmaskarray",),
    ("getdata",),
    ("neg",),
    ("abs",),
    ("add_s",),
    ("mul_s",),
    ("rdiv_s",),
    ("lt_s",),
    ("eq_s",),
    ("pow2",),
    ("sqrt",),
    ("set_fill",),
    ("ones_like",),
    ("zeros_like",),
    ("nonzero",),
    ("where3",),
    ("m_where", "np"),
    ("m_where", "da"),
    ("m_equal",),
    ("m_not_equal",),
    ("m_greater",),
    ("m_greater_equal",),
    ("m_less",),
    ("m_less_equal",),
    ("m_inside",),
    ("m_outside",),
    ("m_values",),
    ("astype_f",),
    ("rev",),
    ("take_last",),
    ("scalar_mask", True),
    ("scalar_mask", False),
    ("ctor_dtype",),
    ("m_greater_arr", "np"),
    ("m_greater_arr", "da"),
    ("filled_sum",),
]
REDS = ["sum", "prod", "mean", "var", "std", "min", "max", "any", "all", "argmin", "argmax", "count", "average", "cumsum", "cumprod"]
BINOPS = ["add", "sub", "mul", "truediv", "lt", "eq", "ne", "maximum", "where"]
BKINDS = ["ma", "plain", "npma", "scalar"]
BUILDS = ["ma", "ma_np", "fa"]
INVALID_ALPHA = (1.5, "nan", "inf", 0.0)

KINDS = [("un", 12), ("red", 8), ("red2", 16), ("bin", 12), ("inv", 2), ("un2", 2), ("fill", 8)]
FILLS = {"f8": (None, 7.0, "nan", -1.5, "inf"), "i8": (None, 7, -1)}


def shards(tier):
    mult = 1 if tier == "quick" else 4
    return [(k, p, n * mult) for k, n in KINDS for p in range(n * mult)]


def chs(n):
    return list(enums.compositions(n)) if n else [(0,)]


def gen(kind, tier):
    n_max = NMAX[tier]
    T = tier == "thorough"
    Q = not T
    if kind == "un":
        for n in range(0, n_max + 1):
            for m in masks_of(n):
                for ch in chs(n):
                    for bi, build in enumerate(BUILDS):
                        for fill in (None, FILL):
                            for oi, op in enumerate(UNARY):
                                # sized (quick): the full op list on the dask-mask construction; the other two constructions and the
                                # explicit fill value rotate through the op list (each op meets each of them on a third of the masks)
                                if Q and (bi or fill) and n >= 3 and (oi + bi + (1 if fill else 0) + sum(m if m != NOMASK else (0,))) % 3:
                                    continue
                                yield ("un", n, m, ch, build, fill, op)
    elif kind == "red":
        for n in range(0, n_max + 1):
            for m in masks_of(n):
                for ch in chs(n):
                    for red in REDS:
                        if n == 0 and red in ("mean", "var", "std", "average"):
                            continue  # a priori: numpy.ma is itself inconsistent on an empty array (masked constant without, unmasked nan with keepdims)
                        for keep in (False, True):
                            for se in (None, 2) if len(ch) >= 3 else (None,):
                                for dt in ("i8", "f8") if red in ("sum", "mean", "var", "min", "prod") and not keep else ("i8",):
                                    yield ("red", (n,), m, (ch,), "ma", red, None if red in ("cumsum", "cumprod") and n == 0 else 0, keep, se, dt)
    elif kind == "red2":
        for shp in [(2, 2), (2, 3)] + ([(3, 2)] if T else []):
            size = shp[0] * shp[1]
            for m in masks_of(size):
                if Q and size == 6 and m != NOMASK:
                    # sized: of the 64 masks of (2,3) keep those with an all-masked row or column, 0/1 masked cells, and all masked
                    M = np.array(m).reshape(shp)
                    if not (M.all(axis=0).any() or M.all(axis=1).any() or M.sum() <= 1):
                        continue
                for ch in enums.chunkings(shp):
                    for red in REDS:
                        for ax in (None, 0, 1) if red not in ("cumsum", "cumprod") else (0, 1):
                            for keep in (False, True) if (T or red in ("sum", "min", "mean")) else (False,):
                                yield ("red", shp, m, ch, "ma" if not keep else "fa", red, ax, keep, None, "i8")
    elif kind == "bin":
        for n in range(1, (3 if Q else 4) + 1):
            for ma in masks_of(n):
                for cha in chs(n):
                    for bk in BKINDS:
                        for mb in masks_of(n) if bk in ("ma", "npma") else ([NOMASK] if bk == "plain" else [(0,), (1,)]):
                            for chb in chs(n) if bk in ("ma", "plain") else [None]:
                                for oi, op in enumerate(BINOPS):
                                    if Q and n == 3 and bk == "ma" and (oi + sum(mb if mb != NOMASK else (0,)) + len(chb)) % 3:
                                        continue  # sized: at n=3 each (mask pair, chunking pair) meets a third of the operators
                                    yield ("bin", n, ma, cha, bk, mb, chb, op)
        for ma in masks_of(4):  # broadcasting (2,2) against (2,) and (1,2)
            for cha in enums.chunkings((2, 2)):
                for mb in masks_of(2):
                    for chb in chs(2):
                        for op in ("add", "lt", "where"):
                            yield ("bin2", ma, cha, mb, chb, op)
    elif kind == "inv":
        for n in range(0, n_max + 1):
            for xs in itertools.product(INVALID_ALPHA if n < n_max or T else INVALID_ALPHA[:3], repeat=n):
                for ch in chs(n):
                    for op in ("masked_invalid", "fix_invalid", "fix_invalid_f", "masked_invalid_sum", "masked_invalid_on_masked"):
                        yield ("inv", xs, ch, op)
    elif kind == "fill":
        # fill values (default, small, NaN/inf for float data, a negative one) x every path on which dask has to carry the fill value
        # across block boundaries: compute() assembly, filled() per block, rechunk to EVERY other chunking (merge and split), each
        # observed through the computed fill_value / mask / data and through da.ma.filled
        shapes = [(n,) for n in range(0, n_max + 1)] + [(2, 2)] + ([(2, 3)] if T else [])
        for shp in shapes:
            size = int(np.prod(shp))
            allch = list(enums.chunkings(shp))
            for dt in ("f8", "i8"):
                for fv in FILLS[dt]:
                    for mi, m in enumerate(masks_of(size)):
                        if Q and size >= 4 and fv in (None, 7, 7.0, "inf") and mi % 3:
                            continue  # sized: the largest shapes meet the default/plain fill values on a third of the masks
                        for ch in allch:
                            for build in ("fa", "ma"):
                                yield ("fill", shp, dt, m, ch, build, fv, ("compute",))
                                yield ("fill", shp, dt, m, ch, build, fv, ("filled",))
                                if build == "ma" and Q and size >= 4:
                                    continue
                                for new in allch:
                                    if new != ch:
                                        yield ("fill", shp, dt, m, ch, build, fv, ("rechunk", new))
                                        if T or fv not in (None, 7, 7.0):
                                            yield ("fill", shp, dt, m, ch, build, fv, ("rechunk_filled", new))
    elif kind == "un2":
        for shp in [(2, 2)] + ([(2, 3)] if T else []):
            for m in masks_of(shp[0] * shp[1]):
                for ch in enums.chunkings(shp):
                    for op in [("construct",), ("filled", None), ("getmaskarray",), ("rdiv_s",), ("m_where", "da"), ("m_greater",), ("m_greater_arr", "da"), ("m_less_arr2", "np"), ("m_less_arr2", "da"), ("nonzero",), ("T",), ("row0",), ("where3",), ("filled_sum",)]:
                        for build in ("ma", "fa"):
                            yield ("un2", shp, m, ch, build, None, op)
    else:
        raise ValueError(kind)


def cases_of(shard, tier):
    kind, part, nparts = shard
    for i, case in enumerate(gen(kind, tier)):
        if i % nparts == part:
            yield case


# ---------------------------------------------------------------------------------------------- building operands
def np_masked(x, m, fill=None):
    return np.ma.masked_array(x, mask=np.ma.nomask if m == NOMASK else np.array(m, dtype=bool).reshape(x.shape), fill_value=fill)


def da_masked(x, m, ch, build, fill=None):
    import dask.array as da

    if build == "fa":
        return da.from_array(np_masked(x, m, fill), chunks=ch, asarray=False)
    d = da.from_array(x, chunks=ch)
    if m == NOMASK:
        return da.ma.masked_array(d, fill_value=fill)
    mk = np.array(m, dtype=bool).reshape(x.shape)
    return da.ma.masked_array(d, mask=da.from_array(mk, chunks=ch) if build == "ma" else mk, fill_value=fill)


def base_data(shape, seed, dtype="i8"):
    return arr.data(shape, seed, dtype=dtype, lo=0)  # permutation of 0..size-1: contains a 0 (division/any/all/prod matter)


def compute_ma(d):
    """one optimized compute of all blocks -> (value assembled exactly as Array.compute() does, problem|None);
    checks that every block has its declared chunk shape"""
    import dask
    from dask.core import flatten

    if not hasattr(d, "dask"):
        return d, None
    keys = d.__dask_keys__()
    dsk = d.__dask_optimize__(d.__dask_graph__(), keys)
    flat = list(flatten(keys))
    vals = dask.get(dsk, flat)
    problem = None
    idxs = list(itertools.product(*[range(k) for k in d.numblocks])) if d.ndim else [()]
    for idx, v in zip(idxs, vals):
        want = tuple(c[i] for c, i in zip(d.chunks, idx))
        shp = np.shape(v)
        if len(shp) != len(want) or any((not np.isnan(w)) and w != s for w, s in zip(want, shp)):
            problem = problem or f"block {idx} has shape {shp}, declared {want}"
    it = iter(vals)

    def nest(k):
        return [nest(e) for e in k] if isinstance(k, list) else next(it)

    finalize, extra = d.__dask_postcompute__()
    out = finalize(nest(keys), *extra)
    if problem is None and not any(np.isnan(s) for s in d.shape) and np.shape(out) != tuple(d.shape):
        problem = f"computed shape {np.shape(out)} != lazy {d.shape}"
    if problem is None and hasattr(out, "dtype") and out.dtype != d.dtype and out is not np.ma.masked:
        problem = f"computed dtype {out.dtype} != lazy {d.dtype}"
    return out, problem


def ma_equal(got, want, rtol=0.0, check_fill=False, plain=False):
    """-> None | reason.  mask equal, data equal where unmasked, dtype equal."""
    if want is np.ma.masked:
        if got is np.ma.masked or (isinstance(got, np.ma.MaskedArray) and np.shape(got) == () and bool(np.ma.getmaskarray(got))):
            return None
        return f"numpy.ma gives the masked constant, dask gives {got!r}"
    w_is_ma = isinstance(want, np.ma.MaskedArray)
    g_is_ma = isinstance(got, np.ma.MaskedArray) or got is np.ma.masked
    wm = np.ma.getmaskarray(want) if w_is_ma else np.zeros(np.shape(want), dtype=bool)
    gm = np.ma.getmaskarray(got) if g_is_ma else np.zeros(np.shape(got), dtype=bool)
    if np.shape(got) != np.shape(want):
        return f"shape {np.shape(got)} != {np.shape(want)}"
    if not np.array_equal(gm, wm):
        return f"mask {gm.astype(int)!r} != {wm.astype(int)!r}"
    gd, wd = np.asarray(np.ma.getdata(got)), np.asarray(np.ma.getdata(want))
    if gd.dtype != wd.dtype:
        return f"dtype {gd.dtype} != {wd.dtype}"
    keep = ~wm
    with warnings.catch_warnings():
        warnings.simplefilter("ignore")
        a, b = gd[keep], wd[keep]
        if rtol and a.dtype.kind in "fc":
            ok = np.allclose(a, b, rtol=rtol, atol=0.0, equal_nan=True)
        elif a.dtype.kind in "fc":
            ok = np.array_equal(a, b, equal_nan=True)
        else:
            ok = np.array_equal(a, b)
    if not ok:
        return f"unmasked data {a!r} != {b!r} (mask {wm.astype(int)!r})"
    if check_fill == "always" and w_is_ma and not g_is_ma:
        return f"fill_value lost: dask computes a plain {type(got).__name__}, numpy.ma a masked array with fill_value {want.fill_value!r}"
    if check_fill and w_is_ma and g_is_ma and (wm.any() or check_fill == "always"):
        gf, wf = np.asarray(got.fill_value), np.asarray(want.fill_value)
        if gf.dtype != wf.dtype or not np.array_equal(gf, wf, equal_nan=gf.dtype.kind in "fc"):
            return f"fill_value {got.fill_value!r} != {want.fill_value!r}"
    return None


# ---------------------------------------------------------------------------------------------- operations
def unary(op, A, x, xp, is_da):
    """the same expression on a numpy.ma array (xp = np.ma, np functions) and on a dask array (xp = da.ma, da functions)"""
    import dask.array as da

    F = da if is_da else np
    name = op[0]
    if name == "construct":
        return A
    if name == "filled":
        return xp.filled(A, op[1]) if op[1] is not None else xp.filled(A)
    if name == "getmaskarray":
        return xp.getmaskarray(A)
    if name == "getdata":
        return xp.getdata(A)
    if name == "neg":
        return -A
    if name == "abs":
        return abs(A - 1)
    if name == "add_s":
        return A + 3
    if name == "mul_s":
        return 2 * A
    if name == "rdiv_s":
        return 6 / A
    if name == "lt_s":
        return A < 2
    if name == "eq_s":
        return A == 2
    if name == "pow2":
        return A**2
    if name == "sqrt":
        return F.sqrt(A)
    if name == "set_fill":
        B = A + 0
        xp.set_fill_value(B, 5)
        return xp.filled(B)
    if name == "ones_like":
        return (da.ma.ones_like if is_da else np.ma.ones_like)(A)
    if name == "zeros_like":
        return (da.ma.zeros_like if is_da else np.ma.zeros_like)(A)
    if name == "nonzero":
        return list(xp.nonzero(A))
    if name == "where3":
        return xp.where(A > 1, A, -A)
    if name == "m_where":
        c = x % 2 == 0
        if is_da and op[1] == "da":
            c = da.from_array(c, chunks=A.chunks)
        return xp.masked_where(c, A)
    if name in ("m_equal", "m_not_equal", "m_greater", "m_greater_equal", "m_less", "m_less_equal"):
        return getattr(xp, "masked_" + name[2:])(A, 1)
    if name == "m_inside":
        return xp.masked_inside(A, 1, 2)
    if name == "m_outside":
        return xp.masked_outside(A, 1, 2)
    if name == "m_values":
        return xp.masked_values(A, 2)
    if name == "astype_f":
        return A.astype("f8")
    if name == "rev":
        return A[::-1]
    if name == "take_last":
        return A[-1:]
    if name == "scalar_mask":
        return xp.masked_array(xp.getdata(A), mask=op[1], fill_value=3)
    if name == "ctor_dtype":
        return xp.masked_array(xp.getdata(A), mask=xp.getmaskarray(A), dtype="f4")
    if name == "m_greater_arr":
        v = np.arange(x.shape[-1])[::-1].copy()  # broadcasts against the last axis
        if is_da and op[1] == "da":
            v = da.from_array(v, chunks=1)
        return xp.masked_greater(A, v)
    if name == "m_less_arr2":
        v = np.arange(x.size).reshape(x.shape)[::-1, ::-1].copy() if x.ndim == 2 else np.arange(x.size)[::-1].copy()
        if is_da and op[1] == "da":
            v = da.from_array(v, chunks=1)
        return xp.masked_less(A, v)  # value of the same dimensionality (not symmetric under transposition for 2-d)
    if name == "filled_sum":
        return (da if is_da else np).sum(xp.filled(A + 1, 0))
    if name == "T":
        return A.T
    if name == "row0":
        return A[0]
    raise ValueError(name)


def reduce_(red, A, ax, keep, se, is_da, w=None):
    import dask.array as da

    F = da if is_da else np
    kw = {"split_every": se} if (is_da and se is not None) else {}
    if red == "count":
        return (da.ma.count if is_da else np.ma.count)(A, axis=ax, keepdims=keep, **kw)
    if red == "average":
        return (da.ma.average if is_da else np.ma.average)(A, axis=ax, weights=w, keepdims=keep)
    if red in ("cumsum", "cumprod"):
        return getattr(A, red)(axis=ax)
    if red in ("argmin", "argmax"):
        return getattr(F, red)(A, axis=ax, keepdims=keep, **kw)
    return getattr(F, red)(A, axis=ax, keepdims=keep, **kw)


def binary(op, A, B, is_da):
    import dask.array as da

    F = da if is_da else np
    if op == "add":
        return A + B
    if op == "sub":
        return A - B
    if op == "mul":
        return A * B
    if op == "truediv":
        return A / B
    if op == "lt":
        return A < B
    if op == "eq":
        return A == B
    if op == "ne":
        return A != B
    if op == "maximum":
        return F.maximum(A, B)
    if op == "where":
        return (da.ma.where if is_da else np.ma.where)(A > B, A, B)
    raise ValueError(op)


def known_class(case, stage, exc=None, got=None, want=None):
    """narrow input classes of recorded findings (C33.findings.json)"""
    return None


def run_case(case, ctx):
    import dask.array as da

    kind = case[0]
    rtol = 0.0
    check_fill = False
    multi = False  # list of outputs
    if kind in ("un", "un2"):
        _, shp, m, ch, build, fill, op = case
        shp = (shp,) if kind == "un" else shp
        ch = (ch,) if kind == "un" else ch
        x = base_data(shp, ctx.seed)
        opname = op[0] if op[0] != "m_where" else "m_where"
        nontrivial = any(len(c) >= 2 for c in ch)
        check_fill = op[0] in ("construct", "neg", "rev", "take_last", "scalar_mask") and (fill is not None or op[0] == "scalar_mask")
        multi = op[0] == "nonzero"
        f_np = lambda: unary(op, np_masked(x, m, fill), x, np.ma, False)
        f_da = lambda: unary(op, da_masked(x, m, ch, build, fill), x, da.ma, True)
    elif kind == "red":
        _, shp, m, ch, build, red, ax, keep, se, dt = case
        x = base_data(shp, ctx.seed, dt)
        if dt == "f8":
            x = x * 0.5 + 0.25
        opname = red
        nontrivial = any(len(c) >= 2 for c in ch)
        size = int(np.prod(shp))
        rtol = 1e-9 * max(size, 1) if red in ("mean", "var", "std", "average", "prod", "sum", "cumsum", "cumprod") and (dt == "f8" or red in ("mean", "var", "std", "average")) else 0.0
        w = None
        dw = None
        if red == "average":
            wlen = shp[ax] if ax is not None else None
            if ax is None:
                w = (arr.data(shp, ctx.seed + 1) % 3 + 1).astype("f8")
                dw = da.from_array(w, chunks=ch)
            else:
                w = (np.arange(wlen) % 3 + 1).astype("f8")
                dw = da.from_array(w, chunks=(ch[ax],))
        f_np = lambda: reduce_(red, np_masked(x, m), ax, keep, se, False, w)
        f_da = lambda: reduce_(red, da_masked(x, m, ch, build), ax, keep, se, True, dw)
    elif kind == "bin":
        _, n, ma_, cha, bk, mb, chb, op = case
        x = base_data((n,), ctx.seed)
        y = base_data((n,), ctx.seed + 1)[::-1].copy()
        opname = op
        nontrivial = len(cha) >= 2 or (chb is not None and len(chb) >= 2)

        def mk(is_da):
            A = da_masked(x, ma_, (cha,), "ma") if is_da else np_masked(x, ma_)
            if bk == "ma":
                B = da_masked(y, mb, (chb,), "ma") if is_da else np_masked(y, mb)
            elif bk == "plain":
                B = da.from_array(y, chunks=(chb,)) if is_da else y
            elif bk == "npma":
                B = np_masked(y, mb)
            else:
                B = np.ma.masked_array(2, mask=bool(mb[0]))
            return A, B

        f_np = lambda: binary(op, *mk(False), False)
        f_da = lambda: binary(op, *mk(True), True)
    elif kind == "bin2":
        _, ma_, cha, mb, chb, op = case
        x = base_data((2, 2), ctx.seed)
        y = base_data((2,), ctx.seed + 1)
        opname = op + "-bcast"
        nontrivial = any(len(c) >= 2 for c in cha) or len(chb) >= 2
        f_np = lambda: binary(op, np_masked(x, ma_), np_masked(y, mb), False)
        f_da = lambda: binary(op, da_masked(x, ma_, cha, "ma"), da_masked(y, mb, (chb,), "ma"), True)
    elif kind == "fill":
        _, shp, dt, m, ch, build, fv, path = case
        x = base_data(shp, ctx.seed, dt)
        fill = {"nan": np.nan, "inf": np.inf}.get(fv, fv)
        opname = "fill." + path[0]
        nontrivial = any(len(c) >= 2 for c in ch) or (len(path) > 1 and any(len(c) >= 2 for c in path[1]))
        check_fill = "always"
        f_np = lambda: np.ma.filled(np_masked(x, m, fill)) if path[0] in ("filled", "rechunk_filled") else np_masked(x, m, fill)

        def f_da():
            d = da_masked(x, m, ch, build, fill)
            if path[0] in ("rechunk", "rechunk_filled"):
                d = d.rechunk(path[1])
            return da.ma.filled(d) if path[0] in ("filled", "rechunk_filled") else d

    elif kind == "inv":
        _, xs, ch, op = case
        x = np.array([{"nan": np.nan, "inf": np.inf}.get(v, v) for v in xs], dtype="f8")
        opname = op
        nontrivial = len(ch) >= 2
        mpre = tuple(int(i % 2 == 0) for i in range(len(xs)))

        def f(is_da):
            xp = da.ma if is_da else np.ma
            A = da.from_array(x, chunks=(ch,)) if is_da else x
            if op == "masked_invalid":
                return xp.masked_invalid(A)
            if op == "fix_invalid":
                return xp.fix_invalid(A)
            if op == "fix_invalid_f":
                return xp.fix_invalid(A, fill_value=-1.0)
            if op == "masked_invalid_sum":
                return (da if is_da else np).sum(xp.masked_invalid(A))
            if op == "masked_invalid_on_masked":
                return xp.masked_invalid(da_masked(x, mpre, (ch,), "ma") if is_da else np_masked(x, mpre))
            raise ValueError(op)

        f_np = lambda: f(False)
        f_da = lambda: f(True)
    else:
        raise ValueError(kind)

    with warnings.catch_warnings():
        warnings.simplefilter("ignore")
        np_exc = d_exc = None
        try:
            with np.errstate(all="ignore"):
                want = f_np()
        except Hang:
            raise
        except Exception as e:  # noqa: BLE001
            want, np_exc = None, e
        got = problem = None
        try:
            with np.errstate(all="ignore"):
                r = f_da()
                if multi:
                    got = []
                    for q in r:
                        g, p = arr.compute_blocks(q)
                        got.append(g)
                        problem = problem or p
                else:
                    got, problem = compute_ma(r)
        except Hang:
            raise
        except Exception as e:  # noqa: BLE001
            d_exc = e
    ctx.case(case, nontrivial=nontrivial, outcome=(opname, type(np_exc).__name__, type(d_exc).__name__, repr(np.ma.getmaskarray(want)) if np_exc is None and not multi else None))
    if np_exc is not None:
        ctx.count("both_raise" if d_exc is not None else "inapplicable")
        return
    if d_exc is not None:
        if isinstance(d_exc, NotImplementedError):
            ctx.count("rejected")
            return
        sub = known_class(case, "raises", exc=d_exc)
        ctx.violation(f"{opname}:dask-raises:{type(d_exc).__name__}" + (f":{sub}" if sub else ""), case, f"dask raised {d_exc!r}; numpy.ma gives {want!r}")
        return
    if problem:
        sub = known_class(case, "meta")
        ctx.violation(f"{opname}:lazy-metadata" + (f":{sub}" if sub else ""), case, problem)
        return
    if multi:
        whys = [arr.equal(g, np.asarray(w)) for g, w in zip(got, want)]
        why = next((w for w in whys if w), None) if len(got) == len(want) else "arity"
    else:
        why = ma_equal(got, want, rtol=rtol, check_fill=check_fill)
    if why:
        sub = known_class(case, "value", got=got, want=want)
        cls = "wrong-mask" if why.startswith("mask ") or "masked constant" in why else ("wrong-fill" if why.startswith("fill_value") else "wrong-value")
        ctx.violation(f"{opname}:{cls}" + (f":{sub}" if sub else ""), case, why + f"   numpy.ma: {want!r}   dask: {got!r}")


def run_shard(shard, ctx):
    for case in cases_of(shard, ctx.tier):
        if ctx.out_of_time():
            return
        ctx.guard(case, run_case, case, ctx)


def replay(case, ctx):
    run_case(case, ctx)
