"""C53 -- SerializableLock identity across pickling (DESIGN 5/C53).
(h) BFS over histories of create / pickle / copy / delete / acquire / release on real locks against a union-find model;
(t) ALL interleavings of 2-3 logical threads contending on copies, at lock-operation granularity."""
from __future__ import annotations

import copy
import gc
import itertools
import pickle

from mc import history
from mc.explore import explore
from mc.run import Hang

ID = "C53"
LEVEL = "model_checking"
WATCHDOG_S = 900.0
DEPTH = {"quick": 8, "thorough": 10}
MAXH = 4
ASSUMPTIONS = [
    "locks created with the same explicit (truthy) token are the same lock by design; locks created without a token are separate",
    "a lock class exists while at least one of its SerializableLock objects is alive (the registry is weak); falsy explicit tokens are outside the alphabet",
    "logical threads are stepped by the explorer at lock-operation granularity; a thread at its acquire step is enabled iff the REAL lock it holds a copy of reports free; "
    "a free-running real-thread run of the same bodies is a conformance pass only",
    "dedup of histories on (partition of handles into lock classes, held flags, token kinds): every operation's effect depends only on these",
]


def RULE(tier):
    return (
        f"(h) ALL histories to depth {DEPTH[tier]} over ops create(token None | 't' | an int | the decimal string of that int), pickle round trip(i), copy.copy(i), copy.deepcopy(i), dumps(i) into one of 2 blob slots, loads(blob) (also after every object of the lock died), del i + gc, "
        f"acquire(i, blocking=False), release(i) on <= {MAXH} live handles; after every step acquire/locked of EVERY handle is compared with the model (same class <=> "
        "same mutual exclusion). (t) ALL interleavings of 2 and 3 logical threads [obtain own copy, acquire, read counter, write counter+1, release] for every assignment "
        "of threads to locks (copies by pickle/copy/equal token, separate locks): threads of one class never overlap in the critical section and lose no update; a thread "
        "of another class is never blocked. non-trivial = history length >= 3 / >= 2 threads."
    )


class LockSystem:
    """real: SerializableLock objects and pickled blobs.  model: a lock class per TOKEN (generated or explicit); a class exists
    while one of its objects is alive; a blob re-creates / joins the class of its token."""

    serial = 0

    def __init__(self):
        from dask.utils import SerializableLock

        self.SL = SerializableLock
        self.h = []  # live handles: (real lock, token id)
        self.held = {}  # token id -> bool, for classes with a live member
        self.blobs = []  # (bytes, token id)
        self.ntok = 0
        self.explicit = {}  # explicit token name -> token id
        LockSystem.serial += 1
        self.sid = LockSystem.serial  # explicit tokens are unique per system: locks of an earlier, not yet collected history must not be shared

    def members(self, c):
        return [i for i, (_, ci) in enumerate(self.h) if ci == c]

    def enabled(self):
        ops = []
        if len(self.h) < MAXH:
            ops += [("create", None), ("create", "t"), ("create", "int"), ("create", "intstr")]
            for i in range(len(self.h)):
                ops += [("pickle", i), ("copy", i), ("deepcopy", i)]
            for b in range(len(self.blobs)):
                ops.append(("loads", b))
        if len(self.blobs) < 2:
            for i in range(len(self.h)):
                ops.append(("dumps", i))
        for i in range(len(self.h)):
            ops.append(("del", i))
            ops.append(("acquire", i))
            if self.held[self.h[i][1]]:
                ops.append(("release", i))
        return ops

    def _join(self, l, tid):
        if tid not in self.held:
            self.held[tid] = False
        self.h.append((l, tid))

    def step(self, op):
        viol = []
        k = op[0]
        if k == "create":
            tok = op[1]
            # "int" is an integer token, "intstr" the DIFFERENT token that is its decimal string (both unique per system)
            real = None if tok is None else (10**6 + self.sid if tok == "int" else (str(10**6 + self.sid) if tok == "intstr" else f"{tok}-{self.sid}"))
            l = self.SL(real)
            if tok is None:
                tid = self.ntok
                self.ntok += 1
            else:
                if tok not in self.explicit:
                    self.explicit[tok] = self.ntok
                    self.ntok += 1
                tid = self.explicit[tok]
            self._join(l, tid)
        elif k in ("pickle", "copy", "deepcopy"):
            l, tid = self.h[op[1]]
            if k == "pickle":
                l2 = pickle.loads(pickle.dumps(l))
            elif k == "copy":
                l2 = copy.copy(l)
            else:
                l2 = copy.deepcopy(l)
            self._join(l2, tid)
        elif k == "dumps":
            l, tid = self.h[op[1]]
            self.blobs.append((pickle.dumps(l), tid))
        elif k == "loads":
            blob, tid = self.blobs[op[1]]
            self._join(pickle.loads(blob), tid)
        elif k == "del":
            l, tid = self.h.pop(op[1])
            del l  # CPython frees the object (and, with its last member, the weakly registered Lock) immediately: no cycles are involved
            if not self.members(tid):
                del self.held[tid]
        elif k == "acquire":
            l, tid = self.h[op[1]]
            got = l.acquire(blocking=False)
            want = not self.held[tid]
            if got != want:
                viol.append(("acquire-outcome", f"{op}: acquire returned {got}, model says lock class {'free' if want else 'held'}"))
            if got:
                self.held[tid] = True
        elif k == "release":
            l, tid = self.h[op[1]]
            try:
                l.release()
            except RuntimeError as e:
                viol.append(("release-raises", f"{op}: {e!r} although the class is held"))
            self.held[tid] = False
        for i, (l, tid) in enumerate(self.h):
            if l.locked() != self.held[tid]:
                viol.append(("locked-disagrees", f"after {op}: handle {i}.locked()={l.locked()} model held={self.held[tid]}"))
                break
        return viol

    def canon(self):
        rel = {}
        part = []
        for _, c in self.h:
            rel.setdefault(c, len(rel))
            part.append(rel[c])
        blobs = []
        for _, c in self.blobs:
            rel.setdefault(c, len(rel))
            blobs.append(rel[c])
        held = tuple(self.held.get(c) for c in sorted(rel, key=rel.get))
        toks = tuple(sorted((t, rel.get(c, -1)) for t, c in self.explicit.items()))
        # real (implementation) side of the state: which handles share the underlying lock object, and which are registered.
        # Without it a history that only differs in the hidden registry state would be merged with a healthy one.
        ids, rpart, reg = {}, [], []
        for l, _ in self.h:
            inner = getattr(l, "lock", None)
            ids.setdefault(id(inner), len(ids))
            rpart.append(ids[id(inner)])
            try:
                reg.append(self.SL._locks.get(l.token) is inner)
            except Exception:  # noqa: BLE001
                reg.append(None)
        return (tuple(part), tuple(blobs), held, toks, tuple(rpart), tuple(reg))

    def cleanup(self):
        for l, c in self.h:
            if l.locked():
                try:
                    l.release()
                except RuntimeError:
                    pass
        self.h = []
        gc.collect()


# ------------------------------------------------------------------ (t) interleavings
def thread_configs():
    """assignment of threads to lock sources: each thread is ('orig'|'pickle'|'copy'|'token'|'sep', group)"""
    out = []
    for n in (2, 3):
        for groups in itertools.product(range(n), repeat=n):
            # canonical: first occurrence order
            rel, g2 = {}, []
            for g in groups:
                rel.setdefault(g, len(rel))
                g2.append(rel[g])
            if tuple(g2) != groups:
                continue
            for how in ("pickle", "copy", "token"):
                if n == 3 and len(set(groups)) == 3 and how != "pickle":
                    continue  # three separate locks: the unconstrained interleaving space (756k) is explored once
                out.append((n, groups, how))
    return out


def run_threads(cfg, chooser, ctx=None):
    from dask.utils import SerializableLock

    n, groups, how = cfg
    base = {}
    for g in set(groups):
        base[g] = SerializableLock(f"tok-{g}-{id(chooser)}") if how == "token" else SerializableLock()
    blobs = {g: pickle.dumps(l) for g, l in base.items()}
    locks = [None] * n
    pc = [0] * n
    tmp = [None] * n
    counters = {g: 0 for g in set(groups)}
    in_cs = [False] * n
    problems = []
    steps = 0
    while True:
        enabled = []
        for t in range(n):
            if pc[t] >= 5:
                continue
            if pc[t] == 1:
                free_model = not any(in_cs[u] for u in range(n) if u != t and groups[u] == groups[t])
                free_real = not locks[t].locked()
                if free_real != free_model:
                    problems.append(("mutual-exclusion" if free_real else "separate-locks-exclude", f"thread {t} (group {groups[t]}) at acquire: real lock free={free_real}, model free={free_model}; in_cs={in_cs}"))
                if not free_real:
                    continue
            enabled.append(t)
        if not enabled:
            break
        t = enabled[chooser.choose(len(enabled))] if len(enabled) > 1 else enabled[0]
        steps += 1
        g = groups[t]
        if pc[t] == 0:
            if how == "pickle":
                locks[t] = pickle.loads(blobs[g])
            elif how == "copy":
                locks[t] = copy.copy(base[g])
            else:
                locks[t] = SerializableLock(base[g].token)
        elif pc[t] == 1:
            if not locks[t].acquire(blocking=False):
                problems.append(("acquire-failed-when-free", f"thread {t}"))
                break
            in_cs[t] = True
        elif pc[t] == 2:
            tmp[t] = counters[g]
        elif pc[t] == 3:
            counters[g] = tmp[t] + 1
        elif pc[t] == 4:
            locks[t].release()
            in_cs[t] = False
        pc[t] += 1
    if any(p < 5 for p in pc) and not problems:
        problems.append(("deadlock", f"pcs={pc}"))
    for g in set(groups):
        want = sum(1 for u in range(n) if groups[u] == g)
        if counters[g] != want and not problems:
            problems.append(("lost-update", f"group {g}: counter {counters[g]} != {want}"))
    for l in locks:
        if l is not None and l.locked():
            try:
                l.release()
            except RuntimeError:
                pass
    return problems, steps


def shards(tier):
    out = [("hist", p) for p in (("create", None), ("create", "t"), ("create", "int"))]
    out += [("threads", i) for i in range(len(thread_configs()))]
    return out


def run_shard(shard, ctx):
    if shard[0] == "hist":
        prefix = (shard[1],)
        ctx.guard(("hist", prefix), history.bfs, LockSystem, DEPTH[ctx.tier], ctx, prefix, True, "hist", seconds=3000)
        return
    cfg = thread_configs()[shard[1]]
    n = 0
    for ch, (problems, steps) in explore(lambda c: run_threads(cfg, c)):
        n += 1
        ctx.transition(steps)
        ctx.state((cfg, tuple(ch.choices)))
        if problems:
            ctx.violation(f"threads:{problems[0][0]}", ("threads", cfg, tuple(ch.choices)), problems[0][1])
            break
        if ctx.out_of_time():
            break
    ctx.trace(n)
    ctx.case(("threads", cfg), nontrivial=True, n=n)


def conformance(ctx):
    """free-running real threads with the same bodies: copies of one lock lose no update"""
    import threading

    from dask.utils import SerializableLock

    base = SerializableLock()
    blob = pickle.dumps(base)
    counter = [0]

    def body():
        l = pickle.loads(blob)
        for _ in range(200):
            with l:
                v = counter[0]
                counter[0] = v + 1

    ts = [threading.Thread(target=body) for _ in range(4)]
    for t in ts:
        t.start()
    for t in ts:
        t.join()
    if counter[0] != 800:
        ctx.violation("conformance:real-threads-lost-update", ("real-threads",), f"counter {counter[0]} != 800")
    return {"real_threads": 4, "increments": counter[0]}


def replay(case, ctx):
    from mc.explore import Chooser

    if case[0] == "hist":
        s = LockSystem()
        for op in case[1]:
            for key, detail in s.step(op):
                ctx.violation(key, case, detail)
        s.cleanup()
    elif case[0] == "threads":
        problems, _ = run_threads(tuple(case[1]), Chooser(case[2]))
        for p in problems[:1]:
            ctx.violation(f"threads:{p[0]}", case, p[1])
