"""C38 -- groupby results equal pandas groupby (DESIGN 5/C38).  E4: exhaustive small scope.

program = (grouping keys, column selection, operation + options, groupby options sort/dropna/observed);
configuration = (partitioning incl. empty partitions, split_out, shuffle_method, split_every).
Reference = the same call on the whole pandas frame."""
from __future__ import annotations

from mc import dfh  # FIRST: installs the pyarrow stand-in

import numpy as np
import pandas as pd

from mc.props.C37 import _plain_index, _sort_like, _strict  # comparison helpers (RangeIndex normalisation, time tolerance)
from mc.run import Hang

ID = "C38"
LEVEL = "exploration"
WATCHDOG_S = 60.0
NSHARDS = 64
NROWS = {"quick": 5, "thorough": 6}
ASSUMPTIONS = [
    "sync scheduler; pyarrow stand-in; pandas 3.0.5 groupby on the whole frame is the reference; a case where pandas raises is inapplicable",
    "row order is part of the oracle only where it is promised: aggregations with an explicit sort=True (sorted group keys) and the "
    "cumulative operations (original row order); everything else (sort=False/None, split_out > 1 without sort, transform/shift/ffill/bfill, "
    "value_counts) is compared as a multiset of labelled rows",
    "NotImplementedError from dask is a documented refusal (counted as rejected); DataFrameGroupBy.nunique does not exist in dask (only "
    "SeriesGroupBy.nunique) and is not enumerated; shuffle_method 'p2p' needs distributed and is not enumerated",
    "floating results rtol 1e-9*nrows; dtype, index names and labels are part of the value",
]

# ------------------------------------------------------------------ alphabets
BY_ALL = ("g", ("g", "k2"), "kn", "kc", "h", "@index", "@series", ("g", "@par"))
BY_CORE = ("g", ("g", "k2"), "kn", "kc")
AGG_DF = ("sum", "prod", "min", "max", "mean", "count", "size", "first", "last", "var", "std", "idxmin", "idxmax", "cov", "corr")
AGG_SER = ("sum", "mean", "count", "size", "nunique", "value_counts", "first", "last", "max", "var", "std", "idxmax")
AGG_CFG = (("sum", None), ("mean", None), ("count", None), ("size", None), ("first", None), ("var", None), ("idxmax", None), ("cov", None),
           ("nunique", "f"), ("value_counts", "a"))
AGG_SPECS = {
    "str": "sum",
    "list2": ["sum", "mean"],
    "list3": ["min", "max", "count"],
    "listvar": ["var", "std"],
    "listfl": ["first", "last", "size"],
    "dict": {"a": "sum", "f": ["min", "max"]},
    "dict2": {"a": ["first", "last"], "f": "mean"},
    "named": (("x", ("a", "sum")), ("y", ("f", "max"))),
    "named2": (("lo", ("f", "min")), ("n", ("a", "count")), ("m", ("a", "mean"))),
}
TRANSFORMS = {"sum": "sum", "demean": lambda x: x - x.mean(), "cummax": "cummax"}
TRANSFORM_OPS = (("transform", (("f", "sum"),)), ("transform", (("f", "demean"),)), ("shift", (("periods", 1),)), ("shift", (("periods", -1),)),
                 ("ffill", ()), ("bfill", ()))
CUM_OPS = ("cumsum", "cumprod", "cumcount")
APPLY_FUNCS = {"range_a": lambda g: g.a.max() - g.a.min(), "sum_f": lambda g: g.f.sum()}
# F: depth-2 programs -- a step that hash-partitions the WHOLE frame on K1, then a shuffle-based (UDF style) groupby operation on K2
F_COLS = ["g", "k3", "a", "f"]
F_KEYS = (("g",), ("g", "k3"))  # K1 x K2 covers K2 == K1, K2 strict subset of K1, K2 strict superset of K1
F_PRIORS = ("shuffle", "merge")
# (op, opkw, cfg, order sensitive): only operations whose result does not depend on the row order inside a group
F_OPS = (
    ("transform", (("f", "sum"),), (), False), ("transform", (("f", "sum"),), (("shuffle_method", "tasks"),), False),
    ("transform", (("f", "demean"),), (), False), ("transform", (("f", "demean"),), (("shuffle_method", "tasks"),), False),
    ("apply", (("f", "range_a"),), (), False), ("apply", (("f", "sum_f"),), (("shuffle_method", "tasks"),), False),
    ("median", (), (), False), ("median", (), (("shuffle_method", "tasks"),), False),
)  # shift/ffill/bfill are not enumerated here: after an explicit shuffle the row order inside a group is no longer pandas' order
SPLIT_CFGS = ((), (("split_out", 2), ("shuffle_method", "tasks")), (("split_out", 2), ("shuffle_method", "disk")),
              (("split_out", 3), ("shuffle_method", "tasks")), (("split_out", True), ("shuffle_method", "tasks")),
              (("split_out", True), ("shuffle_method", "disk")))
SORTS = (None, True, False)


def RULE(tier):
    n = NROWS[tier]
    if tier == "quick":
        scope = (
            f"P = every split of the {n} rows into <= 3 partitions incl. empty ones (28); P4 = (5,),(2,3),(1,2,2),(0,3,2). "
            "A: 15 DataFrameGroupBy aggregations x 8 key kinds + 12 SeriesGroupBy aggregations x 4 key kinds, default options, x P. "
            "B: 10 aggregations x keys {column, two columns, NA key x dropna, categorical key x observed} x sort {None,True,False} x "
            "(split_out, shuffle_method) in {1,(2,tasks),(2,disk),(3,tasks),(True,tasks),(True,disk)} x P4 (+ split_every=2). "
            "C: 9 agg specs (str, lists, dicts, named) x 4 keys x P, and x sort x split_out {1,2} x P4. "
            "D: cumsum/cumprod/cumcount x 8 keys x {frame, column} x P. "
            "E: transform(sum, lambda)/shift(+-1)/ffill/bfill x keys {column, two columns, NA key, index} x shuffle_method {default,tasks,disk} x 10 partitionings. "
            "F (depth 2): {shuffle(K1), hash merge on K1} of the whole frame, then transform(sum, lambda)/apply(2 UDFs)/median x shuffle_method "
            "{default,tasks} grouped by K2, for K1, K2 in {[g], [g,k3]} (K2 equal / strict subset / strict superset of K1), "
            "no projection in between, x 13 partitionings with >= 2 partitions."
        )
    else:
        scope = (
            f"P = every split of the {n} rows into <= 4 partitions incl. empty ones (120); P12 = 12 partitionings with 1-4 partitions. "
            "A as quick x P (all 8 key kinds for SeriesGroupBy too); B: all 15+12 aggregations x 6 key/NA/categorical variants x sort x 6 "
            "(split_out, shuffle) x split_every {None,2} x P12; C x P and x sort x split_out {1,2,True} x P12; D x P; E x 8 keys x P(<=3 partitions); F as quick x every partitioning with 2-4 partitions."
        )
    return (
        f"frame of {n} rows: keys g (3 groups), k2 (str), kn (float with NaN), kc (categorical with an unused category), h (all distinct), named "
        "index with duplicates, a Series key, a derived Series key; values a (int), f (float with NaN). " + scope +
        " Oracle: equals pandas (see assumptions for order). non-trivial = some group has rows in >= 2 partitions."
    )


# ------------------------------------------------------------------ data
_FR = {}


def frame(seed, nrows):
    if (seed, nrows) not in _FR:
        perm = np.random.RandomState(seed).permutation(nrows)
        cut = lambda x: [x[i] for i in perm]  # noqa: E731
        pdf = pd.DataFrame({
            "g": cut([0, 1, 0, 2, 1, 0][:nrows]),
            "k2": cut(["x", "y", "y", "x", "y", "x"][:nrows]),
            "k3": cut([0, 1, 1, 0, 1, 0][:nrows]),  # numeric twin of k2 (sweep F: whole-frame UDF ops must not see a str column)
            "kn": cut([1.0, np.nan, 1.0, 2.0, np.nan, 2.0][:nrows]),
            "kc": pd.Categorical(cut(["p", "q", "p", "r", "q", "p"][:nrows]), categories=["p", "q", "r", "unused"]),
            "h": cut([10, 11, 12, 13, 14, 15][:nrows]),
            "a": cut([1, 4, 7, 3, 6, 2][:nrows]),
            "f": cut([1.5, np.nan, 2.0, -3.0, 0.5, np.nan][:nrows]),
        })
        pdf.index = pd.Index(np.array([1, 1, 2, 4, 4, 4][:nrows]), name="idx")  # sorted with duplicates, named
        _FR[(seed, nrows)] = pdf
    return _FR[(seed, nrows)]


def key_columns(by):
    bys = by if isinstance(by, tuple) else (by,)
    return [b for b in bys if not b.startswith("@")]


def resolve_by(full, by):
    """-> (columns of the grouped frame, the `by` argument) for a pandas or dask frame `full`"""
    bys = by if isinstance(by, tuple) else (by,)
    out = []
    for b in bys:
        if b == "@index":
            out.append("idx")
        elif b == "@series":
            out.append(full["g"])
        elif b == "@par":
            out.append((full["a"] % 2).rename("par"))
        else:
            out.append(b)
    cols = key_columns(by) + ["a", "f"]
    return cols, (out if isinstance(by, tuple) else out[0])


def frame_right(k1):
    """right side of the sweep-F hash join: every key combination of K1 once, one extra column"""
    full = frame(0, 6)
    return full[k1].drop_duplicates().reset_index(drop=True).assign(w=1.5)


# ------------------------------------------------------------------ enumeration
def kw(**k):
    return tuple(sorted(k.items()))


def p_small(tier):
    n = NROWS[tier]
    return [(n,), (2, n - 2), (1, 2, n - 3), (0, 3, n - 3)] if tier == "quick" else [
        (n,), (2, n - 2), (n - 1, 1), (0, n), (1, 2, n - 3), (0, 3, n - 3), (2, 2, n - 4), (n - 1, 0, 1), (1, 1, 1, n - 3), (2, 0, 2, n - 4), (1, 2, 1, n - 4), (0, 1, 0, n - 1)]


def gb_variants(by):
    """groupby-option variants that matter for the key kind"""
    if by == "kn":
        return ((), kw(dropna=True), kw(dropna=False))
    if by == "kc":
        return ((), kw(observed=True), kw(observed=False))
    return ((),)


def programs(tier):
    """-> list of (sweep, by, sel, op, opkw, gbkw, parts, cfg)"""
    n = NROWS[tier]
    quick = tier == "quick"
    P = dfh.partitionings(n, 3 if quick else 4, zeros=True)
    P4 = p_small(tier)
    out = []
    # A: aggregation x partitioning, default options
    for by in BY_ALL:
        for op in AGG_DF:
            for parts in P:
                out.append(("A", by, None, op, (), (), parts, ()))
    for by in BY_CORE if quick else BY_ALL:
        for op in AGG_SER:
            for parts in P:
                out.append(("A", by, "a" if op in ("nunique", "value_counts") else "f", op, (), (), parts, ()))
        for parts in P:
            out.append(("A", by, "f", "nunique", (), (), parts, ()))
    # B: options / configuration sweep
    aggs = AGG_CFG if quick else tuple((o, None) for o in AGG_DF) + tuple((o, "a" if o in ("nunique", "value_counts") else "f") for o in AGG_SER)
    for op, sel in aggs:
        for by in BY_CORE:
            for gbkw in gb_variants(by):
                if quick and gbkw and (("dropna", True) in gbkw or ("observed", True) in gbkw):
                    continue  # quick: the explicit pandas default is covered in thorough only
                for sort in SORTS:
                    g2 = gbkw + (() if sort is None else (("sort", sort),))
                    for cfg in SPLIT_CFGS:
                        for parts in P4:
                            out.append(("B", by, sel, op, (), g2, parts, cfg))
                            if not quick:
                                out.append(("B", by, sel, op, (), g2, parts, cfg + (("split_every", 2),)))
                    if quick:
                        for parts in P4[2:]:
                            out.append(("B", by, sel, op, (), g2, parts, (("split_every", 2),)))
    # C: agg specs
    for spec in AGG_SPECS:
        for by in BY_CORE:
            for parts in P:
                out.append(("C", by, None, "agg", (("spec", spec),), (), parts, ()))
            for sort in SORTS:
                for so in (1, 2) if quick else (1, 2, True):
                    if sort is None and so == 1:
                        continue
                    for parts in P4:
                        out.append(("C", by, None, "agg", (("spec", spec),), () if sort is None else (("sort", sort),), parts, (("split_out", so),)))
    # D: cumulative
    for by in BY_ALL:
        for op in CUM_OPS:
            for sel in (None, "f"):
                for parts in P:
                    out.append(("D", by, sel, op, (), (), parts, ()))
    # E: transform-like (shuffle based)
    PE = [p for p in dfh.partitionings(n, 2, zeros=True)] + [p for p in dfh.partitionings(n, 3, zeros=False) if len(p) == 3][:3] if quick else dfh.partitionings(n, 3, zeros=True)
    for by in ("g", ("g", "k2"), "kn", "@index") if quick else BY_ALL:
        for op, opkw in TRANSFORM_OPS:
            for sm in (None, "tasks", "disk"):
                for parts in PE:
                    out.append(("E", by, None, op, opkw, (), parts, () if sm is None else (("shuffle_method", sm),)))
    # F: prior partitioning step on K1, then UDF-style op on K2 over the whole frame (no projection in between)
    if quick:
        PF = [q for q in dfh.partitionings(n, 2, zeros=True) if len(q) == 2] + [q for q in dfh.partitionings(n, 3, zeros=False) if len(q) == 3] + [(0, 3, n - 3)]
    else:
        PF = [q for q in dfh.partitionings(n, 4, zeros=True) if len(q) >= 2]
    for prior in F_PRIORS:
        for k1 in F_KEYS:
            for k2 in F_KEYS:
                for op, opkw, cfg, order_sensitive in F_OPS:
                    if order_sensitive and prior == "merge":
                        continue  # a hash join promises no row order, shift/ffill results would not be comparable
                    for parts in PF:
                        out.append(("F", k2 if len(k2) > 1 else k2[0], None, op, opkw + (("k1", k1), ("prior", prior)), (), parts, cfg))
    return list(dict.fromkeys(out))


def shards(tier):
    return [("progs", i, NSHARDS) for i in range(NSHARDS)]


def cases_of(shard, tier):
    _, i, k = shard
    return programs(tier)[i::k]


# ------------------------------------------------------------------ evaluation
def call(full, case, is_dask):
    sweep, by, sel, op, opkw, gbkw, parts, cfg = case
    k = dict(opkw)
    if sweep == "F":
        obj, k1 = full[F_COLS], list(k.pop("k1"))
        if k.pop("prior") == "shuffle":
            if is_dask:
                obj = obj.shuffle(k1, shuffle_method=dict(cfg).get("shuffle_method"))
        else:
            right = frame_right(k1)
            obj = obj.merge(dfh.dd.from_pandas(right, npartitions=2), on=k1, shuffle_method="tasks", broadcast=False) if is_dask else obj.merge(right, on=k1)
        by_arg = list(by) if isinstance(by, tuple) else by
    else:
        cols, by_arg = resolve_by(full, by)
        obj = full[cols]
    gb = obj.groupby(by_arg, **dict(gbkw))
    if sel is not None:
        gb = gb[list(sel) if isinstance(sel, tuple) else sel]
    ck = dict(cfg) if is_dask else {}
    if op == "apply":
        r = gb.apply(APPLY_FUNCS[k["f"]], **ck)
    elif op == "agg":
        spec = AGG_SPECS[k["spec"]]
        if isinstance(spec, tuple):
            r = gb.agg(**{name: pd.NamedAgg(column=c, aggfunc=f) for name, (c, f) in spec}, **ck)
        else:
            r = gb.agg(spec, **ck)
    elif op == "transform":
        r = gb.transform(TRANSFORMS[k["f"]], **ck)
    elif op == "shift":
        r = gb.shift(k["periods"], **ck)
    else:
        r = getattr(gb, op)(**k, **ck)
    return r.compute() if is_dask else r


_REF = {}


def reference(case, seed):
    sweep, by, sel, op, opkw, gbkw, parts, cfg = case
    nrows = sum(parts)
    key = (seed, nrows, sweep, by, sel, op, opkw, gbkw)
    if key not in _REF:
        if len(_REF) > 4096:
            _REF.clear()
        try:
            _REF[key] = ("ok", call(frame(seed, nrows), case, False))
        except Hang:
            raise
        except Exception as e:  # noqa: BLE001
            _REF[key] = ("exc", e)
    return _REF[key]


def order_promised(case):
    sweep, by, sel, op, opkw, gbkw, parts, cfg = case
    if sweep == "D":
        return True
    if sweep in ("A", "B", "C") and dict(gbkw).get("sort") is True and op != "value_counts":
        return True
    return False


def _row_reprs(x):
    rows = x.astype(object).itertuples(index=False, name=None) if isinstance(x, pd.DataFrame) else x.tolist()
    return [repr(tuple("~" if pd.isna(v) else v for v in r) if isinstance(r, tuple) else ("~" if pd.isna(r) else r)) for r in rows]


def compare(got, want, ordered, nrows, ignore_index=False):
    """-> None | (failure class, text)"""
    rtol = 1e-9 * max(nrows, 1)
    if ignore_index and isinstance(got, (pd.Series, pd.DataFrame)) and isinstance(want, (pd.Series, pd.DataFrame)):
        # a merge promises no index: rows are compared as a plain multiset (sorted by content, index dropped)
        got, want = (x.iloc[sorted(range(len(x)), key=lambda i, b=_row_reprs(x): b[i])].reset_index(drop=True) for x in (got, want))
    got, want = _plain_index(got), _plain_index(want)
    if type(got) is not type(want):
        return "wrong-value", f"type {type(got).__name__} != {type(want).__name__}"
    g, w = (got, want) if ordered else (_sort_like(got), _sort_like(want))
    why = _strict(g, w, rtol)
    if why is None:
        return None
    if ordered and len(got) == len(want) and _strict(_sort_like(got), _sort_like(want), rtol) is None:
        return "wrong-order", why
    if _strict(g, w, rtol, check_dtype=False) is None:
        return "wrong-dtype", why
    return "wrong-value", why


def spans_partitions(pdf, by, parts):
    """some group has rows in >= 2 partitions"""
    cols = key_columns(by)
    if not cols:
        key = pd.Series(pdf.index if by == "@index" else pdf["g"].to_numpy())
    else:
        key = pdf[cols].astype(object).apply(lambda r: repr(tuple(r)), axis=1).reset_index(drop=True)
    b = np.cumsum((0,) + tuple(parts))
    pid = np.repeat(np.arange(len(parts)), parts)
    return bool((pd.Series(pid).groupby(key.to_numpy()).nunique() > 1).any())


def _group_ids(pdf, by):
    bys = by if isinstance(by, tuple) else (by,)
    cols = []
    for b in bys:
        if b == "@index":
            cols.append(pd.Series(pdf.index.to_numpy()))
        elif b == "@series":
            cols.append(pdf["g"].reset_index(drop=True))
        elif b == "@par":
            cols.append((pdf["a"] % 2).reset_index(drop=True))
        else:
            cols.append(pdf[b].astype(object).reset_index(drop=True))
    return pd.concat(cols, axis=1).apply(lambda r: repr(tuple(r)), axis=1)


def _allna_group_in_partition(pdf, by, parts, col="f"):
    """some (partition, group) cell holds only NA in `col` although the cell is not empty"""
    gid = _group_ids(pdf, by).to_numpy()
    na = pdf[col].isna().to_numpy()
    b = np.cumsum((0,) + tuple(parts))
    for b0, b1 in zip(b[:-1], b[1:]):
        for g in set(gid[b0:b1]):
            m = gid[b0:b1] == g
            if na[b0:b1][m].all():
                return True
    return False


def _allna_partition(pdf, col, parts):
    b = np.cumsum((0,) + tuple(parts))
    na = pdf[col].isna().to_numpy()
    return any(b1 > b0 and na[b0:b1].all() for b0, b1 in zip(b[:-1], b[1:]))


FIRSTLAST_SPECS = ("listfl", "dict2")


def known_class(case, failure, pdf):
    """-> None | (operation family, narrow input class) for the findings recorded in C38.findings.json.  A failure outside these
    classes keeps its bare '<op>[df|series]:<failure>' key and is reported as new."""
    sweep, by, sel, op, opkw, gbkw, parts, cfg = case
    g, c = dict(gbkw), dict(cfg)
    so = c.get("split_out", True if op == "nunique" else 1)
    so_gt1 = so is True or so > 1
    disk = c.get("shuffle_method") in (None, "disk")
    empty = 0 in parts
    spec = dict(opkw).get("spec")
    uses_f = sel in (None, "f")
    if op in ("cov", "corr"):
        return ("covcorr", "any-input")
    if by == "kc" and g.get("observed") is False and so_gt1 and failure == "wrong-value" and op != "nunique":
        return ("agg", "observed-false-split-out")
    if op in ("mean", "var", "std") and by == "kn" and g.get("dropna") is None and failure == "wrong-value":
        return ("meanvarstd", "na-key-default-dropna")
    if op == "nunique":
        if failure == "wrong-value" and ((by == "kn" and g.get("dropna") is False) or (by == "kc" and g.get("observed") is False)):
            return ("nunique", "dropna-observed-false-ignored")
        if failure == "wrong-order" and g.get("sort") is True:
            return ("nunique", "sort-true")
    if op == "size" and so_gt1 and failure == "wrong-value":
        return ("size", "split-out-name")
    if failure == "wrong-value" and disk and (
        (op in ("shift", "ffill", "bfill") and sweep == "E") or (so_gt1 and (op in ("first", "last") or spec in FIRSTLAST_SPECS))
    ):
        return ("shuffle-disk", "row-order")
    if op in ("idxmin", "idxmax") and failure == "dask-raises:ValueError" and uses_f and _allna_group_in_partition(pdf, by, parts):
        return ("idxminmax", "all-na-group-in-partition")
    if op in ("idxmin", "idxmax") and failure == "wrong-value" and spans_partitions(pdf, by, parts):
        return ("idxminmax", "group-spans-partitions")
    if op == "shift" and failure == "dask-raises:ValueError" and any(b in ("@series", "@par") for b in (by if isinstance(by, tuple) else (by,))):
        return ("shift", "series-key-duplicate-index")
    if op == "value_counts":
        blank = empty or (by == "kn" and _allna_partition(pdf, "kn", parts))  # a partition whose keys are all NaN gives an empty chunk
        if blank and failure in ("dask-raises:KeyError", "dask-raises:AttributeError") and (so_gt1 or "split_every" in c):
            return ("value_counts", "empty-chunk")
        if by == "kn" and g.get("dropna") is False and failure == "wrong-value" and _allna_partition(pdf, "kn", parts):
            return ("value_counts", "dropna-false-all-nan-key-partition")
    if op in ("cumsum", "cumprod") and failure == "wrong-value" and uses_f:
        return ("cumsumprod", "nan-values")
    if op == "cumcount" and failure == "wrong-value" and empty:
        return ("cumcount", "empty-partition-name")
    return None


def finding_key(case, failure, pdf):
    sweep, by, sel, op, opkw, gbkw, parts, cfg = case
    cls = known_class(case, failure, pdf)
    opn = op if op != "agg" else "agg-" + dict(opkw)["spec"]
    if sweep == "F":
        opn = f"{op}-after-{dict(opkw)['prior']}"
    tk = "series" if isinstance(sel, str) else "df"
    if cls:
        return f"{cls[0]}:{failure}:{cls[1]}"
    return f"{opn}[{tk}]:{failure}"


def run_case(case, ctx):
    sweep, by, sel, op, opkw, gbkw, parts, cfg = case
    nrows = sum(parts)
    status, want = reference(case, ctx.seed)
    if status == "exc":
        ctx.case(case, nontrivial=False, outcome=(op, "ref-raises", type(want).__name__))
        ctx.count("inapplicable")
        return
    pdf = frame(ctx.seed, nrows)
    try:
        d = dfh.build(pdf, parts)
        got = call(d, case, True)
        exc = None
    except Hang:
        raise
    except Exception as e:  # noqa: BLE001
        got, exc = None, e
    ctx.case(case, nontrivial=(sum(1 for q in parts if q) >= 2) if sweep == "F" else spans_partitions(pdf, by, parts), outcome=(op, type(want).__name__, want.shape, type(exc).__name__))
    if exc is not None:
        cls = dfh.classify_exc(exc)
        if isinstance(exc, ValueError) and "Grouping by an unaligned column is unsafe" in str(exc):
            cls = "rejected"  # documented refusal of the cumulative operations for Series keys
        if cls in ("rejected", "out_of_scope"):
            ctx.count(cls)
            return
        ctx.violation(finding_key(case, f"dask-raises:{type(exc).__name__}", pdf), case, f"dask raised {exc!r}; pandas gives {want!r}")
        return
    row_shaped_after_merge = sweep == "F" and dict(opkw)["prior"] == "merge" and op == "transform"
    bad = compare(got, want, order_promised(case), nrows, ignore_index=row_shaped_after_merge)
    if bad:
        ctx.violation(finding_key(case, bad[0], pdf), case, f"{bad[1]} | got {got!r} | want {want!r}")


def run_shard(shard, ctx):
    for case in cases_of(shard, ctx.tier):
        if ctx.out_of_time():
            return
        ctx.guard(case, run_case, case, ctx)


def replay(case, ctx):
    run_case(case, ctx)
