"""C17 -- configuration changes are scoped, atomic and spelling-insensitive (DESIGN 5/C17).
(h) BFS over histories of config.set enter/exit on a private config dict against a snapshot-stack model;
(u) update/merge, (e) collect_env, (s) serialize round trips by small-scope enumeration."""
from __future__ import annotations

import copy
import itertools

from mc import history
from mc.run import Hang

ID = "C17"
LEVEL = "model_checking"
WATCHDOG_S = 600.0
DEPTH = {"quick": 4, "thorough": 5}
ASSUMPTIONS = [
    "histories run against a private config= dict (dask.config.set(..., config=d)); the same code path serves the global config",
    "contexts are exited innermost-first; a set() call that raises opens no context",
    "dedup of histories on (config dict, snapshot stack): every operation's effect depends only on these",
    "update(): a scalar-vs-mapping type clash between old and new is only enumerated for priority='new' (the documentation does not define it for the others)",
]

KEYS = ["a", "a.b", "a.b.c", "a_x", "a-x", "z", "a.b_y", "a.b-y"]
VALS = [1, None, ("dict", 3), 2]


def val(v):
    if isinstance(v, tuple):
        return {"b": v[1]}
    return v


def RULE(tier):
    return (
        f"(h) ALL histories up to depth {DEPTH[tier]} over ops: set of one (key,value) for keys {KEYS} x values 1/None/{{'b':3}}/2, set of two pairs in one call "
        "(incl. duplicate spellings, prefix conflicts a.b + a.b.c, scalar-prefix conflicts), kwargs form a__b=, exit innermost; after every step the real "
        "private config is compared with a deepcopy snapshot-stack model (exit restores exactly; a raising set leaves config unchanged; inside the "
        "context get() returns the value under both spellings). (u) update/merge for ALL ordered pairs of 47 nested dicts x 3 priorities x 4 defaults; "
        "(e) collect_env for all environments of <= 2 variables over 7 names x 9 values; (s) serialize/deserialize of all those dicts and of every string of length <= 3 over {~,?,>,a,/} at every byte offset modulo 3. "
        "non-trivial = history length >= 2 / dict pair with a shared key."
    )


SINGLE = [("set", ((k, v),)) for k in range(len(KEYS)) for v in range(len(VALS))]
PAIRS = [
    ("set", ((0, 0), (5, 0))),  # a=1, z=1
    ("set", ((5, 0), (1, 3))),  # z=1, a.b=2   (raises if a is a scalar -> must roll back z)
    ("set", ((1, 3), (2, 0))),  # a.b=2, a.b.c=1 (prefix conflict in one call)
    ("set", ((2, 0), (1, 3))),  # a.b.c=1, a.b=2
    ("set", ((3, 0), (4, 3))),  # a_x=1, a-x=2 (same key, two spellings)
    ("set", ((4, 0), (3, 3))),
    ("set", ((0, 2), (1, 0))),  # a={'b':3}, a.b=1
    ("set", ((6, 0), (7, 3))),  # a.b_y, a.b-y
    ("set", ((5, 1), (5, 0))),
]
KW = [("setkw", "a__b", 0), ("setkw", "z", 3), ("setkw", "a_x", 0), ("setkw", "a__b_y", 3)]
OPS = SINGLE + PAIRS + KW + [("exit",)]


def alt(k):
    return k.replace("_", "-") if "_" in k else k.replace("-", "_")


class CfgSystem:
    def __init__(self):
        self.cfg = {}
        self.stack = []  # (snapshot, ctx)

    def enabled(self):
        return [op for op in OPS if op[0] != "exit" or self.stack]

    def step(self, op):
        import dask.config as dc

        viol = []
        if op[0] == "exit":
            snap, cm = self.stack.pop()
            cm.__exit__(None, None, None)
            if self.cfg != snap:
                viol.append(("exit-does-not-restore", f"after exit config={self.cfg!r}, at enter it was {snap!r}"))
            return viol
        before = copy.deepcopy(self.cfg)
        if op[0] == "set":
            arg = {}
            pairs = []
            for k, v in op[1]:
                pairs.append((KEYS[k], val(VALS[v])))
            arg = dict(pairs)
            call = lambda: dc.set(arg, config=self.cfg)
        else:
            pairs = [(op[1].replace("__", "."), val(VALS[op[2]]))]
            call = lambda: dc.set(config=self.cfg, **{op[1]: val(VALS[op[2]])})
        try:
            cm = call()
        except Hang:
            raise
        except Exception as e:  # noqa: BLE001
            if self.cfg != before:
                viol.append(("failed-set-not-rolled-back", f"{op} raised {e!r}; config before {before!r} after {self.cfg!r}"))
                self.cfg.clear()
                self.cfg.update(before)
            return viol
        cm.__enter__()
        self.stack.append((before, cm))
        # inside the context: get returns the set value under either spelling (last assignment per canonical key wins)
        final = {}
        for k, v in pairs:
            final[tuple(p.replace("-", "_") for p in k.split("."))] = (k, v)
        for canon, (k, v) in final.items():
            # skip keys shadowed / extended by another key of the same call (prefix relation)
            if any(o != canon and (o[: len(canon)] == canon or canon[: len(o)] == o) for o in final):
                continue
            for spelling in {k, ".".join(alt(p) for p in k.split("."))}:
                try:
                    got = dc.get(spelling, config=self.cfg)
                except Hang:
                    raise
                except Exception as e:  # noqa: BLE001
                    viol.append(("get-inside-context-raises", f"after {op}: get({spelling!r}) raised {e!r}; config {self.cfg!r}"))
                    continue
                if got != v:
                    viol.append(("get-inside-context-wrong", f"after {op}: get({spelling!r}) = {got!r}, set value {v!r}"))
        return viol

    def canon(self):
        return (repr(sorted_deep(self.cfg)), tuple(repr(sorted_deep(s)) for s, _ in self.stack))


def sorted_deep(d):
    if isinstance(d, dict):
        return tuple((k, sorted_deep(v)) for k, v in sorted(d.items()))
    return d


# ------------------------------------------------------------------ (u) update / merge
def small_dicts():
    leaves = [1, 2, None]
    out = [{}]
    ks = ["x", "y_z", "y-z"]
    for k in ks:
        for v in leaves:
            out.append({k: v})
        for k2 in ("p", "q_r"):
            for v in (1, 2):
                out.append({k: {k2: v}})
    out.append({"x": 1, "y_z": 2})
    out.append({"x": {"p": 1, "q_r": 2}})
    out.append({"x": {"p": 1}, "y-z": {"p": 2}})
    out.append({"x": {"p": {"deep": 1}}})
    out.append({"x": {"p": {"deep": 2}, "q-r": 1}})
    return out


def canon_key(k, d):
    if k in d:
        return k
    a = alt(k)
    return a if a in d else k


def ref_update(old, new, priority, defaults):
    old = copy.deepcopy(old)
    for k, v in new.items():
        k2 = canon_key(k, old)
        if isinstance(v, dict):
            if k2 not in old or not isinstance(old[k2], dict):
                old[k2] = {}
            old[k2] = ref_update(old[k2], v, priority, (defaults or {}).get(k2) if isinstance(defaults, dict) else None)
        elif priority == "new" or k2 not in old or (priority == "new-defaults" and defaults and k2 in defaults and defaults[k2] == old[k2]):
            old[k2] = v
    return old


def has_type_clash(old, new):
    for k, v in new.items():
        k2 = canon_key(k, old)
        if k2 in old:
            if isinstance(v, dict) != isinstance(old[k2], dict):
                return True
            if isinstance(v, dict) and has_type_clash(old[k2], v):
                return True
    return False


ENV_NAMES = ["DASK_A", "DASK_A__B", "DASK_A__B_C", "DASK_Z_Q", "OTHER_A", "DASK_Z__Q__R", "dask_lower"]
ENV_VALS = ["1", "true", "None", "none", "abc", "[1, 2]", "{'x': 1}", "1.5", ""]


def interpret(v):
    import ast

    try:
        return ast.literal_eval(v)
    except (SyntaxError, ValueError):
        pass
    return {"none": None, "null": None, "false": False, "true": True}.get(v.lower(), v)


def shards(tier):
    out = [("hist", i) for i in range(len(OPS) - 1)]
    ds = small_dicts()
    out += [("update", i) for i in range(len(ds))]
    out += [("env", 0), ("ser", 0)]
    return out


def run_shard(shard, ctx):
    import dask.config as dc

    kind = shard[0]
    if kind == "hist":
        op = OPS[shard[1]]
        s = CfgSystem()
        v = s.step(op)
        ctx.transition()
        ctx.case((op,), nontrivial=False)
        if v:
            ctx.violation(v[0][0], ("hist", (op,)), v[0][1])
            return
        ctx.guard(("hist", (op,)), history.bfs, CfgSystem, DEPTH[ctx.tier], ctx, (op,), True, "hist", seconds=2000)
    elif kind == "update":
        ds = small_dicts()
        old0 = ds[shard[1]]
        for new in ds:
            for priority in ("new", "old", "new-defaults"):
                for defaults in ([None] if priority != "new-defaults" else [None, {}, old0, new]):
                    case = ("update", shard[1], ds.index(new), priority, None if defaults is None else ("d", ds.index(defaults) if defaults in ds else -1))
                    if priority != "new" and has_type_clash(old0, new):
                        ctx.count("out_of_scope_type_clash")
                        continue
                    shared = bool({k.replace("-", "_") for k in old0} & {k.replace("-", "_") for k in new})
                    ctx.case(case, nontrivial=shared)
                    ctx.transition()
                    ctx.state(case[:3])
                    old = copy.deepcopy(old0)
                    newc = copy.deepcopy(new)
                    try:
                        got = dc.update(old, newc, priority=priority, defaults=copy.deepcopy(defaults))
                    except Hang:
                        raise
                    except Exception as e:  # noqa: BLE001
                        ctx.violation(f"update-raises:{type(e).__name__}", case, f"update({old0!r}, {new!r}, {priority}, {defaults!r}) raised {e!r}")
                        continue
                    want = ref_update(old0, new, priority, defaults)
                    if got != want or old != want:
                        ctx.violation(f"update-wrong:{priority}", case, f"update({old0!r}, {new!r}, {priority}, defaults={defaults!r}) = {got!r}, documented {want!r}")
                    if newc != new:
                        ctx.violation("update-mutates-new", case, f"{new!r} -> {newc!r}")
                    if priority == "new" and defaults is None:
                        m = dc.merge(copy.deepcopy(old0), copy.deepcopy(new))
                        if m != ref_update(ref_update({}, old0, "new", None), new, "new", None):
                            ctx.violation("merge-wrong", case, f"merge({old0!r}, {new!r}) = {m!r}")
    elif kind == "env":
        envs = [()]
        items = [(n, v) for n in ENV_NAMES for v in range(len(ENV_VALS))]
        envs += [(i,) for i in items]
        envs += [(a, b) for a, b in itertools.combinations(items, 2) if a[0] != b[0]]
        for env in envs:
            e = {n: ENV_VALS[v] for n, v in env}
            case = ("env", env)
            ctx.case(case, nontrivial=len(env) == 2)
            ctx.transition()
            want = {}
            clash = False
            for n, v in e.items():
                if not n.startswith("DASK_"):
                    continue
                path = n[5:].lower().replace("__", ".").split(".")
                d = want
                for p in path[:-1]:
                    p2 = canon_key(p, d)
                    if p2 in d and not isinstance(d[p2], dict):
                        clash = True
                        break
                    d = d.setdefault(p2, {})
                else:
                    p2 = canon_key(path[-1], d)
                    if isinstance(d.get(p2), dict) and d.get(p2):
                        clash = True
                    d[p2] = interpret(v)
            if clash:
                ctx.count("inapplicable_conflicting_env")
                continue
            try:
                got = dc.collect_env(e)
            except Hang:
                raise
            except Exception as ex:  # noqa: BLE001
                ctx.violation(f"collect_env-raises:{type(ex).__name__}", case, f"{e!r}: {ex!r}")
                continue
            if got != want:
                ctx.violation("collect_env-wrong", case, f"collect_env({e!r}) = {got!r}, documented {want!r}")
    elif kind == "ser":
        # strings whose JSON text puts every character of a small punctuation alphabet at every offset modulo 3
        # (base64 groups 3 bytes; '~', '?', '>' encode to the url-safe characters '-' and '_')
        punct = []
        for klen in (1, 2, 3):
            for L in (1, 2, 3):
                for t in itertools.product("~?>a/", repeat=L):
                    punct.append({"k" * klen: "".join(t)})
        for i, d in enumerate(small_dicts() + [[1, "a", None, {"k": [1.5, True]}], "text", 3] + punct):
            ctx.case(("ser", i), nontrivial=True)
            ctx.transition()
            try:
                back = dc.deserialize(dc.serialize(d))
            except Hang:
                raise
            except Exception as e:  # noqa: BLE001
                ctx.violation("serialize-raises", ("ser", i), repr(e))
                continue
            if back != d:
                ctx.violation("serialize-roundtrip", ("ser", i), f"{d!r} -> {back!r}")


def replay(case, ctx):
    if case[0] == "hist":
        s = CfgSystem()
        for op in case[1]:
            for key, detail in s.step(op):
                ctx.violation(key, case, detail)
        return
    if case[0] == "update":
        run_shard(("update", case[1]), ctx)
    elif case[0] == "env":
        run_shard(("env", 0), ctx)
    else:
        run_shard(("ser", 0), ctx)
