"""C35 -- map_blocks, blockwise and gufuncs see correct blocks and block locations (DESIGN 5/C35).  E4: exhaustive small scope.

Every input array is filled with DISTINCT values, so a block received by the probing user function identifies its own
position in the whole array (first value -> start, shape -> stop).  The probe appends (blocks, block_id, block_info) to a
module-global log; calls made while the graph is built (meta / dtype inference) are dropped by clearing the log when the
compute starts.  Kinds of cases (all literals):
  ("mb",  shape, chunks, args, sig, mode)      map_blocks, 1-3 inputs from {x, same, row, col, one, zero, row1, other, lit}
  ("mbs", shape, chunks, variant, sig)         map_blocks with drop_axis / new_axis / chunks on one input
  ("mbd", shape, chunks, args, axis, sig)      map_blocks with drop_axis over 2-3 inputs of DIFFERENT ndim (lower-rank partners stay
                                               aligned or get concatenated depending on which labelled axis is dropped)
  ("mbz", n, chunks, sig)                      map_blocks on 1-d arrays with EMPTY chunks
  ("mb0", shape, chunks, sig)                  map_blocks without array arguments: blocks synthesised from block_info / block_id
  ("bw",  pattern, chunks_per_arg, concatenate, align)   blockwise index patterns
  ("gu",  name, chunks_per_arg, vectorize, allow_rechunk, extra)   apply_gufunc vs numpy.vectorize(signature=...)
"""
from __future__ import annotations

import collections
import itertools

import numpy as np

from mc import arr, enums
from mc.run import Hang

ID = "C35"
LEVEL = "exploration"
WATCHDOG_S = 30.0
ASSUMPTIONS = [
    "sync scheduler, one optimized compute per case; the call log is cleared after graph construction, so meta/dtype-inference calls are not counted",
    "input arrays hold distinct integers: the position of every received block is recovered from its values, independently of block_id/block_info",
    "map_blocks without chunks= takes the block structure of the FIRST array argument (documented); argument lists that do not start with the "
    "full array therefore pass chunks= explicitly",
    "along a dropped axis map_blocks concatenates the blocks (documented): the received block must span the whole axis and only its "
    "array-location (0, n) is compared, not chunk-location/num-chunks",
    "blockwise with concatenate=None hands lists of blocks for contracted indices: required is that they tile the contracted axis exactly once "
    "and that two arguments sharing the index get pairwise matching lists; ascending order is not demanded",
    "apply_gufunc refusals that are documented (core dimension in several chunks / loop chunk sizes differ, allow_rechunk=False -> ValueError) "
    "are counted as rejected and must be raised exactly when the condition holds",
]

LOG = []


# --------------------------------------------------------------------------- probing user functions
def _snap(b):
    if isinstance(b, (list, tuple)):
        return [_snap(x) for x in b]
    return np.array(b, copy=True)


def _apply(mode, blocks):
    kind = mode[0]
    b = blocks[0]
    if kind == "first":
        return np.array(b)
    if kind == "combine":
        out = 0
        for k, blk in enumerate(blocks):
            out = out + (1000**k) * np.asarray(blk)
        return out
    if kind == "sum":
        return np.asarray(b).sum(axis=tuple(mode[1]))
    if kind == "sumb":
        out = 0
        for k, blk in enumerate(blocks):
            out = out + (1000**k) * np.asarray(blk)
        return np.asarray(out).sum(axis=mode[1])
    if kind in ("expand", "left"):
        k, m = (mode[1], mode[2]) if kind == "expand" else (0, mode[1])
        return np.repeat(np.expand_dims(b, k), m, axis=k)
    if kind == "sumexpand":
        return np.expand_dims(np.asarray(b).sum(axis=mode[1]), mode[2])
    if kind in ("head", "headt"):
        ix = [slice(None)] * b.ndim
        ix[mode[1]] = slice(0, 1)
        return np.array(b[tuple(ix)])
    if kind == "double":
        return np.concatenate([b, b], axis=mode[1])
    raise ValueError(mode)


def p_none(*blocks, mode=("first",)):
    LOG.append((_snap(blocks), None, None))
    return _apply(mode, blocks)


def p_id(*blocks, block_id=None, mode=("first",)):
    LOG.append((_snap(blocks), block_id, None))
    return _apply(mode, blocks)


def p_info(*blocks, block_info=None, mode=("first",)):
    LOG.append((_snap(blocks), None, block_info))
    return _apply(mode, blocks)


def p_both(*blocks, block_id=None, block_info=None, mode=("first",)):
    LOG.append((_snap(blocks), block_id, block_info))
    return _apply(mode, blocks)


def _synth(loc):
    """block whose cells hold their own global coordinates, encoded base 100"""
    grids = np.meshgrid(*[np.arange(a, b) for a, b in loc], indexing="ij") if loc else []
    out = np.zeros(tuple(b - a for a, b in loc), dtype="i8")
    for g in grids:
        out = out * 100 + g
    return out


def s_info(block_info=None, ch=None):
    LOG.append(((), None, block_info))
    return _synth(block_info[None]["array-location"])


def s_id(block_id=None, ch=None):
    LOG.append(((), block_id, None))
    return _synth(offsets(ch, block_id))


def s_both(block_id=None, block_info=None, ch=None):
    LOG.append(((), block_id, block_info))
    return _synth(block_info[None]["array-location"])


SYNTH = {"id": s_id, "info": s_info, "both": s_both}
PROBES = {"none": p_none, "id": p_id, "info": p_info, "both": p_both}
SIGS = ("none", "id", "info", "both")


def _tot(b, axis=None):
    """sum of an array or of a (nested) list of arrays"""
    if isinstance(b, list):
        out = None
        for x in b:
            t = _tot(x, axis)
            out = t if out is None else out + t
        return out
    return np.asarray(b).sum(axis=axis)


def bw_func(*blocks, pat=None):
    LOG.append((_snap(blocks), None, None))
    if pat == "copy":
        return np.array(blocks[0])
    if pat == "T":
        return np.array(blocks[0]).T
    if pat == "addT":
        return blocks[0] + 1000 * blocks[1].T
    if pat == "outer":
        return blocks[0][:, None] + 1000 * blocks[1][None, :]
    if pat == "addrow":
        return blocks[0] + 1000 * blocks[1][None, :]
    if pat == "three":
        return blocks[0] + 1000 * blocks[1][:, None] + 1000000 * blocks[2][None, :]
    if pat == "rowsum":
        return _tot(blocks[0], axis=1)
    if pat == "colsum":
        return _tot(blocks[0], axis=0)
    if pat == "dot":
        a, b = blocks
        if isinstance(a, list):
            out = 0
            for p, q in zip(a, b):
                out = out + np.dot(p, q)
            return out
        return np.dot(a, b)
    if pat == "inner":
        a, b = blocks
        if isinstance(a, list):
            out = 0
            for p, q in zip(a, b):
                out = out + (np.asarray(p) * np.asarray(q)).sum()
            return out
        return (np.asarray(a) * np.asarray(b)).sum()
    if pat == "diag":
        return np.array(np.diagonal(blocks[0]))
    if pat in ("newz", "newz2"):
        return np.asarray(blocks[0])[:, None] * np.ones((1, 3 if pat == "newz" else 2), dtype=np.int64)
    if pat in ("dbl_fn", "dbl_tuple"):
        return np.concatenate([blocks[0], blocks[0]], axis=0)
    if pat == "head_int":
        return np.array(blocks[0][:, :1])
    if pat == "lit":
        return blocks[0] + blocks[1]
    if pat in ("rowdot1", "inner1"):
        a, b = blocks
        ax = 1 if pat == "rowdot1" else 0
        if isinstance(a, list) or isinstance(b, list):
            a = a if isinstance(a, list) else [a]
            b = b if isinstance(b, list) else [b]
            out = 0
            for p, q in zip(a, b):
                out = out + (np.asarray(p) * np.asarray(q)).sum(axis=ax)
            return out
        return (np.asarray(a) * np.asarray(b)).sum(axis=ax)
    if pat == "addcol1":
        return blocks[0] + 1000 * blocks[1]
    if pat == "T3":
        return np.array(blocks[0]).transpose(2, 1, 0)
    if pat == "sum2":
        return _tot(blocks[0], axis=(1, 2))
    if pat == "keepj":
        return blocks[0][:, :, None] + 1000 * blocks[1][None, :, :]
    raise ValueError(pat)


def _double(n):
    return 2 * n


# pattern -> (out_ind, arg inds (None = literal), sizes of the letters)
PATTERNS = {
    "copy": ("ij", ("ij",)),
    "T": ("ji", ("ij",)),
    "addT": ("ij", ("ij", "ji")),
    "outer": ("ij", ("i", "j")),
    "addrow": ("ij", ("ij", "j")),
    "three": ("ij", ("ij", "i", "j")),
    "rowsum": ("i", ("ij",)),
    "colsum": ("j", ("ij",)),
    "dot": ("ik", ("ij", "jk")),
    "inner": ("", ("i", "i")),
    "diag": ("i", ("ii",)),
    "newz": ("iz", ("i",)),
    "newz2": ("iz", ("i",)),
    "dbl_fn": ("ij", ("ij",)),
    "dbl_tuple": ("ij", ("ij",)),
    "head_int": ("ij", ("ij",)),
    "lit": ("ij", ("ij", None)),
    "T3": ("kji", ("ijk",)),
    "sum2": ("i", ("ijk",)),
    "keepj": ("ijk", ("ij", "jk")),
    "rowdot1": ("i", ("ij", "ij")),
    "inner1": ("", ("i", "i")),
    "addcol1": ("ij", ("ij", "ij")),
}
CONTRACTING = ("rowsum", "colsum", "dot", "inner", "sum2", "rowdot1", "inner1")
# pattern -> {argument position: letters along which that argument has extent 1 (one block, broadcast against the others)}
SIZE1 = {"rowdot1": {1: "j"}, "inner1": {1: "i"}, "addcol1": {1: "j"}}


def arg_shape(pat, k, ind, sizes):
    one = SIZE1.get(pat, {}).get(k, "")
    return tuple(1 if c in one else sizes[c] for c in ind)


def bw_reference(pat, datas):
    x = datas[0]
    if pat == "copy":
        return x
    if pat == "T":
        return x.T
    if pat == "addT":
        return x + 1000 * datas[1].T
    if pat == "outer":
        return x[:, None] + 1000 * datas[1][None, :]
    if pat == "addrow":
        return x + 1000 * datas[1][None, :]
    if pat == "three":
        return x + 1000 * datas[1][:, None] + 1000000 * datas[2][None, :]
    if pat == "rowsum":
        return x.sum(axis=1)
    if pat == "colsum":
        return x.sum(axis=0)
    if pat == "dot":
        return x @ datas[1]
    if pat == "inner":
        return (x * datas[1]).sum()
    if pat == "diag":
        return np.array(np.diagonal(x))
    if pat == "newz":
        return x[:, None] * np.ones((1, 3), dtype=np.int64)
    if pat == "newz2":
        return x[:, None] * np.ones((1, 4), dtype=np.int64)
    if pat == "lit":
        return x + 5
    if pat == "rowdot1":
        return (x * datas[1]).sum(axis=1)
    if pat == "inner1":
        return (x * datas[1]).sum()
    if pat == "addcol1":
        return x + 1000 * datas[1]
    if pat == "T3":
        return x.transpose(2, 1, 0)
    if pat == "sum2":
        return x.sum(axis=(1, 2))
    if pat == "keepj":
        return x[:, :, None] + 1000 * datas[1][None, :, :]
    raise ValueError(pat)


# --------------------------------------------------------------------------- gufunc alphabet
def g_scale(a):
    return a * 2 + 1


def g_wsum(v):
    return (v * np.arange(1, v.shape[-1] + 1)).sum(axis=-1)


def g_cumsum(v):
    return np.cumsum(v, axis=-1)


def g_dot(a, b):
    return (a * b).sum(axis=-1)


def g_outer(a, b):
    return a[..., :, None] + 1000 * b[..., None, :]


def g_minmax(v):
    return v.min(axis=-1), v.max(axis=-1)


def g_pair(a):
    a = np.asarray(a)
    return np.stack([a, -a], axis=-1)


def g_matmul(a, b):
    return np.matmul(a, b)


# name -> (signature, func, input shapes, output_sizes)
GUFUNCS = {
    "scale": ("()->()", g_scale, ((2, 3),), None),
    "wsum": ("(i)->()", g_wsum, ((2, 3),), None),
    "wsum3": ("(i)->()", g_wsum, ((2, 2, 3),), None),
    "cumsum": ("(i)->(i)", g_cumsum, ((3, 3),), None),
    "dot": ("(i),(i)->()", g_dot, ((3, 2), (3, 2)), None),
    "dotb": ("(i),(i)->()", g_dot, ((3, 2), (2,)), None),
    "outer": ("(i),(j)->(i,j)", g_outer, ((3, 2), (3,)), None),
    "outerb": ("(i),(j)->(i,j)", g_outer, ((3, 2), (2, 1, 3)), None),
    "minmax": ("(i)->(),()", g_minmax, ((3, 3),), None),
    "pair": ("()->(k)", g_pair, ((4,),), {"k": 2}),
    "pair2": ("()->(k)", g_pair, ((2, 3),), {"k": 2}),
    "matmul": ("(i,j),(j,k)->(i,k)", g_matmul, ((2, 2, 3), (3, 2)), None),
}
GU_QUICK = ("scale", "wsum", "wsum3", "cumsum", "dot", "dotb", "outer", "outerb", "minmax", "pair", "pair2", "matmul")
GU_THOROUGH = tuple(GUFUNCS)
# thorough: larger inputs for the same signatures
GU_SHAPES_THOROUGH = {
    "scale": ((3, 4),),
    "wsum": ((3, 4),),
    "cumsum": ((4, 4),),
    "dot": ((4, 3), (4, 3)),
    "dotb": ((4, 3), (3,)),
    "outer": ((4, 2), (4,)),
    "minmax": ((4, 4),),
    "pair": ((6,),),
    "pair2": ((3, 4),),
    "matmul": ((2, 3, 3), (3, 3)),
}


def gu_shapes(name, tier):
    if tier == "thorough" and name in GU_SHAPES_THOROUGH:
        return GU_SHAPES_THOROUGH[name]
    return GUFUNCS[name][2]


def gu_ncore(name):
    sig = GUFUNCS[name][0].split("->")[0]
    out = []
    for part in sig.replace(" ", "").split("),("):
        part = part.strip("()")
        out.append(len([p for p in part.split(",") if p]))
    return out


# --------------------------------------------------------------------------- tiers / rule
MB_SHAPES = {"quick": ((4,), (2, 3), (3, 2), (3, 4), (4, 3), (2, 2, 2)), "thorough": ((4,), (5,), (6,), (2, 3), (3, 2), (3, 4), (4, 3), (2, 2, 2), (2, 3, 2), (4, 4))}
MBS_SHAPES = {"quick": ((4,), (5,), (2, 3), (3, 2), (3, 4), (2, 2, 2)), "thorough": ((4,), (5,), (6,), (2, 3), (3, 2), (3, 4), (4, 3), (2, 2, 2), (2, 3, 2), (4, 4))}
MBZ_N = {"quick": 4, "thorough": 5}
MB0_SHAPES = {"quick": ((1,), (2,), (3,), (4,), (5,), (2, 3), (3, 2), (3, 4), (2, 2, 2)), "thorough": ((1,), (2,), (3,), (4,), (5,), (6,), (7,), (2, 3), (3, 2), (3, 4), (4, 4), (2, 2, 2), (2, 3, 2))}
BW_SIZES = {"quick": {"i": 4, "j": 4, "k": 2}, "thorough": {"i": 4, "j": 4, "k": 3}}
ARGLISTS = (
    ("x",),
    ("x", "same"),
    ("x", "row"),
    ("x", "col"),
    ("x", "one"),
    ("x", "zero"),
    ("x", "lit"),
    ("x", "row1"),
    ("x", "other"),
    ("row", "x"),
    ("col", "x"),
    ("zero", "x"),
    ("lit", "x"),
    ("one", "x"),
    ("col", "row"),
    ("x", "row", "col"),
    ("row", "col", "x"),
    ("x", "lit", "same"),
    ("x", "other", "row1"),
)
COMBINABLE = {"x", "same", "row", "col", "one", "zero", "lit"}
# drop_axis with inputs of different rank: which labelled axis a lower-rank partner loses depends on the alignment, not on its own position
MBD_ARGLISTS = (("x", "row"), ("row", "x"), ("x", "col"), ("x", "same"), ("x", "zero"), ("x", "row", "col"), ("col", "row", "x"))
MBD_SHAPES = {"quick": ((2, 3), (3, 2), (3, 4), (2, 2, 2)), "thorough": ((2, 3), (3, 2), (3, 4), (4, 3), (2, 2, 2), (2, 3, 2), (4, 4))}


def RULE(tier):
    return (
        f"map_blocks: base shapes {MB_SHAPES[tier]} x EVERY chunking x {len(ARGLISTS)} argument lists (1-3 inputs: full array, same-chunked twin, "
        "trailing-axis 1-d, size-1 column, all-ones shape, 0-d, single-block and differently-shaped same-numblocks partners, python literal; both "
        "orders) x probe signature {plain, block_id, block_info, both} x return mode; one-input structure variants: every drop_axis subset, every "
        "new_axis position with and without chunks=, drop+new, left-inferred new axis, chunks= as int / tuple (head), doubled chunks; drop_axis (every axis) over "
        f"{len(MBD_ARGLISTS)} argument lists mixing ranks (trailing-axis 1-d, size-1 column, 0-d, twin; both orders) on {MBD_SHAPES[tier]}; 1-d arrays "
        f"with empty chunks (n <= {MBZ_N[tier]}, <= 4 parts); no-array map_blocks synthesising every block from block_info/block_id for shapes "
        f"{MB0_SHAPES[tier]}. blockwise: {len(PATTERNS)} index patterns (identity, 2-d/3-d transpose, x+y.T, outer, broadcast row, extent-1 partners along a kept and along a contracted index, "
        "3 inputs, 3-d result keeping a shared index, contractions of one and of two indices with concatenate True/None, matmul, full contraction, repeated index 'ii', new_axes int/tuple, adjust_chunks "
        f"callable/tuple/int, literal) over sizes {BW_SIZES[tier]} with EVERY chunking of every argument (align_arrays=True: all combinations; False: "
        f"matching block counts). apply_gufunc: {len(GU_QUICK if tier == 'quick' else GU_THOROUGH)} signatures x every chunking of every input x vectorize x "
        "allow_rechunk (+ axis/keepdims for '(i)->()') vs numpy.vectorize. Oracle: exactly one call per output block, blocks of all inputs aligned "
        "(positions recovered from values), block_id / block_info chunk- and array-locations true, lazy shape/chunks/dtype equal the computed "
        "blocks, values equal the NumPy reference. non-trivial = some input has >= 2 blocks."
    )


# --------------------------------------------------------------------------- enumeration
def mbs_variants(ndim):
    out = []
    axes = range(ndim)
    for r in range(1, ndim + 1):
        for sub in itertools.combinations(axes, r):
            out.append(("sum", sub))
    out.append(("sumneg", -1))
    for k in range(ndim + 1):
        out.append(("expand", k, 1))
        out.append(("expand", k, 2))
    out.append(("left", 2))
    for a in axes:
        for k in range(ndim):
            out.append(("sumexpand", a, k))
    for a in axes:
        out.append(("head", a))
        out.append(("headt", a))
        out.append(("double", a))
    return out


def gu_extras(name):
    if name in ("wsum", "wsum3"):
        nd = len(GUFUNCS[name][2][0])  # same rank in both tiers
        ex = [None]
        for ax in range(nd):
            ex.append(("axis", ax, False))
            ex.append(("axis", ax, True))
        ex.append(("axis", -1, True))
        return ex
    if name == "cumsum":
        return [None, ("axes", ((0,), (0,))), ("axes", ((0,), (1,)))]
    if name == "dot":
        return [None, ("axis", 0, False), ("keepdims",)]
    return [None]


def groups(tier):
    g = [("mb", shape) for shape in MB_SHAPES[tier]] + [("mbs", shape) for shape in MBS_SHAPES[tier]] + [("mbd", shape) for shape in MBD_SHAPES[tier]] + [("mbz",)] + [("mb0",)]
    g += [("bw", pat) for pat in PATTERNS]
    g += [("gu", name) for name in (GU_QUICK if tier == "quick" else GU_THOROUGH)]
    return g


def group_cases(group, tier):
    """all cases of one group in a fixed order"""
    kind = group[0]
    if kind == "mb":
        shape = group[1]
        nd = len(shape)
        for ch in enums.chunkings(shape):
            for args in ARGLISTS:
                if nd == 1 and ({"row", "row1"} & set(args)):
                    continue  # for a 1-d base the trailing-axis partner is the twin itself
                modes = ["first", "firstd"] if args[0] == "x" else []
                if set(args) <= COMBINABLE:
                    modes.append("combine")
                for sig in SIGS:
                    for mode in modes:
                        yield ("mb", shape, ch, args, sig, mode)
    elif kind == "mbs":
        shape = group[1]
        for ch in enums.chunkings(shape):
            for v in mbs_variants(len(shape)):
                for sig in ("none", "both"):
                    yield ("mbs", shape, ch, v, sig)
    elif kind == "mbd":
        shape = group[1]
        for ch in enums.chunkings(shape):
            for args in MBD_ARGLISTS:
                for a in range(len(shape)):
                    for sig in ("none", "info", "both"):
                        yield ("mbd", shape, ch, args, a, sig)
    elif kind == "mbz":
        for n in range(0, MBZ_N[tier] + 1):
            for ch in enums.compositions_with_zeros(n, 4):
                if 0 not in ch:
                    continue
                for sig in ("id", "both"):
                    yield ("mbz", n, ch, sig)
    elif kind == "mb0":
        for shape in MB0_SHAPES[tier]:
            for ch in enums.chunkings(shape):
                for sig in ("id", "info", "both"):
                    yield ("mb0", shape, ch, sig)
    elif kind == "bw":
        sizes = BW_SIZES[tier]
        pat = group[1]
        out_ind, inds = PATTERNS[pat]
        arr_inds = [i for i in inds if i is not None]
        if pat == "diag":
            shapes = [(3, 3)] + ([(4, 4)] if tier == "thorough" else [])
            for shp in shapes:
                for ch in enums.chunkings(shp):
                    yield ("bw", pat, (ch,), None, True)
                    if ch[0] == ch[1]:
                        yield ("bw", pat, (ch,), None, False)
            return
        per_arg = [list(enums.chunkings(arg_shape(pat, k, ind, sizes))) for k, ind in enumerate(arr_inds)]
        concs = (True, None) if pat in CONTRACTING else (None,)
        for chs in itertools.product(*per_arg):
            # same letter, same chunking everywhere -> align_arrays=False is legal as well
            seen, consistent = {}, True
            for ind, ch in zip(arr_inds, chs):
                for c, cc in zip(ind, ch):
                    if cc == (1,) and sizes[c] != 1:
                        continue  # extent-1 axis: one block, broadcast
                    if seen.setdefault(c, cc) != cc:
                        consistent = False
            for conc in concs:
                yield ("bw", pat, tuple(chs), conc, True)
                if consistent:
                    yield ("bw", pat, tuple(chs), conc, False)
    elif kind == "gu":
        name = group[1]
        shapes = gu_shapes(name, tier)
        per_arg = [list(enums.chunkings(s)) for s in shapes]
        for chs in itertools.product(*per_arg):
            for vec in (True, False):
                for ar in (False, True):
                    for ex in gu_extras(name):
                        yield ("gu", name, tuple(chs), vec, ar, ex)
    else:
        raise ValueError(group)


PER_SHARD = {"quick": 1500, "thorough": 6000}


def shards(tier):
    out = []
    for g in groups(tier):
        n = sum(1 for _ in group_cases(g, tier))
        k = max(1, -(-n // PER_SHARD[tier]))
        for part in range(k):
            out.append((g, part, k, n))
    out.sort(key=lambda s: s[3] // s[2])
    return out


def cases_of(shard, tier):
    g, part, k = shard[0], shard[1], shard[2]
    for i, case in enumerate(group_cases(g, tier)):
        if i % k == part:
            yield case


# --------------------------------------------------------------------------- locating blocks by value
class Bad(Exception):
    def __init__(self, key, detail):
        super().__init__(detail)
        self.key, self.detail = key, detail


def locate(block, data):
    """-> tuple of (start, stop) per axis of the place where `block` sits in `data`, or None for an empty block"""
    block = np.asarray(block)
    if block.ndim != data.ndim:
        raise Bad("garbled-block", f"received block of ndim {block.ndim} for an input of ndim {data.ndim}")
    if block.size == 0:
        return None
    pos = np.argwhere(data == block.flat[0])
    if len(pos) != 1:
        raise Bad("garbled-block", f"received block {block.tolist()} does not start with a value of the input")
    start = tuple(int(p) for p in pos[0])
    sl = tuple((s, s + n) for s, n in zip(start, block.shape))
    sub = data[tuple(slice(a, b) for a, b in sl)]
    if sub.shape != block.shape or not np.array_equal(sub, block):
        raise Bad("garbled-block", f"received block {block.tolist()} is not a contiguous piece of the input at {sl}")
    return sl


def block_index(sl, chunks, whole_ok=()):
    """interval per axis -> block index per axis (axes in whole_ok may also span the whole axis -> 0)"""
    idx = []
    for ax, ((a, b), c) in enumerate(zip(sl, chunks)):
        starts = np.concatenate([[0], np.cumsum(c)]).astype(int).tolist()
        hit = [i for i in range(len(c)) if starts[i] == a and starts[i + 1] == b and c[i] > 0]
        if hit:
            idx.append(hit[0])
        elif ax in whole_ok and a == 0 and b == starts[-1]:
            idx.append(0)
        else:
            raise Bad("not-a-block", f"received piece {sl} is not a block of chunks {chunks}")
    return tuple(idx)


def offsets(chunks, idx):
    out = []
    for c, i in zip(chunks, idx):
        s = int(sum(c[:i]))
        out.append((s, s + int(c[i])))
    return out


def norm_loc(loc):
    return [(int(a), int(b)) for a, b in loc]


# --------------------------------------------------------------------------- known classes (see C35.findings.json)
def known_class(case):
    """narrow input classes of recorded findings (C35.findings.json); appended to the finding key"""
    if case[0] == "bw" and case[1] == "diag" and case[2][0][0] != case[2][0][1]:
        return "repeated-index-unequal-chunks"
    return None


# --------------------------------------------------------------------------- map_blocks cases
def build_arg(kind, shape, ch, seed, k):
    """-> (data | literal, chunks | None)"""
    lo = 1 + 100 * k
    nd = len(shape)
    if kind in ("x", "same"):
        return arr.data(shape, seed, lo=lo), ch
    if kind == "row":
        return arr.data(shape[-1:], seed, lo=lo), (ch[-1],)
    if kind == "row1":
        return arr.data(shape[-1:], seed, lo=lo), ((shape[-1],),)
    if kind == "col":
        return arr.data(shape[:-1] + (1,), seed, lo=lo), tuple(ch[:-1]) + ((1,),)
    if kind == "one":
        return arr.data((1,) * nd, seed, lo=lo), ((1,),) * nd
    if kind == "zero":
        return np.array(lo + 6, dtype="i8"), ()
    if kind == "other":
        chunks = []
        for ax, c in enumerate(ch):
            nb = len(c)
            chunks.append(tuple(range(1, nb + 1)) if ax % 2 == 0 else tuple(range(nb, 0, -1)))
        shp = tuple(sum(c) for c in chunks)
        return arr.data(shp, seed, lo=lo), tuple(chunks)
    if kind == "lit":
        return 5, None
    raise ValueError(kind)


def check_info_entry(info, data, chunks, sl, idx, what, skip_axes=()):
    """block_info entry of one input array vs the truth recovered from the values"""
    if info is None:
        raise Bad("block_info:missing", f"no block_info entry for {what}")
    if tuple(info.get("shape", ())) != tuple(data.shape):
        raise Bad("block_info:shape", f"{what}: shape {info.get('shape')} != {data.shape}")
    if sl is None:
        return
    if norm_loc(info["array-location"]) != [tuple(s) for s in sl]:
        raise Bad("block_info:array-location", f"{what}: array-location {info['array-location']} but the block sits at {list(sl)}")
    cl = tuple(int(i) for i in info["chunk-location"])
    nc = tuple(int(i) for i in info["num-chunks"])
    for ax in range(len(chunks)):
        if ax in skip_axes:
            continue
        if cl[ax] != idx[ax]:
            raise Bad("block_info:chunk-location", f"{what}: chunk-location {cl} but the block is number {idx}")
        if nc[ax] != len(chunks[ax]):
            raise Bad("block_info:num-chunks", f"{what}: num-chunks {nc} != {tuple(len(c) for c in chunks)}")
    if len(cl) != len(chunks) or len(nc) != len(chunks):
        raise Bad("block_info:chunk-location", f"{what}: chunk-location {cl} / num-chunks {nc} have the wrong length")


def check_out_entry(info, out_shape, out_chunks, G, dtype):
    if info is None:
        raise Bad("block_info:missing", "no block_info[None] entry")
    if tuple(info["shape"]) != tuple(out_shape):
        raise Bad("block_info:out-shape", f"output shape {info['shape']} != {out_shape}")
    if tuple(int(i) for i in info["num-chunks"]) != tuple(len(c) for c in out_chunks):
        raise Bad("block_info:out-num-chunks", f"output num-chunks {info['num-chunks']} != {tuple(len(c) for c in out_chunks)}")
    if tuple(int(i) for i in info["chunk-location"]) != tuple(G):
        raise Bad("block_info:out-chunk-location", f"output chunk-location {info['chunk-location']} but this is block {G}")
    want = offsets(out_chunks, G)
    if norm_loc(info["array-location"]) != want:
        raise Bad("block_info:out-array-location", f"output array-location {info['array-location']} != {want} (block {G})")
    cs = tuple(int(c[i]) for c, i in zip(out_chunks, G))
    if tuple(int(i) for i in info["chunk-shape"]) != cs:
        raise Bad("block_info:out-chunk-shape", f"output chunk-shape {info['chunk-shape']} != {cs}")
    if np.dtype(info["dtype"]) != np.dtype(dtype):
        raise Bad("block_info:out-dtype", f"output dtype {info['dtype']} != {dtype}")


def grid_check(Gs, out_chunks):
    """exactly one call per output block"""
    want = collections.Counter(itertools.product(*[range(len(c)) for c in out_chunks]))
    got = collections.Counter(Gs)
    if got != want:
        extra = {k: v for k, v in got.items() if want.get(k, 0) != v}
        missing = [k for k in want if k not in got]
        raise Bad("calls-per-block", f"calls per output block: wrong counts {extra}, never called {missing[:6]} ({sum(got.values())} calls, {sum(want.values())} blocks)")


def run_mb(case, ctx):
    import dask.array as da

    _, shape, ch, args, sig, mode = case
    built = [build_arg(a, shape, ch, ctx.seed, k) for k, a in enumerate(args)]
    dargs = [da.from_array(d, chunks=c) if c is not None else d for d, c in built]
    kwargs = {"mode": ("first" if mode == "firstd" else mode,)}
    if args[0] != "x":
        kwargs["chunks"] = ch
    if mode == "firstd":
        kwargs["dtype"] = "i8"
        kwargs["enforce_ndim"] = True
    LOG.clear()
    r = da.map_blocks(PROBES[sig], *dargs, **kwargs)
    LOG.clear()
    got, prob = arr.compute_blocks(r)
    log = list(LOG)
    if prob:
        raise Bad("lazy-metadata", prob)
    if tuple(r.chunks) != tuple(ch):
        raise Bad("out-chunks", f"output chunks {r.chunks} != {ch}")
    if mode in ("first", "firstd"):
        want = built[0][0]
    else:
        want = 0
        for k, (d, _) in enumerate(built):
            want = want + (1000**k) * np.asarray(d)
    why = arr.equal(got, np.asarray(want))
    if why:
        raise Bad("wrong-value", why)
    nd = len(shape)
    Gs = []
    for blocks, bid, binfo in log:
        if len(blocks) != len(args):
            raise Bad("wrong-arity", f"function called with {len(blocks)} blocks for {len(args)} arguments")
        per_dim = [set() for _ in range(nd)]
        located = []
        for k, ((d, c), blk) in enumerate(zip(built, blocks)):
            if c is None:
                if not (np.ndim(blk) == 0 and blk == d):
                    raise Bad("literal-changed", f"literal argument arrived as {blk!r}")
                located.append(None)
                continue
            sl = locate(blk, d)
            idx = block_index(sl, c)
            located.append((sl, idx))
            off = nd - d.ndim
            for ax in range(d.ndim):
                if len(c[ax]) > 1:
                    per_dim[off + ax].add(idx[ax])
        if any(len(s) > 1 for s in per_dim):
            raise Bad("misaligned", f"blocks of one call come from different block positions: {[l[1] if l else None for l in located]}")
        G = tuple(next(iter(s)) if s else 0 for s in per_dim)
        Gs.append(G)
        if sig in ("id", "both"):
            if bid is None or tuple(bid) != G:
                raise Bad("block_id", f"block_id {bid} but the blocks come from position {G}")
        if sig in ("info", "both"):
            if not isinstance(binfo, dict):
                raise Bad("block_info:missing", f"block_info is {binfo!r}")
            for k, ((d, c), loc) in enumerate(zip(built, located)):
                if loc is None:
                    continue
                check_info_entry(binfo.get(k), d, c, loc[0], loc[1], f"input {k} ({args[k]})")
            check_out_entry(binfo.get(None), shape, ch, G, got.dtype)
    grid_check(Gs, ch)
    return (r.chunks, len(log))


def run_mbs(case, ctx):
    import dask.array as da

    _, shape, ch, v, sig = case
    x = arr.data(shape, ctx.seed)
    d = da.from_array(x, chunks=ch)
    nd = len(shape)
    kind = v[0]
    kwargs = {}
    dropped = ()
    if kind in ("sum", "sumneg"):
        axes = v[1] if kind == "sum" else (nd - 1,)
        dropped = tuple(axes)
        kwargs = {"drop_axis": list(v[1]) if kind == "sum" else -1, "mode": ("sum", tuple(axes))}
        if kind == "sum" and len(axes) == 1:
            kwargs["drop_axis"] = axes[0]
        out_chunks = tuple(c for ax, c in enumerate(ch) if ax not in axes)
        want = x.sum(axis=tuple(axes))
        to_out = lambda idx: tuple(i for ax, i in enumerate(idx) if ax not in axes)  # noqa: E731
    elif kind == "expand":
        k, m = v[1], v[2]
        out_chunks = tuple(ch[:k]) + ((m,),) + tuple(ch[k:])
        kwargs = {"new_axis": k, "mode": ("expand", k, m)}
        if m != 1:
            kwargs["chunks"] = out_chunks
        want = np.repeat(np.expand_dims(x, k), m, axis=k)
        to_out = lambda idx: tuple(idx[:k]) + (0,) + tuple(idx[k:])  # noqa: E731
    elif kind == "left":
        m = v[1]
        out_chunks = ((m,),) + tuple(ch)
        kwargs = {"chunks": out_chunks, "mode": ("left", m)}
        want = np.repeat(np.expand_dims(x, 0), m, axis=0)
        to_out = lambda idx: (0,) + tuple(idx)  # noqa: E731
    elif kind == "sumexpand":
        a, k = v[1], v[2]
        dropped = (a,)
        rest = tuple(c for ax, c in enumerate(ch) if ax != a)
        out_chunks = rest[:k] + ((1,),) + rest[k:]
        kwargs = {"drop_axis": a, "new_axis": k, "mode": ("sumexpand", a, k)}
        want = np.expand_dims(x.sum(axis=a), k)

        def to_out(idx):
            rest_i = tuple(i for ax, i in enumerate(idx) if ax != a)
            return rest_i[:k] + (0,) + rest_i[k:]

    elif kind in ("head", "headt"):
        a = v[1]
        nb = len(ch[a])
        out_chunks = tuple(c if ax != a else (1,) * nb for ax, c in enumerate(ch))
        spec = tuple(c if ax != a else (1 if kind == "head" else (1,) * nb) for ax, c in enumerate(ch))
        kwargs = {"chunks": spec, "mode": (kind, a)}
        starts = np.concatenate([[0], np.cumsum(ch[a])[:-1]]).astype(int)
        want = x.take(starts, axis=a)
        to_out = lambda idx: tuple(idx)  # noqa: E731
    elif kind == "double":
        a = v[1]
        out_chunks = tuple(c if ax != a else tuple(2 * q for q in c) for ax, c in enumerate(ch))
        kwargs = {"chunks": out_chunks, "mode": ("double", a)}
        pieces, s = [], 0
        for q in ch[a]:
            ix = [slice(None)] * nd
            ix[a] = slice(s, s + q)
            pieces += [x[tuple(ix)], x[tuple(ix)]]
            s += q
        want = np.concatenate(pieces, axis=a)
        to_out = lambda idx: tuple(idx)  # noqa: E731
    else:
        raise ValueError(v)
    LOG.clear()
    r = da.map_blocks(PROBES[sig], d, **kwargs)
    LOG.clear()
    got, prob = arr.compute_blocks(r)
    log = list(LOG)
    if prob:
        raise Bad("lazy-metadata", prob)
    if tuple(tuple(c) for c in r.chunks) != tuple(tuple(c) for c in out_chunks):
        raise Bad("out-chunks", f"output chunks {r.chunks} != {out_chunks}")
    why = arr.equal(got, np.asarray(want))
    if why:
        raise Bad("wrong-value", why)
    Gs = []
    for blocks, bid, binfo in log:
        if len(blocks) != 1:
            raise Bad("wrong-arity", f"function called with {len(blocks)} blocks")
        sl = locate(blocks[0], x)
        for ax in dropped:
            if sl[ax] != (0, shape[ax]):
                raise Bad("dropped-axis-not-whole", f"block {sl} does not span the dropped axis {ax}")
        idx = block_index(sl, ch, whole_ok=dropped)
        G = to_out(idx)
        Gs.append(G)
        if sig == "both":
            if bid is None or tuple(bid) != G:
                raise Bad("block_id", f"block_id {bid} but the block is output block {G} (input block {idx})")
            if not isinstance(binfo, dict):
                raise Bad("block_info:missing", f"block_info is {binfo!r}")
            check_info_entry(binfo.get(0), x, ch, sl, idx, "input 0", skip_axes=dropped)
            check_out_entry(binfo.get(None), want.shape, out_chunks, G, got.dtype)
    grid_check(Gs, out_chunks)
    return (r.chunks, len(log))


def run_mbd(case, ctx):
    import dask.array as da

    _, shape, ch, args, a, sig = case
    nd = len(shape)
    built = [build_arg(k_, shape, ch, ctx.seed, k) for k, k_ in enumerate(args)]
    dargs = [da.from_array(d, chunks=c) for d, c in built]
    out_chunks = tuple(c for ax, c in enumerate(ch) if ax != a)
    out_shape = tuple(n for ax, n in enumerate(shape) if ax != a)
    kwargs = {"drop_axis": a, "mode": ("sumb", a)}
    if args[0] != "x":
        kwargs["chunks"] = out_chunks
    LOG.clear()
    r = da.map_blocks(PROBES[sig], *dargs, **kwargs)
    LOG.clear()
    got, prob = arr.compute_blocks(r)
    log = list(LOG)
    if prob:
        raise Bad("lazy-metadata", prob)
    if tuple(tuple(c) for c in r.chunks) != out_chunks:
        raise Bad("out-chunks", f"output chunks {r.chunks} != {out_chunks}")
    want = 0
    for k, (d, _) in enumerate(built):
        want = want + (1000**k) * np.asarray(d)
    want = np.asarray(want).sum(axis=a)
    why = arr.equal(got, want)
    if why:
        raise Bad("wrong-value", why)
    Gs = []
    for blocks, bid, binfo in log:
        if len(blocks) != len(args):
            raise Bad("wrong-arity", f"function called with {len(blocks)} blocks for {len(args)} arguments")
        per_dim = [set() for _ in range(nd)]
        located = []
        for k, ((d, c), blk) in enumerate(zip(built, blocks)):
            off = nd - d.ndim
            dropped = tuple(ax for ax in range(d.ndim) if ax + off == a)  # the argument's own axis carrying the dropped label
            sl = locate(blk, d)
            for ax in dropped:
                if sl[ax] != (0, d.shape[ax]):
                    raise Bad("dropped-axis-not-whole", f"input {k} ({args[k]}): block {sl} does not span the dropped axis")
            idx = block_index(sl, c, whole_ok=dropped)
            located.append((sl, idx, dropped))
            for ax in range(d.ndim):
                if ax not in dropped and len(c[ax]) > 1:
                    per_dim[off + ax].add(idx[ax])
        if any(len(st) > 1 for st in per_dim):
            raise Bad("misaligned", f"blocks of one call come from different block positions: {[l[1] for l in located]}")
        G = tuple(next(iter(st)) if st else 0 for ax, st in enumerate(per_dim) if ax != a)
        Gs.append(G)
        if sig == "both" and (bid is None or tuple(bid) != G):
            raise Bad("block_id", f"block_id {bid} but the blocks come from output position {G}")
        if sig in ("info", "both"):
            if not isinstance(binfo, dict):
                raise Bad("block_info:missing", f"block_info is {binfo!r}")
            for k, ((d, c), (sl, idx, dropped)) in enumerate(zip(built, located)):
                check_info_entry(binfo.get(k), d, c, sl, idx, f"input {k} ({args[k]})", skip_axes=dropped)
            check_out_entry(binfo.get(None), out_shape, out_chunks, G, got.dtype)
    grid_check(Gs, out_chunks)
    return (r.chunks, len(log))


def run_mbz(case, ctx):
    import dask.array as da

    _, n, ch, sig = case
    x = arr.data((n,), ctx.seed)
    d = da.from_array(x, chunks=(ch,))
    LOG.clear()
    r = da.map_blocks(PROBES[sig], d, mode=("first",))
    LOG.clear()
    got, prob = arr.compute_blocks(r)
    log = list(LOG)
    if prob:
        raise Bad("lazy-metadata", prob)
    why = arr.equal(got, x)
    if why:
        raise Bad("wrong-value", why)
    Gs = []
    for blocks, bid, binfo in log:
        if bid is None or len(bid) != 1 or not (0 <= bid[0] < len(ch)):
            raise Bad("block_id", f"block_id {bid}")
        G = (int(bid[0]),)
        Gs.append(G)
        lo, hi = offsets((ch,), G)[0]
        if not np.array_equal(np.asarray(blocks[0]), x[lo:hi]):
            raise Bad("block_id", f"block_id {bid} came with block {np.asarray(blocks[0]).tolist()}, block {G} of chunks {ch} is {x[lo:hi].tolist()}")
        if sig == "both":
            if not isinstance(binfo, dict):
                raise Bad("block_info:missing", f"block_info is {binfo!r}")
            check_info_entry(binfo.get(0), x, (ch,), ((lo, hi),), G, "input 0")
            check_out_entry(binfo.get(None), (n,), (ch,), G, got.dtype)
    grid_check(Gs, (ch,))
    return (r.chunks, len(log))


# --------------------------------------------------------------------------- blockwise cases
def flat(b):
    if isinstance(b, list):
        out = []
        for x in b:
            out.extend(flat(x))
        return out
    return [b]


def run_bw(case, ctx):
    import dask.array as da

    _, pat, chs, conc, align = case
    out_ind, inds = PATTERNS[pat]
    arr_inds = [i for i in inds if i is not None]
    datas, dargs = [], []
    for k, (ind, ch) in enumerate(zip(arr_inds, chs)):
        shp = tuple(sum(c) for c in ch)
        data = arr.data(shp, ctx.seed + k, lo=1 + 100 * k)
        datas.append(data)
        dargs.append(da.from_array(data, chunks=ch))
    call = []
    it = iter(dargs)
    for ind in inds:
        if ind is None:
            call += [5, None]
        else:
            call += [next(it), ind]
    kw = {"dtype": "i8", "align_arrays": align, "pat": pat}
    if conc is not None:
        kw["concatenate"] = conc
    x = datas[0]
    if pat == "newz":
        kw["new_axes"] = {"z": 3}
    elif pat == "newz2":
        kw["new_axes"] = {"z": (2, 2)}
    elif pat == "dbl_fn":
        kw["adjust_chunks"] = {"i": _double}
    elif pat == "dbl_tuple":
        kw["adjust_chunks"] = {"i": tuple(2 * c for c in chs[0][0])}
    elif pat == "head_int":
        kw["adjust_chunks"] = {"j": 1}
    if pat in ("dbl_fn", "dbl_tuple"):
        pieces, s = [], 0
        for q in chs[0][0]:
            pieces += [x[s : s + q], x[s : s + q]]
            s += q
        want = np.concatenate(pieces, axis=0)
    elif pat == "head_int":
        starts = np.concatenate([[0], np.cumsum(chs[0][1])[:-1]]).astype(int)
        want = x.take(starts, axis=1)
    else:
        want = bw_reference(pat, datas)
    LOG.clear()
    r = da.blockwise(bw_func, out_ind, *call, **kw)
    LOG.clear()
    got, prob = arr.compute_blocks(r)
    log = list(LOG)
    if prob:
        raise Bad("lazy-metadata", prob)
    why = arr.equal(got, np.asarray(want))
    if why:
        raise Bad("wrong-value", why)
    sizes = {}
    for ind, data in zip(arr_inds, datas):
        for c, n in zip(ind, data.shape):
            sizes[c] = max(sizes.get(c, 0), n)
    contracted = sorted(set("".join(arr_inds)) - set(out_ind))
    out_keys = []
    for blocks, _, _ in log:
        blocks = [b for b, ind in zip(blocks, inds) if ind is not None]
        per_letter = {}
        lists = {}
        for k, (ind, data, blk) in enumerate(zip(arr_inds, datas, blocks)):
            # extent-1 axes of this argument are broadcast against the other arguments: always block (0, 1)
            bc = tuple(data.shape[pos] == 1 and sizes[c] != 1 for pos, c in enumerate(ind))
            if isinstance(blk, list):
                cl = tuple(c for c in ind if c in contracted)
                seq = []
                kept_seen = {c: set() for pos, c in enumerate(ind) if c not in contracted and not bc[pos]}
                for piece in flat(blk):
                    sl = locate(piece, data)
                    if sl is None:
                        raise Bad("garbled-block", "empty piece in a block list")
                    seq.append(tuple(None if bc[pos] else iv for pos, (c, iv) in enumerate(zip(ind, sl)) if c in contracted))
                    for pos, (c, iv) in enumerate(zip(ind, sl)):
                        if bc[pos]:
                            if iv != (0, 1):
                                raise Bad("misaligned", f"argument {k}: broadcast axis {c!r} shows {iv}")
                        elif c not in contracted:
                            kept_seen[c].add(iv)
                lists.setdefault(cl, []).append(seq)
                for c, seen in kept_seen.items():
                    if len(seen) != 1:
                        raise Bad("misaligned", f"list argument {k} mixes positions {sorted(seen)} along kept index {c!r}")
                    per_letter.setdefault(c, set()).add(next(iter(seen)))
            else:
                sl = locate(blk, data)
                for pos, (c, iv) in enumerate(zip(ind, sl)):
                    if bc[pos]:
                        if iv != (0, 1):
                            raise Bad("misaligned", f"argument {k}: broadcast axis {c!r} shows {iv}")
                    elif c in contracted:
                        if iv != (0, sizes[c]):
                            raise Bad("contraction-not-whole", f"argument {k}: contracted index {c!r} covers {iv}, not the whole axis (concatenate={conc})")
                    else:
                        per_letter.setdefault(c, set()).add(iv)
        for c, st in per_letter.items():
            if len(st) != 1:
                raise Bad("misaligned", f"index {c!r} has different positions in the blocks of one call: {sorted(st)}")
        for cl, seqs in lists.items():
            if len({len(q) for q in seqs}) != 1:
                raise Bad("list-length", f"contracted indices {cl}: the arguments got block lists of different lengths {[len(q) for q in seqs]}")
            for q in seqs[1:]:
                for t0, t1 in zip(seqs[0], q):
                    if any(u is not None and v is not None and u != v for u, v in zip(t0, t1)):
                        raise Bad("misaligned", f"contracted indices {cl}: block lists of the arguments do not pair up: {seqs}")
            for seq in seqs:
                live = [pos for pos in range(len(cl)) if seq and seq[0][pos] is not None]
                if not live:
                    continue
                rseq = [tuple(t[pos] for pos in live) for t in seq]
                ok = len(live) < len(cl) or len(set(rseq)) == len(rseq)
                total = 1
                for j, pos in enumerate(live):
                    c = cl[pos]
                    ivs = sorted({t[j] for t in rseq})
                    total *= len(ivs)
                    ok = ok and bool(ivs) and ivs[0][0] == 0 and ivs[-1][1] == sizes[c] and all(p[1] == q[0] for p, q in zip(ivs, ivs[1:]))
                if not ok or total != len(set(rseq)):
                    raise Bad("contraction-not-whole", f"contracted indices {cl}: the blocks {seq} do not tile the contracted axes exactly once")
        out_keys.append(tuple(next(iter(per_letter[c])) for c in out_ind if c in per_letter))
    # one call per output block; the kept-letter intervals must form exactly the declared output grid
    kept = [c for c in out_ind if c in sizes]
    mult = 1
    for c, ch in zip(out_ind, r.chunks):
        if c not in sizes:
            mult *= len(ch)
    grid = []
    for c, ch in zip(out_ind, r.chunks):
        if c in sizes:
            if pat in ("dbl_fn", "dbl_tuple") and c == "i":
                ch = tuple(q // 2 for q in ch)
            elif pat == "head_int" and c == "j":
                ch = chs[0][1]
            s, ivs = 0, []
            for q in ch:
                ivs.append((s, s + q))
                s += q
            grid.append(ivs)
    want_c = collections.Counter({k: mult for k in itertools.product(*grid)})
    got_c = collections.Counter(out_keys)
    if want_c != got_c:
        raise Bad("calls-per-block", f"calls do not match the output grid: called {dict(got_c)}, output blocks {dict(want_c)}")
    return (r.chunks, len(log))


# --------------------------------------------------------------------------- gufunc cases
def run_gu(case, ctx):
    import dask.array as da

    _, name, chs, vec, ar, ex = case
    sig, fn, _, osz = GUFUNCS[name]
    shapes = tuple(tuple(sum(c) for c in ch) for ch in chs)  # the case carries the shapes through its chunkings
    datas = [arr.data(s, ctx.seed + k, lo=1 + 100 * k) for k, s in enumerate(shapes)]
    dargs = [da.from_array(d, chunks=c) for d, c in zip(datas, chs)]
    ncore = gu_ncore(name)
    kw = {"vectorize": vec, "allow_rechunk": ar}
    if osz:
        kw["output_sizes"] = osz
    vfn = np.vectorize(fn, signature=sig)
    ref_in = list(datas)
    post = lambda out: out  # noqa: E731
    core_axes = [tuple(range(d.ndim - n, d.ndim)) for d, n in zip(datas, ncore)]
    if ex is not None:
        if ex[0] == "axis":
            ax, keep = ex[1], ex[2]
            kw["axis"] = ax
            if keep:
                kw["keepdims"] = True
            ref_in = [np.moveaxis(d, ax, -1) if n else d for d, n in zip(datas, ncore)]
            core_axes = [((ax % d.ndim),) if n else () for d, n in zip(datas, ncore)]
            if keep:
                post = lambda out: np.expand_dims(out, ax)  # noqa: E731
        elif ex[0] == "axes":
            kw["axes"] = [tuple(a) for a in ex[1]]
            (ia,), (oa,) = ex[1]
            ref_in = [np.moveaxis(datas[0], ia, -1)]
            core_axes = [(ia,)]
            post = lambda out: np.moveaxis(out, -1, oa)  # noqa: E731
        elif ex[0] == "keepdims":
            kw["keepdims"] = True
            post = lambda out: np.expand_dims(out, -1)  # noqa: E731
    want = vfn(*ref_in)
    multi = isinstance(want, tuple)
    wants = [post(w) for w in want] if multi else [post(want)]
    # documented refusal conditions (allow_rechunk=False)
    refuse = False
    if not ar:
        for c, axs in zip(chs, core_axes):
            if any(len(c[a]) > 1 for a in axs):
                refuse = True
        nloop = [d.ndim - n for d, n in zip(datas, ncore)]
        mx = max(nloop)
        per = collections.defaultdict(set)
        for d, c, n, axs in zip(datas, chs, nloop, core_axes):
            loop_axes = [a for a in range(d.ndim) if a not in axs]
            for j, a in enumerate(loop_axes):
                if d.shape[a] > 1:
                    per[mx - n + j].add(tuple(c[a]))
        if any(len(s) > 1 for s in per.values()):
            refuse = True
    try:
        r = da.apply_gufunc(fn, sig, *dargs, **kw)
        rs = list(r) if isinstance(r, tuple) else [r]
        gots = [arr.compute_blocks(q) for q in rs]
    except Hang:
        raise
    except ValueError as e:
        if refuse:
            ctx.count("rejected")
            return ("rejected",)
        raise Bad(f"dask-raises:{type(e).__name__}", f"apply_gufunc raised {e!r}")
    if len(rs) != len(wants):
        raise Bad("wrong-nout", f"{len(rs)} outputs, reference has {len(wants)}")
    for (got, prob), w in zip(gots, wants):
        if prob:
            raise Bad("lazy-metadata", prob)
        why = arr.equal(got, np.asarray(w))
        if why:
            raise Bad("wrong-value", why)
    return tuple(q.chunks for q in rs)


def run_mb0(case, ctx):
    import dask.array as da

    _, shape, ch, sig = case
    LOG.clear()
    r = da.map_blocks(SYNTH[sig], chunks=ch, dtype="i8", ch=ch)
    LOG.clear()
    got, prob = arr.compute_blocks(r)
    log = list(LOG)
    if prob:
        raise Bad("lazy-metadata", prob)
    if tuple(r.shape) != tuple(shape) or tuple(r.chunks) != tuple(ch):
        raise Bad("out-chunks", f"output shape/chunks {r.shape}/{r.chunks} != {shape}/{ch}")
    want = _synth([(0, n) for n in shape])
    why = arr.equal(got, want)
    if why:
        raise Bad("wrong-value", why)
    Gs = []
    for _, bid, binfo in log:
        G = tuple(bid) if bid is not None else tuple(int(i) for i in binfo[None]["chunk-location"])
        Gs.append(G)
        if binfo is not None:
            check_out_entry(binfo.get(None), shape, ch, G, got.dtype)
    grid_check(Gs, ch)
    return (r.chunks, len(log))


RUNNERS = {"mb": run_mb, "mbs": run_mbs, "mbd": run_mbd, "mbz": run_mbz, "mb0": run_mb0, "bw": run_bw, "gu": run_gu}


def nontrivial_of(case):
    kind = case[0]
    if kind in ("mb", "mbs", "mbd", "mb0"):
        return any(len(c) >= 2 for c in case[2])
    if kind == "mbz":
        return len(case[2]) >= 2
    if kind == "bw":
        return any(len(c) >= 2 for ch in case[2] for c in ch)
    return any(len(c) >= 2 for ch in case[2] for c in ch)


def opname(case):
    kind = case[0]
    if kind == "bw":
        return f"bw-{case[1]}"
    if kind == "gu":
        return f"gu-{case[1]}"
    if kind == "mbs":
        return f"mbs-{case[3][0]}"
    return kind


def run_case(case, ctx):
    sub = known_class(case)
    suffix = f":{sub}" if sub else ""
    op = opname(case)
    try:
        outcome = RUNNERS[case[0]](case, ctx)
        ctx.case(case, nontrivial=nontrivial_of(case), outcome=outcome)
    except Hang:
        raise
    except Bad as b:
        ctx.case(case, nontrivial=nontrivial_of(case), outcome=("bad", b.key))
        ctx.violation(f"{op}:{b.key}{suffix}", case, b.detail)
    except NotImplementedError:
        ctx.case(case, nontrivial=nontrivial_of(case), outcome=("rejected",))
        ctx.count("rejected")
    except Exception as e:  # noqa: BLE001
        ctx.case(case, nontrivial=nontrivial_of(case), outcome=("exc", type(e).__name__))
        ctx.violation(f"{op}:dask-raises:{type(e).__name__}{suffix}", case, f"raised {e!r}")
    finally:
        LOG.clear()


def run_shard(shard, ctx):
    for case in cases_of(shard, ctx.tier):
        if ctx.out_of_time():
            return
        ctx.guard(case, run_case, case, ctx)


def replay(case, ctx):
    run_case(case, ctx)
